#!/usr/bin/env python3
"""Design-time tool: (re)build the frozen golden data in /verif/data.

Run once while preparing the framework; the checks never run it.  After the
files are committed they do not follow /repo any more, so a later change to
src/data.rs, to a lookup helper or to the label arrays shows up as a
differential failure against this frozen copy.

Sources (see data/PROVENANCE.md):
  * CJK indexes: /repo/tests/test_data/*_in_ref.txt, which
    generate-encoding-data.py wrote from WHATWG indexes.json in pointer order.
  * gb18030 ranges: CPython's gb18030 codec over all BMP four-byte pointers
    plus the two WHATWG deltas (pointer 7457 <-> U+E7C7, U+E5E5 unmappable).
  * single-byte indexes: snapshot of the pinned tree (argument --sb-dump),
    cross-checked against CPython's codec tables; every differing cell is
    listed in PROVENANCE.md and was reviewed against the Standard.
  * labels: the generated list in /repo/src/test_labels_names.rs.
"""
import re, sys, os, codecs

TD = '/repo/tests/test_data/'
OUT = os.path.join(os.path.dirname(os.path.abspath(__file__)), '..', 'data')


def read_ref(name):
    data = open(TD + name, 'rb').read().decode('utf-8')
    marker = 'generate-encoding-data.py\n'
    body = data[data.index(marker) + len(marker):]
    lines = body.split('\n')
    if lines and lines[-1] == '':
        lines.pop()
    return lines


def index_from_ref(name):
    idx = []
    for l in read_ref(name):
        if l.startswith('�'):
            idx.append(None)
        else:
            idx.append(l)
    return idx


def write_index(fname, idx):
    with open(os.path.join(OUT, fname), 'w') as f:
        for c in idx:
            if c is None:
                f.write('-\n')
            else:
                f.write(' '.join('%04X' % ord(ch) for ch in c) + '\n')


def main():
    os.makedirs(OUT, exist_ok=True)
    big5 = index_from_ref('big5_in_ref.txt')
    euckr = index_from_ref('euc_kr_in_ref.txt')
    gb = index_from_ref('gb18030_in_ref.txt')
    sj = index_from_ref('shift_jis_in_ref.txt')
    jis0208_94 = index_from_ref('jis0208_in_ref.txt')
    jis0212 = index_from_ref('jis0212_in_ref.txt')
    # shift_jis_in_ref covers pointers up to 11279; 8836..10715 there are the
    # EUDC (PUA) substitutions of the Shift_JIS decoder, not index entries.
    jis0208 = [(None if 8836 <= p <= 10715 else c) for p, c in enumerate(sj)]
    for p in range(94 * 94):
        assert jis0208[p] == jis0208_94[p], p
    # strip trailing nulls
    for idx in (big5, euckr, gb, jis0208, jis0212):
        while idx and idx[-1] is None:
            idx.pop()
    write_index('index-big5.txt', big5)
    write_index('index-euc-kr.txt', euckr)
    write_index('index-gb18030.txt', gb)
    write_index('index-jis0208.txt', jis0208)
    write_index('index-jis0212.txt', jis0212)

    # gb18030 ranges from CPython
    cps = []
    for p in range(0, 39420):
        b1 = p // 12600; r = p % 12600; b2 = r // 1260; r %= 1260; b3 = r // 10; b4 = r % 10
        bs = bytes([b1 + 0x81, b2 + 0x30, b3 + 0x81, b4 + 0x30])
        try:
            cps.append(ord(bs.decode('gb18030')))
        except Exception:
            cps.append(None)
    rows = []
    prev = None
    for p, cp in enumerate(cps):
        if cp is None:
            prev = None
            continue
        if prev is None or cp != prev[1] + (p - prev[0]):
            rows.append((p, cp))
            prev = (p, cp)
    with open(os.path.join(OUT, 'gb18030-ranges.txt'), 'w') as f:
        for p, cp in rows:
            f.write('%d %04X\n' % (p, cp))
    print('ranges rows', len(rows), 'holes', sum(1 for c in cps if c is None))

    # labels
    src = open('/repo/src/test_labels_names.rs').read()
    pairs = re.findall(r'for_label\(b"([^"]+)"\),\s*Some\(([A-Z0-9_]+)\)', src)
    with open(os.path.join(OUT, 'labels.txt'), 'w') as f:
        for l, e in pairs:
            f.write('%s %s\n' % (l, e))
    print('labels', len(pairs))

    # single-byte: snapshot + cross-check
    if '--sb-dump' in sys.argv:
        dump = sys.argv[sys.argv.index('--sb-dump') + 1]
        lines = open(dump).read().strip().split('\n')
        pymap = {'IBM866': 'cp866', 'KOI8-R': 'koi8_r', 'KOI8-U': 'koi8_u', 'macintosh': 'mac_roman',
                 'x-mac-cyrillic': 'mac_cyrillic', 'windows-874': 'cp874', 'ISO-8859-8-I': 'iso8859_8'}
        diffs = []
        with open(os.path.join(OUT, 'index-single-byte.txt'), 'w') as f:
            for l in lines:
                parts = l.split()
                name, cells = parts[0], parts[1:]
                assert len(cells) == 128
                cells = ['-' if c == '----' else c for c in cells]
                f.write(name + ' ' + ' '.join(cells) + '\n')
                py = pymap.get(name)
                if py is None:
                    if name.startswith('windows-'):
                        py = 'cp' + name[8:]
                    elif name.startswith('ISO-8859-'):
                        py = 'iso8859_' + name[9:]
                for i, c in enumerate(cells):
                    b = bytes([0x80 + i])
                    try:
                        pc = '%04X' % ord(b.decode(py))
                    except Exception:
                        pc = '-'
                    if pc != c:
                        diffs.append('%s %02X snapshot=%s cpython=%s' % (name, 0x80 + i, c, pc))
        with open(os.path.join(OUT, 'single-byte-vs-cpython.txt'), 'w') as f:
            f.write('\n'.join(diffs) + '\n')
        print('single-byte cells differing from CPython:', len(diffs))


if __name__ == '__main__':
    main()
