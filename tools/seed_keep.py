#!/usr/bin/env python3
"""Copy confirmed, independently written breaking changes into /verif/seeded/<id>/.

  tools/seed_keep.py [Cnn ...]      (default: everything with a result under /tmp/mut/results)

For each evaluated candidate (tools/mutation_eval.py result) whose confirmation succeeded
(existing suite passes with the change; demonstration fails with it and passes without it):
  seeded/<Cnn>-m<N>/patch.diff   the change (git apply-able on /repo HEAD)
  seeded/<Cnn>-m<N>/demo.rs      the author's demonstration (tests/demoN.rs of the crate)
  seeded/<Cnn>-m<N>/notes.md     the author's own description
  seeded/<Cnn>-m<N>/meta.json    property, what it needs to manifest, what was run, which checks caught it
"""
import json, os, re, shutil, sys, glob

RES = '/tmp/mut/results'
OUT = '/verif/seeded'


def section(md, title_words):
    # text under the first heading containing any of the words
    parts = re.split(r'^#+\s*(.*)$', md, flags=re.M)
    # parts = [pre, title1, body1, title2, body2, ...]
    for i in range(1, len(parts) - 1, 2):
        t = parts[i].lower()
        if any(w in t for w in title_words):
            return re.sub(r'\s+', ' ', parts[i + 1]).strip()
    return ''


def main():
    want = sys.argv[1:]
    kept = 0
    for f in sorted(glob.glob(os.path.join(RES, 'C??-?.json')) + glob.glob(os.path.join(RES, 'C??r2-?.json')) + glob.glob(os.path.join(RES, 'C??r3-?.json')) + glob.glob(os.path.join(RES, 'C??r4-?.json')) + glob.glob(os.path.join(RES, 'C??r5-?.json'))):
        base = os.path.basename(f)[:-5]
        tag, n = base.split('-')
        prop = tag[:3]
        r2 = tag.endswith('r2')
        r3 = tag.endswith('r3')
        r4 = tag.endswith('r4')
        r5 = tag.endswith('r5')
        if want and prop not in want and tag not in want:
            continue
        txt = open(f).read().strip()
        if not txt:
            continue
        d = json.loads(txt)
        c = d.get('confirm', {})
        ok = c.get('suite_with_change') == 'pass' and c.get('demo_with_change') == 'fails' and c.get('demo_without_change') == 'passes'
        extra = os.path.join(RES, '%s-%s.confirm.json' % (tag, n))
        if not ok and os.path.exists(extra):
            c = json.load(open(extra))
            ok = c.get('ok', False)
        if not ok:
            print('skip %s: not confirmed: %s' % (base, c))
            continue
        src = '/tmp/mut/%s%s.out' % (prop, '.r2' if r2 else ('.r3' if r3 else ('.r4' if r4 else ('.r5' if r5 else ''))))
        dst = os.path.join(OUT, '%s-%sm%s' % (prop, 'r2' if r2 else ('r3' if r3 else ('r4' if r4 else ('r5' if r5 else ''))), n))
        os.makedirs(dst, exist_ok=True)
        shutil.copy(os.path.join(src, 'mutant%s.diff' % n), os.path.join(dst, 'patch.diff'))
        shutil.copy(os.path.join(src, 'demo%s.rs' % n), os.path.join(dst, 'demo.rs'))
        md = open(os.path.join(src, 'mutant%s.md' % n)).read()
        open(os.path.join(dst, 'notes.md'), 'w').write(md)
        title = md.strip().split('\n')[0].lstrip('# ').strip()
        checks = {}
        # merge later re-evaluations (Cnn-N*.json)
        for g in sorted(glob.glob(os.path.join(RES, '%s-%s*.json' % (tag, n)))):
            if g.endswith('.confirm.json'):
                continue
            t2 = open(g).read().strip()
            if not t2:
                continue
            for p, r in json.loads(t2).get('checks', {}).items():
                first = next((l for l in r.get('lines', []) if 'what:' in l), '')
                checks[p] = {'detected': bool(r.get('detected')), 'status': r.get('status'), 'first_report': first[:400]}
        meta = {
            'id': os.path.basename(dst),
            'round': 2 if r2 else (3 if r3 else (4 if r4 else (5 if r5 else 1))),
            'breaks_property': prop,
            'title': title,
            'origin': 'written by an independent sub-agent that was given only the text of the property and its own scratch worktree of /repo (nothing from /verif)' + ('; second, harder round: the agent was additionally told which ideas the first round had used and asked for subtler changes (long inputs, stride/alignment windows, multi-call interactions, out-of-bounds reads)' if r2 else '') + ('; third round: the agent was told the ideas of both earlier rounds and, in general terms, what a thorough tester already does (short inputs exhaustively, all cuts and near-minimum buffers, planted units around stride boundaries), and asked for what such a tester could still miss' if r3 else '') + ('; fourth round (10 properties): as the third, with the tester described as also planting pairs of special units, uniform runs, adjacent valid / near-valid sequences, block-boundary straddles, table sweeps, below-minimum buffers, every-k runs and multi-megabyte inputs' if r4 else '') + ('; fifth round (8 properties): as the fourth, with the round-4 families added to the description of the tester' if r5 else ''),
            'what_changed': section(md, ['change', 'what was changed', 'what'])[:900],
            'needs_to_manifest': section(md, ['needed', 'manifest', 'needs'])[:1200],
            'confirmed_by_me': {
                'existing_suite_with_change': c.get('suite_with_change', 'pass'),
                'demo_with_change': c.get('demo_with_change', 'fails'),
                'demo_without_change': c.get('demo_without_change', 'passes'),
                'how': 'tools/mutation_eval.py: in the scratch worktree /tmp/mut/%s - git apply patch; cargo test --workspace --no-fail-fast --offline; cp demo tests/; cargo test --offline --test demoN; git checkout -- .; cargo test --offline --test demoN' % prop,
            },
            'checks_run': {
                'how': 'tools/mutation_eval.py: patch applied in the evaluation worktree /tmp/mut/eval, harness copy built against it, `encverif run <property> quick` (VERIF_SEED=20260925) in every configuration of that property',
                'results': checks,
            },
            'caught_by_quick_tier_of': sorted(p for p, r in checks.items() if r['detected']),
        }
        mp = os.path.join(dst, 'meta.json')
        if os.path.exists(mp):
            try:
                old = json.load(open(mp))
                if old.get('confirmed_via_repo_flow'):
                    meta['confirmed_via_repo_flow'] = old['confirmed_via_repo_flow']
                # hand-written annotations survive a re-run
                for k in ('rebased', 'retargeted', 'written_against', 'not_caught'):
                    if k in old:
                        meta[k] = old[k]
                if 'retargeted' in old:
                    meta['breaks_property'] = old['breaks_property']
            except Exception:
                pass
        json.dump(meta, open(mp, 'w'), indent=1)
        kept += 1
        print('kept %s: caught by %s' % (meta['id'], meta['caught_by_quick_tier_of']))
    print('kept', kept)


if __name__ == '__main__':
    main()
