#!/usr/bin/env python3
# Round-6 helper: `EV_MODE=confirm|flow|both tools/flow_eval.py Cnn N [other props]` - confirm() of tools/mutation_eval.py in the scratch worktree /tmp/mut/Cnn (candidate files in /tmp/mut/Cnn.out), then the documented flow on /repo itself (git apply; ./check <prop> quick; git checkout -- .). Overwrites evidence/<prop>.json: restore it (git checkout -- evidence) afterwards.
import sys, json, subprocess, os, importlib.machinery, importlib.util
sys.argv0=sys.argv[0]
loader = importlib.machinery.SourceFileLoader('me', '/verif/tools/mutation_eval.py')
spec = importlib.util.spec_from_loader('me', loader); me = importlib.util.module_from_spec(spec)
sys_argv=sys.argv; sys.argv=['x']
try:
    loader.exec_module(me)
except SystemExit:
    pass
sys.argv=sys_argv
pid, n = sys.argv[1], int(sys.argv[2]); props = [pid] + sys.argv[3:]
wt='/tmp/mut/'+pid; out=wt+'.out'
res={'id':'%s-r6m%d'%(pid,n)}
mode=os.environ.get('EV_MODE','both')
if mode in ('both','confirm'):
    res['confirm']=me.confirm(wt,out,n)
if mode in ('both','flow'):
    patch='%s/mutant%d.diff'%(out,n)
    r=subprocess.run(['git','-C','/repo','apply',patch],capture_output=True,text=True)
    if r.returncode!=0:
        res['flow']='apply failed '+r.stderr
    else:
        res['flow']={}
        for p in props:
            q=subprocess.run(['./check',p,'quick'],cwd='/verif',capture_output=True,text=True)
            lines=[l for l in (q.stdout+q.stderr).splitlines() if 'VIOLATION' in l or l.startswith('  what')]
            res['flow'][p]={'exit':q.returncode,'report':lines[:4]}
        subprocess.run(['git','-C','/repo','checkout','--','.'])
json.dump(res,open('/tmp/mut/results/%s-r6m%d.%s.json'%(pid,n,mode),'w'),indent=1)
print(json.dumps(res,indent=1))
