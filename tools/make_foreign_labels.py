#!/usr/bin/env python3
"""data/foreign_labels.txt: charset names and aliases from OTHER registries (CPython's codec
aliases, IANA character-set names incl. the cs* aliases, common ICU / glibc / MySQL / .NET
spellings) - plausible arguments to Encoding::for_label that the Encoding Standard may or may
not list.  The oracle (the Standard's get-an-encoding on the frozen label table) decides each;
this file only supplies inputs, so it needs to be plausible, not authoritative."""
import encodings.aliases, os, re

names = set()
for k, v in encodings.aliases.aliases.items():
    names.add(k)
    names.add(v)
import pkgutil, encodings
for m in pkgutil.iter_modules(encodings.__path__):
    names.add(m.name)

IANA = """
US-ASCII iso-ir-6 ANSI_X3.4-1968 ANSI_X3.4-1986 ISO_646.irv:1991 ISO646-US us IBM367 cp367 csASCII
ISO_8859-1:1987 iso-ir-100 ISO_8859-1 ISO-8859-1 latin1 l1 IBM819 CP819 csISOLatin1
ISO_8859-2:1987 iso-ir-101 latin2 l2 csISOLatin2 ISO_8859-3:1988 iso-ir-109 latin3 l3 csISOLatin3
ISO_8859-4:1988 iso-ir-110 latin4 l4 csISOLatin4 ISO_8859-5:1988 iso-ir-144 cyrillic csISOLatinCyrillic
ISO_8859-6:1987 iso-ir-127 ECMA-114 ASMO-708 arabic csISOLatinArabic ISO_8859-7:1987 iso-ir-126 ELOT_928 ECMA-118 greek greek8 csISOLatinGreek
ISO_8859-8:1988 iso-ir-138 hebrew csISOLatinHebrew ISO_8859-9:1989 iso-ir-148 latin5 l5 csISOLatin5
ISO-8859-10 iso-ir-157 l6 ISO_8859-10:1992 csISOLatin6 latin6 ISO-8859-11 ISO_8859-11 csTIS620 TIS-620 ISO-8859-12
ISO-8859-13 csISO885913 ISO-8859-14 iso-ir-199 ISO_8859-14:1998 ISO_8859-14 latin8 iso-celtic l8 csISO885914
ISO-8859-15 ISO_8859-15 Latin-9 csISO885915 latin9 l9 ISO-8859-16 iso-ir-226 ISO_8859-16:2001 ISO_8859-16 latin10 l10 csISO885916
ISO_8859-6-E csISO88596E ISO-8859-6-E ISO_8859-6-I csISO88596I ISO-8859-6-I ISO_8859-8-E csISO88598E ISO-8859-8-E ISO_8859-8-I csISO88598I ISO-8859-8-I
Shift_JIS MS_Kanji csShiftJIS Windows-31J csWindows31J sjis x-sjis ms932 cp932 cp943 EUC-JP Extended_UNIX_Code_Packed_Format_for_Japanese csEUCPkdFmtJapanese x-euc-jp eucjp ujis
ISO-2022-JP csISO2022JP ISO-2022-JP-1 ISO-2022-JP-2 csISO2022JP2 ISO-2022-JP-3 ISO-2022-JP-2004 ISO-2022-KR csISO2022KR ISO-2022-CN csISO2022CN ISO-2022-CN-EXT csISO2022CNEXT
EUC-KR csEUCKR KS_C_5601-1987 iso-ir-149 KS_C_5601-1989 KSC_5601 korean csKSC56011987 windows-949 cp949 uhc johab cp1361 ks_c_5601 ksc5601
GB2312 csGB2312 GB_2312-80 iso-ir-58 chinese csISO58GB231280 GBK CP936 MS936 windows-936 csGBK GB18030 csGB18030 x-gbk gb18030-2022 gb18030-2005 HZ-GB-2312 csHZGB2312 hz EUC-CN euccn x-euc-cn
Big5 csBig5 Big5-HKSCS csBig5HKSCS cn-big5 x-x-big5 big5-eten cp950 ms950 windows-950 EUC-TW csEUCTW x-euc-tw
KOI8-R csKOI8R KOI8-U csKOI8U koi koi8 koi8_r KOI8-RU koi8-t KOI7 csKOI7switched
IBM866 cp866 866 csIBM866 IBM437 cp437 437 csPC8CodePage437 IBM850 cp850 850 csPC850Multilingual IBM852 cp852 852 csPCp852 IBM855 cp855 IBM857 cp857 IBM860 IBM861 IBM862 cp862 IBM863 IBM864 IBM865 IBM869 IBM037 cp037 csIBM037 IBM1047 IBM500 IBM775 cp775 csPC775Baltic IBM00858 cp858
macintosh mac csMacintosh x-mac-roman macroman x-mac-cyrillic x-mac-ukrainian maccyrillic x-mac-greek x-mac-turkish x-mac-ce x-mac-centraleurroman x-mac-icelandic x-mac-croatian x-mac-romanian x-mac-arabic x-mac-hebrew x-mac-japanese
windows-1250 cp1250 x-cp1250 csWindows1250 windows-1251 cp1251 x-cp1251 csWindows1251 windows-1252 cp1252 x-cp1252 csWindows1252 windows-1253 cp1253 x-cp1253 csWindows1253 windows-1254 cp1254 x-cp1254 csWindows1254
windows-1255 cp1255 x-cp1255 csWindows1255 windows-1256 cp1256 x-cp1256 csWindows1256 windows-1257 cp1257 x-cp1257 csWindows1257 windows-1258 cp1258 x-cp1258 csWindows1258 windows-874 cp874 dos-874 csWindows874 x-windows-874 windows-1259 windows-1249 windows-125 windows-12520
UTF-8 utf8 unicode-1-1-utf-8 unicode11utf8 unicode20utf8 x-unicode20utf8 csUTF8 utf-8-sig utf8mb4 utf8mb3 utf-8-bom utf_8 u8 utf cp65001 65001 CESU-8 csCESU8 csCESU-8 WTF-8 utf-8-mac utf8-mac UTF-7 csUTF7 UTF-7-IMAP csUTF7IMAP unicode-1-1-utf-7 utf7
UTF-16 csUTF16 UTF-16BE csUTF16BE UTF-16LE csUTF16LE utf16 utf16le utf16be ucs-2 ucs2 ISO-10646-UCS-2 csUnicode unicode unicodeFEFF unicodeFFFE UCS-2LE UCS-2BE ucs-2-internal utf-16-le utf-16-be utf_16 utf_16_le utf_16_be x-utf-16le x-utf-16be UTF-16LE-BOM
UTF-32 csUTF32 UTF-32BE csUTF32BE UTF-32LE csUTF32LE ISO-10646-UCS-4 csUCS4 ucs-4 ucs4 utf32 UCS-4LE UCS-4BE ISO-10646-UCS-Basic csUnicodeASCII ISO-10646-Unicode-Latin1 csUnicodeLatin1 ISO-10646-J-1 SCSU csSCSU BOCU-1 csBOCU1 csBOCU-1 UTF-1 csISO10646UTF1 ISO-10646-UTF-1 UTF-EBCDIC GSM03.38
x-user-defined user-defined x-user-defined-2 replacement x-replacement csiso2022kr hz-gb-2312 iso-2022-cn iso-2022-cn-ext binary x-binary ascii-8bit 8bit 7bit identity none null default locale ansi oem system unicode-escape raw-unicode-escape punycode idna rot13 base64 hex quopri uu zlib bz2 mbcs
TIS-620 tis620 tis-620-2533 ISO-IR-166 VISCII csVISCII VIQR TCVN TCVN5712-1 TSCII csTSCII hp-roman8 roman8 r8 csHPRoman8 NeXTSTEP ARMSCII-8 GEORGIAN-PS GEORGIAN-ACADEMY PT154 csPTCP154 PTCP154 KZ-1048 csKZ1048 RK1048 STRK1048-2002 MuleLao-1 CP1133 ATARIST RISCOS-LATIN1 AMIGA-1251 csAmiga1251
JIS_X0201 X0201 csHalfWidthKatakana JIS_X0208 JIS_X0208-1983 iso-ir-87 x0208 csISO87JISX0208 JIS_X0212-1990 x0212 iso-ir-159 csISO159JISX02121990 JIS_C6226-1978 iso-ir-42 JIS_C6220-1969-ro iso-ir-14 jp ISO646-JP csISO14JISC6220ro jis EUC-JISX0213 Shift_JISX0213 sjis-open sjis-win eucjp-win eucjp-ms eucjp-open cp51932 cp50220 cp50221 cp50222 iso2022jp
latin-1 latin_1 latin-2 latin0 latin7 l7 iso8859 iso-8859 iso_8859 iso8859-0 iso-8859-0 iso-8859-17 iso-8859-20 iso-8859-1-windows-3.0-latin-1 csWindows30Latin1 iso-8859-1-windows-3.1-latin-1 iso88591 iso885915 iso885916 iso8859-16 iso885916 iso-8859-8i iso-8859-8e iso-8859-6i iso-8859-6e 8859 8859-1 8859_1 88591
"""
for w in IANA.split():
    names.add(w)

out = set()
for n in names:
    n = n.strip()
    if not n:
        continue
    for v in (n, n.lower(), n.replace('_', '-'), n.replace('-', '_'), n.replace('_', '').replace('-', ''), n.replace('_', ' ').strip()):
        if v and len(v) <= 64:
            out.add(v)
dst = os.path.join(os.path.dirname(os.path.abspath(__file__)), '..', 'data', 'foreign_labels.txt')
with open(dst, 'w') as f:
    f.write("# generated by tools/make_foreign_labels.py - charset names from other registries (inputs only; the oracle decides)\n")
    for v in sorted(out):
        f.write(v + '\n')
print(len(out), 'names')
