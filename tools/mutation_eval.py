#!/usr/bin/env python3
"""Evaluate one candidate breaking change against the checks WITHOUT touching /repo.

  tools/mutation_eval.py <dir with mutantN.diff/demoN.rs> <N> <property> [more properties...]

1. confirms the candidate in its own scratch worktree <dir minus .out>: the pinned test suite
   passes with the change, the demonstration fails with it and passes without it;
2. applies the change in an evaluation worktree (/tmp/mut/eval), builds a copy of the harness
   against that worktree (separate target dirs under /root/scratch/muteval) and runs the quick
   tier of the given properties there;
3. prints one JSON line with everything observed.

The final confirmation of kept changes is done with the documented flow
(git -C /repo apply; ./check ...; git -C /repo checkout -- .) by tools/seeded_confirm.sh.
"""
import json, os, subprocess, sys, time, shutil, importlib.machinery, importlib.util

ROOT = '/verif'
EVAL_WT = '/tmp/mut/eval'
EVAL_ROOT = '/root/scratch/muteval'


def sh(cmd, cwd=None, env=None, timeout=3600):
    p = subprocess.run(cmd, cwd=cwd, env=env, shell=isinstance(cmd, str), stdout=subprocess.PIPE, stderr=subprocess.STDOUT, text=True, timeout=timeout)
    return p.returncode, p.stdout


def load_check():
    loader = importlib.machinery.SourceFileLoader('verif_check', os.path.join(ROOT, 'check'))
    spec = importlib.util.spec_from_loader('verif_check', loader)
    m = importlib.util.module_from_spec(spec)
    loader.exec_module(m)
    return m


def confirm(wt, outdir, n):
    res = {}
    patch = os.path.join(outdir, 'mutant%d.diff' % n)
    demo = os.path.join(outdir, 'demo%d.rs' % n)
    sh('git checkout -- . && rm -f tests/demo*.rs', cwd=wt)
    rc, out = sh(['git', 'apply', patch], cwd=wt)
    if rc != 0:
        res['apply'] = 'FAILED: ' + out[-300:]
        return res
    rc, out = sh('cargo test --workspace --no-fail-fast --offline 2>&1 | grep -E "^test result|FAILED|error(\\[|:)"', cwd=wt)
    res['suite_with_change'] = 'pass' if ('FAILED' not in out and 'error' not in out and out.count('test result: ok') >= 3) else 'FAIL: ' + out[-400:]
    shutil.copy(demo, os.path.join(wt, 'tests', 'demo%d.rs' % n))
    rc, out = sh('cargo test --offline --test demo%d 2>&1 | tail -5' % n, cwd=wt)
    res['demo_with_change'] = 'fails' if rc != 0 or 'FAILED' in out or 'failed' in out else 'PASSES(unexpected)'
    sh('git checkout -- .', cwd=wt)
    rc, out = sh('cargo test --offline --test demo%d 2>&1 | tail -5' % n, cwd=wt)
    res['demo_without_change'] = 'passes' if 'test result: ok' in out else 'FAILS(unexpected): ' + out[-300:]
    sh('rm -f tests/demo*.rs; git checkout -- .', cwd=wt)
    return res


def prepare_eval():
    if not os.path.isdir(EVAL_WT):
        sh(['git', '-C', '/repo', 'worktree', 'add', '-q', '--detach', EVAL_WT, 'HEAD'])
    os.makedirs(EVAL_ROOT, exist_ok=True)
    sh(['rsync', '-a', '--delete', '--exclude', 'target', ROOT + '/harness/', EVAL_ROOT + '/harness/'])
    sh(['rsync', '-a', '--delete', ROOT + '/data/', EVAL_ROOT + '/data/'])
    shutil.copy(ROOT + '/KNOWN_FINDINGS.json', EVAL_ROOT + '/KNOWN_FINDINGS.json')
    ct = open(EVAL_ROOT + '/harness/Cargo.toml').read().replace('path = "/repo"', 'path = "%s"' % EVAL_WT)
    open(EVAL_ROOT + '/harness/Cargo.toml', 'w').write(ct)


def build_eval(chk, cfg):
    tc, feats, prof = chk.CFGS[cfg][:3]
    cmd = ['cargo'] + (['+nightly'] if tc == 'nightly' else []) + ['build', '--offline', '--profile', prof, '--target-dir', EVAL_ROOT + '/target/' + cfg]
    if feats:
        cmd += ['--features', feats]
    e = dict(os.environ, CARGO_NET_OFFLINE='true', ENCVERIF_CFG=cfg)
    if len(chk.CFGS[cfg]) > 3:
        e['RUSTFLAGS'] = chk.CFGS[cfg][3]
    rc, out = sh(cmd, cwd=EVAL_ROOT + '/harness', env=e)
    return rc == 0, out[-800:]


def run_prop(chk, prop, seed):
    cfgs = [c for c in chk.PLAN[prop]['quick']]
    result = {'detected': False, 'status': 0, 'lines': []}
    if prop == 'C17':
        result['status'] = 'skipped (C17 is evaluated through /repo)'
        return result
    for cfg in cfgs:
        ok, out = build_eval(chk, cfg)
        if not ok:
            result['status'] = 'build failed in %s: %s' % (cfg, out)
            return result
        prof = chk.CFGS[cfg][2]
        b = os.path.join(EVAL_ROOT, 'target', cfg, prof, 'encverif')
        e = dict(os.environ, VERIF_ROOT=EVAL_ROOT, VERIF_SEED=str(seed))
        t0 = time.time()
        try:
            rc, out = sh([b, 'run', prop, 'quick'], cwd=EVAL_ROOT, env=e, timeout=1500)
        except subprocess.TimeoutExpired:
            rc, out = 2, 'TIMEOUT'
        lines = [l for l in out.split('\n') if l.startswith('VIOLATION') or l.startswith('  what') or l.startswith('[')]
        result['lines'] += ['(%s %.0fs) %s' % (cfg, time.time() - t0, l[:600]) for l in lines]
        if rc == 1:
            result['detected'] = True
            result['status'] = 1
            break
        if rc < 0:
            result.setdefault('crashed', []).append('%s: signal %d: %s' % (cfg, -rc, out[-300:]))
            continue
        if rc != 0:
            result['status'] = rc
    if not result['detected'] and result.get('crashed'):
        if prop == 'C06':
            result['detected'] = True
            result['status'] = '1 (process crash attributed to C06)'
        else:
            result['status'] = '2 (process crash, inconclusive for this property)'
    return result


def main():
    # one evaluation at a time (the evaluation worktree and harness copy are shared)
    import fcntl
    lock = open('/tmp/mut/eval.lock', 'w')
    fcntl.flock(lock, fcntl.LOCK_EX)
    outdir, n = sys.argv[1], int(sys.argv[2])
    props = sys.argv[3:]
    wt = os.path.join(os.path.dirname(outdir.rstrip('/')), os.path.basename(outdir.rstrip('/'))[:3])
    seed = int(os.environ.get('VERIF_SEED', '20260925'))
    chk = load_check()
    rec = {'mutant': '%s/mutant%d.diff' % (outdir, n), 'properties': props}
    if os.environ.get('SKIP_CONFIRM') != '1':
        rec['confirm'] = confirm(wt, outdir, n)
    prepare_eval()
    sh('git checkout -- .', cwd=EVAL_WT)
    rc, out = sh(['git', 'apply', os.path.join(outdir, 'mutant%d.diff' % n)], cwd=EVAL_WT)
    if rc != 0:
        rec['eval_apply'] = 'FAILED ' + out[-300:]
        print(json.dumps(rec))
        return
    rec['checks'] = {}
    try:
        for p in props:
            rec['checks'][p] = run_prop(chk, p, seed)
    finally:
        sh('git checkout -- .', cwd=EVAL_WT)
    print(json.dumps(rec))


if __name__ == '__main__':
    main()
