#!/usr/bin/env python3
"""Regenerate /verif/MANIFEST.json from the table below (keeps the manifest schema-valid)."""
import json, os, subprocess

ROOT = os.path.join(os.path.dirname(os.path.abspath(__file__)), '..')

# id -> (technique, level text, level note, design ref)
CHECKS = {
    'C01': ('differential testing against a reference model of the Standard\'s decoders: exhaustive small-scope enumeration + seeded grammar-based random streams (proptest), shrinking',
            'Exploration with an explicit oracle: every byte string of length <= 2 for all 40 encodings, the complete gb18030 four-byte space, every 3-byte UTF-8 string, large structured families for EUC-JP / ISO-2022-JP / UTF-16 and seeded random grammar streams are decoded through four routes and compared with an independent transcription of the Standard run on frozen WHATWG index data. Exhaustive inside those scopes, sampled beyond; no proof of absence.',
            'Trusts the frozen golden data in /verif/data (provenance in data/PROVENANCE.md) and my reading of the Standard; only absolute (start,len) of malformed sequences is compared, not the chunking-dependent raw `after`.',
            'DESIGN.md sec. 6 C01, sec. 3'),
}

ALL = ['C%02d' % i for i in range(1, 21)]


def main():
    hook_commits = subprocess.run(['git', '-C', '/repo', 'log', '--format=%H %s'], stdout=subprocess.PIPE, text=True).stdout.strip().split('\n')
    hooks = [l.split()[0] for l in hook_commits if 'verif hook' in l]
    m = {
        'version': 1,
        'setup_cmd': './check build dbg rel lessslow fast simd',
        'hooks': {
            'guard': 'cargo feature hsivonen_encoding_rs_verif',
            'enable': 'the harness crate depends on encoding_rs = { path = "/repo", features = ["hsivonen_encoding_rs_verif"] }; every ./check invocation rebuilds incrementally from /repo\'s working tree',
            'baseline_off_cmd': 'cd /repo && cargo test --workspace --no-fail-fast --offline',
            'source_commits': hooks,
            'add_only': True,
        },
        'engines': [
            {'name': 'encverif', 'path': 'harness/', 'serves_properties': sorted(CHECKS), 'kind_free_text': 'Rust harness linked against /repo in several build configurations: exhaustive small-scope enumerators, seeded proptest generators with shrinking, reference models, history drivers with monitors'},
        ],
        'checks': [],
        'not_applicable': [],
        'notes': 'Exit 0 = held on everything explored; 1 = VIOLATION line with a replay file; 2 = infrastructure problem / budget exhausted (inconclusive). VERIF_SEED selects the PRNG stream; every run is a pure function of the tree and the seed.',
    }
    for pid in ALL:
        if pid in CHECKS:
            tech, text, note, ref = CHECKS[pid]
            m['checks'].append({
                'property_id': pid,
                'quick_cmd': './check %s quick' % pid,
                'thorough_cmd': './check %s thorough' % pid,
                'evidence_file': 'evidence/%s.json' % pid,
                'replay_cmd_template': './check replay {path}',
                'engine': 'encverif',
                'level_claimed': {'category': 'exploration', 'text': text, 'design_ref': ref},
                'level_note': note,
                'technique': tech,
            })
        else:
            m['not_applicable'].append({'property_id': pid, 'reason': 'check not built yet (work in progress; the design in DESIGN.md sec. 6 covers it with property-based testing)'})
    json.dump(m, open(os.path.join(ROOT, 'MANIFEST.json'), 'w'), indent=1)
    try:
        import jsonschema
        jsonschema.validate(m, json.load(open('/root/.vp/MANIFEST.schema.json')))
        print('MANIFEST.json valid;', len(m['checks']), 'checks')
    except ImportError:
        print('MANIFEST.json written (jsonschema not available to validate)')


if __name__ == '__main__':
    main()
