#!/usr/bin/env python3
"""Regenerate /verif/MANIFEST.json from the table below (keeps the manifest schema-valid)."""
import json, os, subprocess

ROOT = os.path.join(os.path.dirname(os.path.abspath(__file__)), '..')

# id -> (technique, level text, level note, design ref)
PBT = 'exhaustive small-scope enumeration + seeded proptest generation with shrinking'
CHECKS = {
    'C01': ('differential testing against a reference model of the Standard\'s decoders; ' + PBT,
            'Exploration with an explicit oracle: every byte string of length <= 2 for all 40 encodings, EUC-JP 8F xx yy, lead+trail+class families, the gb18030 four-byte space (BMP table completely in quick, everything in thorough), UTF-8 3/4-byte families, ISO-2022-JP strings over an escape alphabet and all pairs in every state, UTF-16 surrogate arrangements, ISO-2022-JP atom sequences up to 4-5 atoms, two non-ASCII atoms at every stride-relevant distance inside ASCII, uniform runs of one atom and seeded grammar streams (one in 32 long) are decoded through four routes - and, for longer streams, through an output buffer shorter than the input - and compared with an independent transcription of the Standard run on frozen WHATWG index data. Exhaustive inside those scopes, sampled beyond; no proof of absence.',
            'Trusts the frozen golden data in /verif/data (provenance in data/PROVENANCE.md) and my reading of the Standard; only absolute (start,len) of malformed sequences is compared, not the chunking-dependent raw `after`.',
            'DESIGN.md sec. 6 C01, sec. 3'),
    'C02': ('metamorphic / differential testing of decoder call histories (chunked vs single call, UTF-8 vs UTF-16 form); ' + PBT,
            'Exploration: a bounded-exhaustive core (streams built from representative atoms of every decoder x all cut sets incl. empty chunks x last on data/empty call x capacity patterns from the documented minimum up x sinks x replacement modes x BOM modes), stride / uniform-run / block-boundary / BOM-switch families (sec. 5) plus seeded random histories on grammar streams, each compared with the single-call ample-buffer run of the same stream.',
            'Model-free: the single-call result is tied to the Standard by C01. Capacities never below the documented minimum; raw `after` not compared.',
            'DESIGN.md sec. 6 C02, sec. 4'),
    'C03': ('differential testing against a reference model of the Standard\'s encoders; ' + PBT,
            'Exploration with an explicit oracle: every scalar value alone through all 40 encodings from UTF-8 and UTF-16, raw and with replacement (exhaustive), every ordered pair (triples for ISO-2022-JP / thorough) over per-encoder class alphabets incl. lone surrogates, every BMP scalar directly after and before each state-setting context through slice and Vec methods with the end of the stream on the data call or on an empty call, two non-ASCII characters at stride-relevant distances inside ASCII, longer texts also through an output buffer shorter than the output, and seeded random texts, compared with an independent transcription of the Standard\'s encoders on frozen index data; both tiers repeat it in the less-slow-*, fast-* and simd-accel builds; plus the low-bits alias family for encoders that might remember a previous lookup.',
            'Trusts the frozen golden data and my transcription of the pointer rules, GB18030-2022 overrides and the ISO-2022-JP state machine.',
            'DESIGN.md sec. 6 C03, sec. 3'),
    'C04': ('metamorphic / differential testing of encoder call histories (chunked vs single call, UTF-8 vs UTF-16 source); ' + PBT,
            'Exploration: bounded-exhaustive core (all texts up to 2-3 characters over class alphabets + lone surrogates x all cut sets x capacity patterns around every space-check threshold x sources x sinks x modes; alphabets contain a representative of every (UTF-8 length, encoded length) class), stride / uniform-run / block-boundary families plus seeded random histories, compared with the single-call run and with the other source form.',
            'Model-free (C03 ties the single-call result to the Standard). Caller obligations respected by construction: cuts never split a pair, capacities >= 4 / >= 14.',
            'DESIGN.md sec. 6 C04'),
    'C05': ('invariant checking over generated histories and mem calls (std::str::from_utf8 on the entire destination after every call); ' + PBT,
            'Exploration: decoder histories into &mut str / String whose old contents are multi-byte filler at every phase, the mem *_to_str* functions with all destination lengths, one-shot decode methods, reuse of a finished decoder (panic caught), and &mut str / String destinations of 0..=3 bytes below the documented minimum (a panic is accepted there, an invalid str is not - this family found F9); run in the default and the simd-accel build because the SIMD kernels store before validating.',
            'std validation is the oracle; covers this CPU\'s dispatch arms only.',
            'DESIGN.md sec. 6 C05'),
    'C06': ('invariant checking with guard bands over generated histories and mem calls + coverage-guided fuzzing under AddressSanitizer (fuzz/); ' + PBT,
            'Exploration: every streaming method and every mem function with sources/destinations carved out of larger buffers at alignments 0..15 with canary bands, documented-minimum capacities upward, arbitrary prior converter state; read/written/InputEmpty contract, no panic, no reallocation; half of the cases against PROT_NONE guard pages; a separate family with destinations below the documented minimum (panic accepted, out-of-bounds write or written > dst.len() not); String / Vec receivers on allocations page-aligned at both ends; the one-shot methods on all atom / alphabet triples and every length query up to usize::MAX in every reachable state (no panic). Out-of-bounds reads are only visible to the ASan fuzz targets, which run the same drivers with exact-size heap allocations (thorough).',
            'Guard bands see writes within 32 units; ASan campaigns are bounded by run count; UB without an observable effect stays invisible.',
            'DESIGN.md sec. 6 C06'),
    'C07': ('invariant checking over generated histories with query-then-call steps; overflow clause by monotonicity / growth extrapolation; ' + PBT,
            'Exploration: histories whose steps ask the matching max_* query on the live converter and call with exactly that capacity, in every pending state reachable by atoms / cuts / BOM prefixes / per-call method mixing, BOM followed by worst-case payload of the BOM\'s encoding, encoder alphabets with every (input length, output length) class; plus the queries at ~70 lengths around usize::MAX/{1..8} in every such state.',
            'Destination = exactly the queried value. The if_no_unmappables precondition is decided by the reference encoder model.',
            'DESIGN.md sec. 6 C07'),
    'C08': ('invariant checking (progress, linear call bound) over generated histories in the minimal-capacity regime; ' + PBT,
            'Exploration: the C02/C04 history space restricted to capacities minimum..minimum+3 for decoders and encoders, all cut sets / sinks / modes, plus uniform runs of 15..33 non-ASCII units with capacities below and around a stride; every non-final call must make progress and the loop must end within 4*units+16 calls (hard cap turns a hang into a violation).',
            'Termination is checked as the stated safety bound.',
            'DESIGN.md sec. 6 C08'),
    'C09': ('differential testing: with-replacement methods vs the documented manual procedure run on a twin converter with identical buffers; ' + PBT,
            'Exploration: for every call of a generated with-replacement history the twin is driven through *_without_replacement over the same source slice and buffer size, appending U+FFFD / NCRs itself; (result, read, written), output and the per-call boolean must match exactly; histories that begin below the documented minimum are compared as whole text and OR of the flags.',
            'Relates the two modes only (C01/C03 tie the raw mode to the Standard).',
            'DESIGN.md sec. 6 C09'),
    'C10': ('metamorphic testing of the BOM automaton (sniffing decoder on S == no-BOM decoder of the selected encoding on S minus BOM) + for_bom enumeration; ' + PBT,
            'Exploration: every prefix of length 0..=3 over {EF BB BF FE FF 00 41 80} x tails x all cut sets of the first bytes x 3 BOM modes x sinks x capacities for all 40 encodings (exhaustive), atom-based core with BOM look-alike prefixes, seeded random histories, capacity patterns that begin below the minimum; the one-shot decode methods on every such prefix at the start and after an ASCII run; Encoding::for_bom on all strings up to 3 bytes and on each BOM / look-alike followed by every pair of bytes.',
            'BOM recognition is specified by the three literal prefixes of the property text.',
            'DESIGN.md sec. 6 C10'),
    'C11': ('differential testing of the one-shot API against the streaming converters + borrow-promise predicate; ' + PBT,
            'Exploration: first special unit at every offset 0..=130 x extra lengths x BOM prefixes for all encodings, ASCII-only inputs, encode with first non-ASCII at every offset and unmappable-heavy tails, k copies of X then Y for every k to 300, k specials then a varied ASCII run, inputs of 64 KiB to 16 MiB, seeded random inputs; text/bytes, flags, encoding used, None-iff-malformed, Cow variant and aliasing; UTF-8 also with the scalar validator forced.',
            'No borrow assertion for empty input.',
            'DESIGN.md sec. 6 C11'),
    'C12': ('round-trip testing with per-prefix invariants over generated encoder histories and a scalar sweep; ' + PBT,
            'Exploration: after every call the accumulated bytes must decode without error, has_pending_state() must equal the state implied by the emitted bytes, the final ISO-2022-JP stream must end in ASCII, and decoding the whole output must give the input with NCRs and the Standard\'s fixed folds; every scalar of planes 0-2 (all planes in thorough) alone and embedded, bounded-exhaustive history core, seeded random histories; the one-shot Encoding::encode held to the same round trip for k long-reference characters + a mapped character + an ASCII tail, every k to 320 (1300).',
            'The folding set is typed in from the Standard; the decoder used is the crate\'s own (C01).',
            'DESIGN.md sec. 6 C12'),
    'C13': ('differential testing against a model of the Standard\'s get-an-encoding on a frozen label table; exhaustive edit/case/padding families, exhaustive enumeration of all short byte strings (every 1-3 byte string, every 4-byte string over 09..7E, every 5-byte printable-ASCII string) + seeded random strings',
            'Exploration: 228 labels x all single-byte substitutions/insertions/deletions, all case masks up to 12 bytes, all paddings up to 2x2 bytes from a 9-byte set, inner whitespace, over-long strings, names, every string of up to 4-5 label characters, every string of up to 3 bytes over all 256 values, every 4-byte string over 09..=7E (thorough: all 256 values) and every 5-byte string of printable ASCII (7.3x10^9; thorough 20..=7E), every 2-3 token sequence over the labels\' vocabulary, ~1900 charset names of other registries, the label between every pair of ~50 delimiters, runs around powers of two, two simultaneous substitutions, random strings; arguments of 8 bytes and more also as a sub-slice 1..=15 bytes after a 16-byte boundary.',
            'Trusts data/labels.txt.',
            'DESIGN.md sec. 6 C13'),
    'C14': ('differential testing against std::str::from_utf8 / naive scans over planted-defect families at every length, position and alignment, with the scalar path forced through the hook; ' + PBT,
            'Exploration: every validator x lengths 0..=160 (320) x alignments x fillers x every invalid class at every position with a second defect at stride-relevant distances, ASCII fillers of letters / spaces / punctuation, buffers of 2^k +- 2 units to 65536, the UTF-8 table sweep (every lead x second pair, every three-byte string), valid character x near-valid sequence pairs, runs of three same-length sequences, all pairs of 48 boundary code units, every triple of 14 units directly after a surrogate pair + seeded random; default and simd-accel builds, builds with AVX2 / SSE4.2 enabled at compile time (the other copies of the validator dispatch), SIMD-validator path and forced scalar path.',
            'All x86-64 dispatch arms (run-time detection, compile-time AVX2, compile-time SSE4.2, scalar via hook); other architectures cannot be executed here.',
            'DESIGN.md sec. 6 C14'),
    'C15': ('differential testing of every mem conversion against std-based reference conversions, incl. encodeInto semantics for *_partial; ' + PBT,
            'Exploration: every mem conversion x source lengths x planted unit classes at every position x destination lengths around the planted position x alignments x fills, a second planted unit at stride-relevant distances, space / punctuation fillers, buffers of 2^k +- 2 units, the UTF-8 table sweep, adjacent-pair families, pairs of near-valid sequences + seeded random; default and simd-accel builds. F5 (bytes beyond written modified in simd-accel builds) is a recorded open finding.',
            'std lossy conversions implement the maximal-subpart policy.',
            'DESIGN.md sec. 6 C15'),
    'C16': ('differential testing against iterator-based definitions written from the documentation; exhaustive over all scalars / code units, planted boundary scalars; ' + PBT,
            'Exploration: is_char_bidi on every scalar, is_utf16_code_unit_bidi on every unit, every BMP scalar alone through all buffer functions, ~130 boundary scalars planted at every position of buffers of every length, invalid UTF-8 classes, the same pair / table / long-buffer / filler / run-of-three / after-pair families as C14, seeded random; default and simd-accel builds.',
            'The RTL set is the documented block list.',
            'DESIGN.md sec. 6 C16'),
    'C17': ('differential testing across build configurations: per-block digests of one deterministic corpus, first differing case extracted on mismatch',
            'Exploration: ~73M cases (scalar sweep through every encoder, 2-byte sweep through every decoder with transcripts, seeded decoder/encoder histories, structured histories - uniform runs, two units in a stride, block boundaries -, mem calls and validators on planted sweeps and adjacent pairs, long UTF-8) run in default, default+forced-scalar-UTF-8, less-slow-*, fast-legacy-encode and simd-accel+std builds (thorough: + release profile and simd-accel without std); all digests must be identical.',
            'Only this CPU\'s dispatch arms; logical results only.',
            'DESIGN.md sec. 6 C17'),
    'C18': ('metamorphic testing: identical transcripts and written prefixes under three pairwise-different destination pre-fills; ' + PBT,
            'Exploration: decoder / encoder histories (all sinks incl. String/Vec spare capacity and str filler texts) and mem calls (incl. the pair / table / filler / long-buffer families and the uniform-run and block-boundary histories) executed under fills 0x00/0xFF/0xA5; default and simd-accel builds.',
            'Bytes beyond written are documented garbage and not compared.',
            'DESIGN.md sec. 6 C18'),
    'C19': ('twin-decoder differential testing of latin1_byte_compatible_up_to in generated decoder states; ' + PBT,
            'Exploration: every atom / atom-pair / BOM look-alike prefix x 3 BOM modes x query buffers with each special byte at every position, seeded random (prefix, buffer) pairs; Some(n) semantics via a twin, None justified by pending BOM / never-compatible encoding / observable non-neutrality - for ISO-2022-JP a None is rejected whenever the reference model\'s state machine is back in its initial state -, query does not disturb the decoder.',
            'The distinguishing set separates non-neutral states; single-byte exactness uses the frozen indexes.',
            'DESIGN.md sec. 6 C19'),
    'C20': ('exhaustive enumeration of a finite space: predicates recomputed from decode/encode behaviour; differential testing against the reference models on longer inputs through short output buffers',
            'Complete enumeration: 40 encodings x all byte strings of length <= 2 x all scalar values; equality / hashing on all pairs; names. Plus, for the ASCII-compatible / single-byte claims, ASCII run + each atom / alphabet character + ASCII tail pushed through output buffers shorter than the input and compared with the Standard (sampled, not exhaustive).',
            'is_single_byte is judged on strings of length <= 2.',
            'DESIGN.md sec. 6 C20'),
}

ALL = ['C%02d' % i for i in range(1, 21)]


def main():
    hook_commits = subprocess.run(['git', '-C', '/repo', 'log', '--format=%H %s'], stdout=subprocess.PIPE, text=True).stdout.strip().split('\n')
    hooks = [l.split()[0] for l in hook_commits if 'verif hook' in l]
    m = {
        'version': 1,
        'setup_cmd': './check build dbg simd lessslow fast rel avx2 sse42',
        'hooks': {
            'guard': 'cargo feature hsivonen_encoding_rs_verif',
            'enable': 'the harness crate depends on encoding_rs = { path = "/repo", features = ["hsivonen_encoding_rs_verif"] }; every ./check invocation rebuilds incrementally from /repo\'s working tree',
            'baseline_off_cmd': 'cd /repo && cargo test --workspace --no-fail-fast --offline',
            'source_commits': hooks,
            'add_only': True,
        },
        'engines': [
            {'name': 'encverif', 'path': 'harness/', 'serves_properties': sorted(CHECKS), 'kind_free_text': 'Rust harness linked against /repo in several build configurations: exhaustive small-scope enumerators, seeded proptest generators with shrinking, reference models, history drivers with monitors'},
        ],
        'checks': [],
        'not_applicable': [],
        'notes': 'Exit 0 = held on everything explored; 1 = VIOLATION line with a replay file; 2 = infrastructure problem / budget exhausted (inconclusive). VERIF_SEED selects the PRNG stream; every run is a pure function of the tree and the seed.',
    }
    for pid in ALL:
        if pid in CHECKS:
            tech, text, note, ref = CHECKS[pid]
            m['checks'].append({
                'property_id': pid,
                'quick_cmd': './check %s quick' % pid,
                'thorough_cmd': './check %s thorough' % pid,
                'evidence_file': 'evidence/%s.json' % pid,
                'replay_cmd_template': './check replay {path}',
                'engine': 'encverif',
                'level_claimed': {'category': 'exploration', 'text': text, 'design_ref': ref},
                'level_note': note,
                'technique': tech,
            })
        else:
            m['not_applicable'].append({'property_id': pid, 'reason': 'check not built yet (work in progress; the design in DESIGN.md sec. 6 covers it with property-based testing)'})
    json.dump(m, open(os.path.join(ROOT, 'MANIFEST.json'), 'w'), indent=1)
    try:
        import jsonschema
        jsonschema.validate(m, json.load(open('/root/.vp/MANIFEST.schema.json')))
        print('MANIFEST.json valid;', len(m['checks']), 'checks')
    except ImportError:
        print('MANIFEST.json written (jsonschema not available to validate)')


if __name__ == '__main__':
    main()
