//! Decoder history generation: representative atoms per decoder, bounded-exhaustive core
//! (short streams x all cut sets x capacity patterns) and the random history strategy.

use crate::drive_dec::{BomMode, DecHistory, Sink, CAP_AMPLE, CAP_QUERY, CAP_QUERY_EXACT};
use crate::gen::{self, pick};
use crate::golden::{golden, Cell};
use crate::model_dec::{algo_for, Algo};
use encoding_rs::Encoding;
use proptest::prelude::*;

fn first_where(idx: &[Cell], f: impl Fn(usize, &Cell) -> bool) -> Option<usize> {
    idx.iter().enumerate().find(|(p, c)| f(*p, c)).map(|(p, _)| p)
}

/// Representative byte sequences ("atoms") for a decoder: valid characters of each kind, each
/// kind of error, truncated forms, and plain ASCII.  Streams of the bounded-exhaustive core are
/// concatenations of atoms.
pub fn atoms(algo: Algo) -> Vec<Vec<u8>> {
    let g = golden();
    let mut a: Vec<Vec<u8>> = vec![b"a".to_vec()];
    if !matches!(algo, Algo::Utf16(_) | Algo::SingleByte(_) | Algo::XUserDefined | Algo::Replacement | Algo::Iso2022Jp | Algo::Utf8) {
        // an ASCII byte that is not a valid trail byte of any two-byte form (below 0x40, not a digit)
        a.push(b" ".to_vec());
    }
    match algo {
        Algo::Big5 => {
            let bmp = first_where(&g.big5, |p, c| p > 5000 && matches!(c, Cell::One(x) if *x < 0x10000)).unwrap();
            let astral = first_where(&g.big5, |_, c| matches!(c, Cell::One(x) if *x >= 0x10000)).unwrap();
            let two = first_where(&g.big5, |_, c| matches!(c, Cell::Two(..))).unwrap();
            let null_ascii = first_where(&g.big5, |p, c| matches!(c, Cell::Null) && gen::big5_bytes(p)[1] < 0x80).unwrap();
            let null_hi = first_where(&g.big5, |p, c| p > 1000 && matches!(c, Cell::Null) && gen::big5_bytes(p)[1] >= 0x80).unwrap();
            a.push(gen::big5_bytes(bmp).to_vec());
            a.push(gen::big5_bytes(astral).to_vec());
            a.push(gen::big5_bytes(two).to_vec());
            a.push(gen::big5_bytes(null_ascii).to_vec());
            a.push(gen::big5_bytes(null_hi).to_vec());
            a.push(vec![0xA4]); // lone lead
            a.push(vec![0xA4, 0xFF]);
            a.push(vec![0xFF]);
            a.push(vec![0x80]);
        }
        Algo::EucKr => {
            let null_ascii = first_where(&g.euc_kr, |p, c| matches!(c, Cell::Null) && gen::euc_kr_bytes(p)[1] < 0x80).unwrap();
            let null_hi = first_where(&g.euc_kr, |p, c| matches!(c, Cell::Null) && gen::euc_kr_bytes(p)[1] >= 0x80).unwrap();
            a.push(vec![0xB0, 0xA1]);
            a.push(vec![0x81, 0x41]);
            a.push(gen::euc_kr_bytes(null_ascii).to_vec());
            a.push(gen::euc_kr_bytes(null_hi).to_vec());
            a.push(vec![0xB0]);
            a.push(vec![0xB0, 0x20]);
            a.push(vec![0xB0, 0xFF]);
            a.push(vec![0xFF]);
            a.push(vec![0x80]);
        }
        Algo::ShiftJis => {
            a.push(vec![0x82, 0xA0]);
            a.push(vec![0xB1]);
            a.push(vec![0xF0, 0x40]); // EUDC
            a.push(vec![0x85, 0x40]); // unmapped pointer, ASCII trail
            a.push(vec![0x85, 0x80]); // unmapped pointer, high trail
            a.push(vec![0x81, 0xFF]);
            a.push(vec![0x81, 0x20]);
            a.push(vec![0x82]);
            a.push(vec![0x80]);
            a.push(vec![0xA0]);
            a.push(vec![0xFD]);
        }
        Algo::EucJp => {
            a.push(vec![0xA4, 0xA2]);
            a.push(vec![0x8E, 0xB1]);
            a.push(vec![0x8F, 0xB0, 0xA1]);
            a.push(vec![0x8F, 0xA1, 0xA1]); // unmapped jis0212
            a.push(vec![0x8F, 0xB0, 0x41]);
            a.push(vec![0x8F, 0x41]);
            a.push(vec![0x8E, 0x41]);
            a.push(vec![0x8E, 0xE0]);
            a.push(vec![0xA4, 0x41]);
            a.push(vec![0xA9, 0xA1]); // unmapped jis0208 row 9
            a.push(vec![0x8F]);
            a.push(vec![0x8F, 0xB0]);
            a.push(vec![0xA4]);
            a.push(vec![0xFF]);
            a.push(vec![0x80]);
        }
        Algo::Gb18030 => {
            a.push(vec![0xB0, 0xA1]);
            a.push(vec![0x81, 0x30, 0x81, 0x30]);
            a.push(vec![0x90, 0x30, 0x81, 0x30]);
            a.push(vec![0x84, 0x31, 0xA4, 0x39]);
            a.push(vec![0x84, 0x31, 0xA5, 0x30]); // pointer 39420: error, len 4
            a.push(vec![0x81, 0x30, 0x81]);
            a.push(vec![0x81, 0x30]);
            a.push(vec![0x81]);
            a.push(vec![0x81, 0x30, 0x81, 0x41]);
            a.push(vec![0x81, 0x30, 0x41]);
            a.push(vec![0x81, 0x30, 0x81, 0x81]);
            a.push(vec![0x81, 0x7F]);
            a.push(vec![0x81, 0xFF]);
            a.push(vec![0x80]);
            a.push(vec![0xFF]);
            a.push(vec![0xA3, 0xA0]);
            a.push(b"0".to_vec()); // a digit: ASCII, but a four-byte second position after a lead
        }
        Algo::Iso2022Jp => {
            for e in gen::ISO2022JP_ESCAPES {
                a.push(e.to_vec());
            }
            a.push(vec![0x24, 0x22]);
            a.push(vec![0x1B]);
            a.push(vec![0x1B, 0x24]);
            a.push(vec![0x1B, 0x28]);
            a.push(vec![0x5C]);
            a.push(vec![0x0E]);
            a.push(vec![0x80]);
            a.push(vec![0x21]);
            a.push(vec![0x7F]);
        }
        Algo::Utf8 => {
            a.push("\u{E9}".as_bytes().to_vec());
            a.push("\u{4E00}".as_bytes().to_vec());
            a.push("\u{1F600}".as_bytes().to_vec());
            a.push("\u{FEFF}".as_bytes().to_vec());
            a.push(vec![0xC3]);
            a.push(vec![0xE4, 0xB8]);
            a.push(vec![0xF0, 0x9F, 0x98]);
            a.push(vec![0xF0, 0x9F]);
            a.push(vec![0xE0, 0x80]);
            a.push(vec![0xED, 0xA0, 0x80]);
            a.push(vec![0xF4, 0x90]);
            a.push(vec![0x80]);
            a.push(vec![0xFF]);
            a.push(vec![0xC0, 0xAF]);
        }
        Algo::Utf16(be) => {
            let enc = |units: &[u16], extra: Option<u8>| {
                let mut v = Vec::new();
                for u in units {
                    if be {
                        v.push((*u >> 8) as u8);
                        v.push(*u as u8);
                    } else {
                        v.push(*u as u8);
                        v.push((*u >> 8) as u8);
                    }
                }
                if let Some(x) = extra {
                    v.push(x);
                }
                v
            };
            a.clear();
            a.push(enc(&[0x0061], None));
            a.push(enc(&[0x00E9], None));
            a.push(enc(&[0x4E00], None));
            a.push(enc(&[0xD83D, 0xDE00], None));
            a.push(enc(&[0xD800], None));
            a.push(enc(&[0xDC00], None));
            a.push(enc(&[0x0000], None));
            a.push(enc(&[0xFEFF], None));
            a.push(enc(&[0xFFFE], None));
            a.push(vec![0x41]); // odd byte
            a.push(vec![0xD8]);
        }
        Algo::SingleByte(_) | Algo::XUserDefined | Algo::Replacement => {
            a.push(vec![0xE9]);
            a.push(vec![0x80]);
            a.push(vec![0x81]);
            a.push(vec![0xA1]);
            a.push(vec![0xDB]);
            a.push(vec![0xFF]);
            a.push(b"ab".to_vec());
        }
    }
    a
}

/// BOMs and BOM look-alike prefixes used as leading atoms
pub fn bom_atoms() -> Vec<Vec<u8>> {
    gen::BOMISH.iter().map(|b| b.to_vec()).collect()
}

/// Streams of the bounded-exhaustive core: every atom, every ordered pair of atoms, and (when
/// `triples`) every ordered triple, limited to `max_len` bytes.
pub fn core_streams(algo: Algo, max_len: usize, triples: bool) -> Vec<Vec<u8>> {
    let at = atoms(algo);
    let mut out: Vec<Vec<u8>> = vec![Vec::new()];
    for x in &at {
        if x.len() <= max_len {
            out.push(x.clone());
        }
    }
    for x in &at {
        for y in &at {
            if x.len() + y.len() <= max_len {
                let mut v = x.clone();
                v.extend_from_slice(y);
                out.push(v);
            }
        }
    }
    if triples {
        for x in &at {
            for y in &at {
                for z in &at {
                    if x.len() + y.len() + z.len() <= max_len {
                        let mut v = x.clone();
                        v.extend_from_slice(y);
                        v.extend_from_slice(z);
                        out.push(v);
                    }
                }
            }
        }
    }
    out.sort();
    out.dedup();
    out
}

/// All cut sets of a stream of length `n`: every subset of the interior positions, plus
/// variants with empty chunks (a duplicated cut, a cut at 0, a cut at n) for the small subsets.
pub fn cut_sets(n: usize) -> Vec<Vec<usize>> {
    let mut out = Vec::new();
    let interior = n.saturating_sub(1);
    let interior = interior.min(12);
    for mask in 0u32..(1u32 << interior) {
        let cuts: Vec<usize> = (0..interior).filter(|i| mask & (1 << i) != 0).map(|i| i + 1).collect();
        if cuts.len() <= 1 {
            let mut c0 = cuts.clone();
            c0.insert(0, 0);
            out.push(c0);
            let mut cn = cuts.clone();
            cn.push(n);
            out.push(cn);
            if let Some(&c) = cuts.first() {
                out.push(vec![c, c]);
            }
        }
        out.push(cuts);
    }
    out
}

/// is position `c` strictly inside one of the atoms' byte sequences?  Approximated by the
/// model: a cut is "inside a sequence" if the reference decoder has pending state there, which
/// we detect by decoding the prefix and seeing an error or missing output at end of prefix.
pub fn cut_inside_sequence(algo: Algo, stream: &[u8], c: usize) -> bool {
    if c == 0 || c >= stream.len() {
        return false;
    }
    // decode prefix as complete stream: if the prefix ends in a truncated sequence the model
    // reports an error that touches the end of the prefix
    let ev = crate::model_dec::decode(algo, &stream[..c]);
    match ev.last() {
        Some(crate::model_dec::Ev::Err(s, l)) => s + l == c && {
            // and the full stream does not have the same error at the same place
            let full = crate::model_dec::decode(algo, stream);
            !full.iter().any(|e| *e == crate::model_dec::Ev::Err(*s, *l))
        },
        _ => false,
    }
}

pub fn caps_list(sink: Sink) -> &'static [usize] {
    if sink.is_utf16() {
        &gen::CAPS_UTF16
    } else {
        &gen::CAPS_UTF8
    }
}

/// capacity patterns for the enumerated core
pub fn cap_patterns(sink: Sink, small_only: bool) -> Vec<Vec<usize>> {
    let m = sink.min_cap();
    let mut v = vec![vec![m], vec![m + 1], vec![m + 2], vec![m + 3]];
    if !small_only {
        v.push(vec![m + 4]);
        v.push(vec![8]);
        v.push(vec![16]);
        v.push(vec![m, 64]);
        v.push(vec![64, m]);
        v.push(vec![m + 1, m, 9]);
        v.push(vec![]); // ample
    }
    v
}

#[derive(Clone, Copy, Debug)]
pub struct Profile {
    pub max_tokens: usize,
    /// probability weight (0..=255) that capacities are drawn from the minimal regime
    pub small_caps_weight: u8,
    /// allow CAP_QUERY steps
    pub queries: bool,
    /// query steps offer exactly the answer (C07) instead of max(answer, documented minimum)
    pub exact_queries: bool,
    pub modes: &'static [BomMode],
    pub sinks: &'static [Sink],
    /// probability weight (0..=255) that the stream starts with a BOM or look-alike
    pub bom_prefix_weight: u8,
}

pub const ALL_MODES: [BomMode; 3] = [BomMode::None, BomMode::Sniff, BomMode::Remove];
pub const ALL_SINKS: [Sink; 4] = [Sink::Utf8, Sink::Utf16, Sink::Str, Sink::String];

type Raw = (Vec<gen::RawTok>, Vec<u32>, Vec<u32>, (u8, u8, u8, u8), (u32, u8, bool, bool));

/// Random decoder histories for one encoding.
pub fn history(enc: &'static Encoding, prof: Profile) -> impl Strategy<Value = DecHistory> {
    let algo = algo_for(enc);
    let raw = (
        proptest::collection::vec(gen::raw_tok(), 0..=prof.max_tokens),
        proptest::collection::vec(any::<u32>(), 0..=6),
        proptest::collection::vec(any::<u32>(), 0..=5),
        (any::<u8>(), any::<u8>(), any::<u8>(), any::<u8>()),
        (any::<u32>(), any::<u8>(), any::<bool>(), any::<bool>()),
    );
    raw.prop_map(move |r: Raw| {
        let (toks, cutf, capx, (m, s, fill, align), (bomx, w, repl, last_on_empty)) = r;
        let mut stream = Vec::new();
        if w < prof.bom_prefix_weight {
            stream.extend_from_slice(gen::BOMISH[pick(bomx, gen::BOMISH.len())]);
        }
        stream.extend_from_slice(&gen::toks_to_bytes(algo, &gen::repeat_toks(&toks, ((bomx >> 12) as u16) ^ ((w as u16) << 3))));
        let mode = prof.modes[m as usize % prof.modes.len()];
        let sink = prof.sinks[s as usize % prof.sinks.len()];
        let n = stream.len();
        // bias half of the cuts towards the first few bytes and towards non-ASCII positions
        let mut cuts: Vec<usize> = Vec::new();
        let hot: Vec<usize> = (1..n).filter(|i| stream[*i] >= 0x80 || stream[*i - 1] >= 0x80 || stream[*i - 1] == 0x1B || *i <= 3).collect();
        for (i, f) in cutf.iter().enumerate() {
            if i % 2 == 0 && !hot.is_empty() {
                cuts.push(hot[pick(*f, hot.len())]);
            } else {
                cuts.push(pick(*f, n + 1));
            }
        }
        cuts.sort();
        let list = caps_list(sink);
        let mincap = sink.min_cap();
        let small = (w.wrapping_mul(31).wrapping_add(7)) < prof.small_caps_weight;
        let caps: Vec<usize> = capx
            .iter()
            .map(|x| {
                if prof.queries && x % 5 == 0 {
                    if prof.exact_queries {
                        CAP_QUERY_EXACT
                    } else {
                        CAP_QUERY
                    }
                } else if small {
                    mincap + pick(*x, 4)
                } else if x % 11 == 0 {
                    CAP_AMPLE
                } else {
                    list[pick(*x, list.len())]
                }
            })
            .collect();
        // every fifth history mixes the output methods call by call
        let sinks_per_call = if prof.sinks.len() > 1 && bomx % 5 == 0 { (0..3).map(|i| prof.sinks[((bomx >> (8 + 4 * i)) as usize) % prof.sinks.len()]).collect() } else { Vec::new() };
        // every seventh history mixes the with- and without-replacement methods
        let repls_per_call = if bomx % 7 == 0 { vec![bomx & 256 != 0, bomx & 512 == 0, bomx & 1024 != 0] } else { Vec::new() };
        DecHistory { enc, mode, sink, repl, stream, cuts, last_on_empty, caps, fill, align: (align & 15) as usize, sinks_per_call, repls_per_call }
    })
}
