//! Reference encoders transcribed from the WHATWG Encoding Standard, on frozen index data.

use crate::golden::{golden, GB18030_2022_OVERRIDES, ISO2022JP_KATAKANA};
use encoding_rs::Encoding;

#[derive(Clone, Copy, PartialEq, Eq, Debug)]
pub enum EncAlgo {
    Utf8,
    SingleByte(usize),
    XUserDefined,
    Big5,
    EucKr,
    ShiftJis,
    EucJp,
    Gbk,
    Gb18030,
    Iso2022Jp,
}

/// The Standard's "get an output encoding" followed by the encoder choice.
pub fn enc_algo_for(enc: &'static Encoding) -> EncAlgo {
    match enc.name() {
        "UTF-8" | "UTF-16BE" | "UTF-16LE" | "replacement" => EncAlgo::Utf8,
        "Big5" => EncAlgo::Big5,
        "EUC-KR" => EncAlgo::EucKr,
        "Shift_JIS" => EncAlgo::ShiftJis,
        "EUC-JP" => EncAlgo::EucJp,
        "GBK" => EncAlgo::Gbk,
        "gb18030" => EncAlgo::Gb18030,
        "ISO-2022-JP" => EncAlgo::Iso2022Jp,
        "x-user-defined" => EncAlgo::XUserDefined,
        n => {
            let g = golden();
            EncAlgo::SingleByte(g.single_byte.iter().position(|(name, _)| name == n).unwrap_or_else(|| panic!("no golden single-byte index for {}", n)))
        }
    }
}

/// name of the output encoding per the Standard
pub fn output_encoding_name(enc: &'static Encoding) -> &'static str {
    match enc.name() {
        "UTF-16BE" | "UTF-16LE" | "replacement" => "UTF-8",
        n => n,
    }
}

#[derive(Clone, Copy, PartialEq, Eq, Debug)]
pub enum J {
    Ascii,
    Roman,
    Jis0208,
}

#[derive(Clone, Debug, Default, PartialEq, Eq)]
pub struct EncOut {
    pub bytes: Vec<u8>,
    /// (index of the character in the input, reported character)
    pub unmappables: Vec<(usize, u32)>,
}

/// Result of encoding one code point without state: Some(bytes) or None (unmappable).
fn stateless(algo: EncAlgo, cp: u32, out: &mut Vec<u8>) -> bool {
    let g = golden();
    if cp < 0x80 {
        out.push(cp as u8);
        return true;
    }
    match algo {
        EncAlgo::Utf8 => {
            let mut b = [0u8; 4];
            out.extend_from_slice(char::from_u32(cp).unwrap().encode_utf8(&mut b).as_bytes());
            true
        }
        EncAlgo::SingleByte(ix) => {
            if cp > 0xFFFF {
                return false;
            }
            match g.single_byte[ix].1.iter().position(|c| *c == Some(cp as u16)) {
                Some(p) => {
                    out.push(0x80 + p as u8);
                    true
                }
                None => false,
            }
        }
        EncAlgo::XUserDefined => {
            if (0xF780..=0xF7FF).contains(&cp) {
                out.push((cp - 0xF780 + 0x80) as u8);
                true
            } else {
                false
            }
        }
        EncAlgo::Big5 => match g.big5_enc.get(&cp) {
            Some(&p) => {
                let lead = p / 157 + 0x81;
                let trail = p % 157;
                let offset = if trail < 0x3F { 0x40 } else { 0x62 };
                out.push(lead as u8);
                out.push((trail + offset) as u8);
                true
            }
            None => false,
        },
        EncAlgo::EucKr => match g.euc_kr_enc.get(&cp) {
            Some(&p) => {
                out.push((p / 190 + 0x81) as u8);
                out.push((p % 190 + 0x41) as u8);
                true
            }
            None => false,
        },
        EncAlgo::ShiftJis => {
            if cp == 0x80 {
                out.push(0x80);
                return true;
            }
            if cp == 0xA5 {
                out.push(0x5C);
                return true;
            }
            if cp == 0x203E {
                out.push(0x7E);
                return true;
            }
            if (0xFF61..=0xFF9F).contains(&cp) {
                out.push((cp - 0xFF61 + 0xA1) as u8);
                return true;
            }
            let c = if cp == 0x2212 { 0xFF0D } else { cp };
            match g.sjis_enc.get(&c) {
                Some(&p) => {
                    let lead = p / 188;
                    let lo = if lead < 0x1F { 0x81 } else { 0xC1 };
                    let trail = p % 188;
                    let offset = if trail < 0x3F { 0x40 } else { 0x41 };
                    out.push((lead + lo) as u8);
                    out.push((trail + offset) as u8);
                    true
                }
                None => false,
            }
        }
        EncAlgo::EucJp => {
            if cp == 0xA5 {
                out.push(0x5C);
                return true;
            }
            if cp == 0x203E {
                out.push(0x7E);
                return true;
            }
            if (0xFF61..=0xFF9F).contains(&cp) {
                out.push(0x8E);
                out.push((cp - 0xFF61 + 0xA1) as u8);
                return true;
            }
            let c = if cp == 0x2212 { 0xFF0D } else { cp };
            match g.jis0208_enc.get(&c) {
                Some(&p) => {
                    out.push((p / 94 + 0xA1) as u8);
                    out.push((p % 94 + 0xA1) as u8);
                    true
                }
                None => false,
            }
        }
        EncAlgo::Gbk | EncAlgo::Gb18030 => {
            let gbk = algo == EncAlgo::Gbk;
            if cp == 0xE5E5 {
                return false;
            }
            if gbk && cp == 0x20AC {
                out.push(0x80);
                return true;
            }
            if let Some(&(_, a, b)) = GB18030_2022_OVERRIDES.iter().find(|r| r.0 == cp) {
                out.push(a);
                out.push(b);
                return true;
            }
            if let Some(&p) = g.gb18030_enc.get(&cp) {
                let lead = p / 190 + 0x81;
                let trail = p % 190;
                let offset = if trail < 0x3F { 0x40 } else { 0x41 };
                out.push(lead as u8);
                out.push((trail + offset) as u8);
                return true;
            }
            if gbk {
                return false;
            }
            let mut p = g.gb18030_ranges_pointer(cp);
            let b1 = p / (10 * 126 * 10);
            p %= 10 * 126 * 10;
            let b2 = p / (10 * 126);
            p %= 10 * 126;
            let b3 = p / 10;
            let b4 = p % 10;
            out.push((b1 + 0x81) as u8);
            out.push((b2 + 0x30) as u8);
            out.push((b3 + 0x81) as u8);
            out.push((b4 + 0x30) as u8);
            true
        }
        EncAlgo::Iso2022Jp => unreachable!(),
    }
}

pub fn write_ncr(cp: u32, out: &mut Vec<u8>) {
    out.extend_from_slice(format!("&#{};", cp).as_bytes());
}

/// Encode a complete text (scalar values; no surrogates) per the Standard.  With
/// `replacement` every unmappable is additionally written as a decimal NCR (the "html" error
/// mode); without it the unmappables are only reported and nothing is written for them.
pub fn encode(algo: EncAlgo, text: &[u32], replacement: bool) -> EncOut {
    let g = golden();
    let mut o = EncOut::default();
    if algo != EncAlgo::Iso2022Jp {
        for (i, &cp) in text.iter().enumerate() {
            if !stateless(algo, cp, &mut o.bytes) {
                o.unmappables.push((i, cp));
                if replacement {
                    write_ncr(cp, &mut o.bytes);
                }
            }
        }
        return o;
    }
    let mut state = J::Ascii;
    let mut i = 0usize;
    while i < text.len() {
        let mut cp = text[i];
        // step 3
        if (state == J::Ascii || state == J::Roman) && (cp == 0x0E || cp == 0x0F || cp == 0x1B) {
            o.unmappables.push((i, 0xFFFD));
            if replacement {
                write_ncr(0xFFFD, &mut o.bytes);
            }
            i += 1;
            continue;
        }
        if state == J::Ascii && cp < 0x80 {
            o.bytes.push(cp as u8);
            i += 1;
            continue;
        }
        if state == J::Roman && ((cp < 0x80 && cp != 0x5C && cp != 0x7E) || cp == 0xA5 || cp == 0x203E) {
            o.bytes.push(if cp < 0x80 {
                cp as u8
            } else if cp == 0xA5 {
                0x5C
            } else {
                0x7E
            });
            i += 1;
            continue;
        }
        if cp < 0x80 && state != J::Ascii {
            state = J::Ascii;
            o.bytes.extend_from_slice(b"\x1B(B");
            continue; // restore
        }
        if (cp == 0xA5 || cp == 0x203E) && state != J::Roman {
            state = J::Roman;
            o.bytes.extend_from_slice(b"\x1B(J");
            continue;
        }
        if cp == 0x2212 {
            cp = 0xFF0D;
        }
        if (0xFF61..=0xFF9F).contains(&cp) {
            cp = ISO2022JP_KATAKANA[(cp - 0xFF61) as usize] as u32;
        }
        match g.jis0208_enc.get(&cp) {
            None => {
                if state == J::Jis0208 {
                    state = J::Ascii;
                    o.bytes.extend_from_slice(b"\x1B(B");
                    continue;
                }
                o.unmappables.push((i, cp));
                if replacement {
                    write_ncr(cp, &mut o.bytes);
                }
                i += 1;
            }
            Some(&p) => {
                if state != J::Jis0208 {
                    state = J::Jis0208;
                    o.bytes.extend_from_slice(b"\x1B$B");
                    continue;
                }
                o.bytes.push((p / 94 + 0x21) as u8);
                o.bytes.push((p % 94 + 0x21) as u8);
                i += 1;
            }
        }
    }
    if state != J::Ascii {
        o.bytes.extend_from_slice(b"\x1B(B");
    }
    o
}

/// can the character be encoded (no Unmappable)?  For ISO-2022-JP independent of state except
/// for the three forbidden controls, which are never encodable.
pub fn mappable(algo: EncAlgo, cp: u32) -> bool {
    if algo == EncAlgo::Iso2022Jp {
        return encode(algo, &[cp], false).unmappables.is_empty();
    }
    let mut v = Vec::new();
    stateless(algo, cp, &mut v)
}

/// The characters the Standard's encoders fold on purpose (they do not round-trip), typed in
/// from the Standard: returns the scalar the encoded form decodes back to, or None if the
/// character is expected to round-trip exactly.
pub fn fold(algo: EncAlgo, cp: u32) -> Option<u32> {
    match algo {
        EncAlgo::EucJp | EncAlgo::ShiftJis => match cp {
            0xA5 => Some(0x5C),
            0x203E => Some(0x7E),
            0x2212 => Some(0xFF0D),
            _ => None,
        },
        EncAlgo::Iso2022Jp => match cp {
            0x2212 => Some(0xFF0D),
            0xFF61..=0xFF9F => Some(ISO2022JP_KATAKANA[(cp - 0xFF61) as usize] as u32),
            _ => None,
        },
        EncAlgo::Gbk | EncAlgo::Gb18030 => {
            if GB18030_2022_OVERRIDES.iter().any(|r| r.0 == cp) {
                // decodes to the GB18030-2022 code point of that two-byte sequence
                let r = GB18030_2022_OVERRIDES.iter().find(|r| r.0 == cp).unwrap();
                let lead = r.1 as usize;
                let trail = r.2 as usize;
                let offset = if trail < 0x7F { 0x40 } else { 0x41 };
                let p = (lead - 0x81) * 190 + (trail - offset);
                golden().gb18030[p].first()
            } else {
                None
            }
        }
        _ => None,
    }
}
