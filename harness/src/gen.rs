//! Generators: per-decoder byte-stream grammars, cut sets and capacity sequences.
//! All randomness comes from proptest strategies; the token interpretation is a pure function.

use crate::golden::{golden, Cell};
use crate::model_dec::Algo;
use proptest::prelude::*;

/// monotone index selection (keeps proptest shrinking effective)
#[inline]
pub fn pick(x: u32, len: usize) -> usize {
    ((x as u64 * len as u64) >> 32) as usize
}

pub const ASCII_RUN_LENS: [usize; 16] = [1, 1, 1, 2, 3, 7, 8, 15, 16, 17, 31, 32, 33, 63, 64, 65];

/// bytes of a two-byte (or EUC-JP three-byte) sequence for an index pointer
pub fn big5_bytes(p: usize) -> [u8; 2] {
    let lead = p / 157 + 0x81;
    let t = p % 157;
    [lead as u8, (t + if t < 0x3F { 0x40 } else { 0x62 }) as u8]
}
pub fn euc_kr_bytes(p: usize) -> [u8; 2] {
    [(p / 190 + 0x81) as u8, (p % 190 + 0x41) as u8]
}
pub fn gb2_bytes(p: usize) -> [u8; 2] {
    let t = p % 190;
    [(p / 190 + 0x81) as u8, (t + if t < 0x3F { 0x40 } else { 0x41 }) as u8]
}
pub fn gb4_bytes(p: u32) -> [u8; 4] {
    let b1 = p / 12600;
    let r = p % 12600;
    let b2 = r / 1260;
    let r = r % 1260;
    let b3 = r / 10;
    let b4 = r % 10;
    [(b1 + 0x81) as u8, (b2 + 0x30) as u8, (b3 + 0x81) as u8, (b4 + 0x30) as u8]
}
pub fn sjis_bytes(p: usize) -> [u8; 2] {
    let lead = p / 188;
    let lo = if lead < 0x1F { 0x81 } else { 0xC1 };
    let t = p % 188;
    [(lead + lo) as u8, (t + if t < 0x3F { 0x40 } else { 0x41 }) as u8]
}
pub fn eucjp_bytes(p: usize) -> [u8; 2] {
    [(p / 94 + 0xA1) as u8, (p % 94 + 0xA1) as u8]
}
pub fn iso2022jp_bytes(p: usize) -> [u8; 2] {
    [(p / 94 + 0x21) as u8, (p % 94 + 0x21) as u8]
}

/// gb18030 four-byte pointers around every interesting boundary
pub fn gb4_edge_pointers() -> &'static Vec<u32> {
    static E: std::sync::OnceLock<Vec<u32>> = std::sync::OnceLock::new();
    E.get_or_init(gb4_edge_pointers_compute)
}

fn gb4_edge_pointers_compute() -> Vec<u32> {
    let g = golden();
    let mut v: Vec<u32> = Vec::new();
    for &(p, _) in &g.ranges {
        for d in [-1i64, 0, 1] {
            let q = p as i64 + d;
            if q >= 0 {
                v.push(q as u32);
            }
        }
    }
    for p in [0u32, 1, 7456, 7457, 7458, 39417, 39418, 39419, 39420, 39421, 100000, 188998, 188999, 189000, 189001, 1237574, 1237575, 1237576, 1237577, 1587599] {
        v.push(p);
    }
    v.sort();
    v.dedup();
    v
}

/// class representatives for a byte following a lead byte
pub const TRAIL_CLASSES: [u8; 22] = [
    0x00, 0x0A, 0x1B, 0x20, 0x2F, 0x30, 0x39, 0x3A, 0x3F, 0x40, 0x41, 0x5C, 0x7E, 0x7F, 0x80, 0x81, 0xA0, 0xA1, 0xDF, 0xFC, 0xFE, 0xFF,
];

pub const ISO2022JP_ESCAPES: [&[u8]; 6] = [b"\x1B(B", b"\x1B(J", b"\x1B(I", b"\x1B$@", b"\x1B$B", b"\x1B$A"];

pub const BOMISH: [&[u8]; 12] = [
    b"\xEF\xBB\xBF",
    b"\xFE\xFF",
    b"\xFF\xFE",
    b"\xEF",
    b"\xEF\xBB",
    b"\xEF\xBBa",
    b"\xEF\xBB\x80",
    b"\xFE",
    b"\xFF",
    b"\xFEa",
    b"\xFF\xFF",
    b"\xEFa",
];

/// number of token kinds understood by `tok_bytes`
pub const TOK_KINDS: u8 = 12;

/// Append the bytes of one token.  kind 0 is the simplest (a single 'a'), so shrinking leads there.
pub fn tok_bytes(algo: Algo, kind: u8, a: u32, b: u32, c: u8, out: &mut Vec<u8>) {
    let g = golden();
    match kind {
        0 => out.push(b'a'),
        1 => {
            // ASCII run with stride-relevant length
            let n = ASCII_RUN_LENS[pick(a, ASCII_RUN_LENS.len())];
            for i in 0..n {
                out.push(0x20 + ((b as usize + i * 7) % 0x5F) as u8);
            }
        }
        2 | 3 => {
            // valid (or unmapped-pointer) multi-byte sequence from the golden index
            match algo {
                Algo::Big5 => out.extend_from_slice(&big5_bytes(pick(a, g.big5.len() + 40))),
                Algo::EucKr => out.extend_from_slice(&euc_kr_bytes(pick(a, g.euc_kr.len() + 40))),
                Algo::ShiftJis => {
                    if c & 7 == 0 {
                        out.push(0xA1 + (a % 63) as u8) // half-width katakana
                    } else {
                        out.extend_from_slice(&sjis_bytes(pick(a, 11280)))
                    }
                }
                Algo::EucJp => match c & 7 {
                    0 => {
                        out.push(0x8E);
                        out.push(0xA1 + (a % 63) as u8)
                    }
                    1 | 2 => {
                        out.push(0x8F);
                        out.extend_from_slice(&eucjp_bytes(pick(a, g.jis0212.len() + 20)))
                    }
                    _ => out.extend_from_slice(&eucjp_bytes(pick(a, 94 * 94))),
                },
                Algo::Gb18030 => match c & 7 {
                    0 | 1 => {
                        let e = gb4_edge_pointers();
                        out.extend_from_slice(&gb4_bytes(e[pick(a, e.len())]))
                    }
                    2 => out.extend_from_slice(&gb4_bytes(pick(a, 39420) as u32)),
                    3 => out.extend_from_slice(&gb4_bytes(189000 + pick(a, 0x100000) as u32)),
                    _ => out.extend_from_slice(&gb2_bytes(pick(a, g.gb18030.len()))),
                },
                Algo::Iso2022Jp => {
                    // escape + content appropriate to the state
                    match c & 7 {
                        0 | 1 | 2 => {
                            out.extend_from_slice(if c & 8 == 0 { b"\x1B$B" } else { b"\x1B$@" });
                            let n = 1 + (b % 3) as usize;
                            for i in 0..n {
                                out.extend_from_slice(&iso2022jp_bytes(pick(a.wrapping_add(i as u32 * 0x1234567), 94 * 94)));
                            }
                        }
                        3 => {
                            out.extend_from_slice(b"\x1B(I");
                            out.push(0x21 + (a % 63) as u8);
                        }
                        4 => {
                            out.extend_from_slice(b"\x1B(J");
                            out.push([0x5C, 0x7E, b'a', 0x0E][pick(a, 4)]);
                        }
                        5 => out.extend_from_slice(b"\x1B(B"),
                        _ => out.extend_from_slice(&iso2022jp_bytes(pick(a, 94 * 94))),
                    }
                }
                Algo::Utf8 => {
                    let cp = match c & 7 {
                        0 => 0x80 + a % 0x780,
                        1 => 0x800 + a % 0xF800,
                        2 => 0x10000 + a % 0x100000,
                        3 => [0x80u32, 0x7FF, 0x800, 0xFFFF, 0x10000, 0x10FFFF, 0xD7FF, 0xE000, 0xFFFD, 0xFEFF][pick(a, 10)],
                        _ => a % 0x3000,
                    };
                    let ch = char::from_u32(cp).unwrap_or('\u{FFFD}');
                    let mut buf = [0u8; 4];
                    out.extend_from_slice(ch.encode_utf8(&mut buf).as_bytes());
                }
                Algo::Utf16(be) => {
                    let units: Vec<u16> = match c & 7 {
                        0 => vec![0xD800 + (a % 0x400) as u16, 0xDC00 + (b % 0x400) as u16],
                        1 => vec![0xD800 + (a % 0x400) as u16],
                        2 => vec![0xDC00 + (a % 0x400) as u16],
                        3 => vec![0xD800 + (a % 0x400) as u16, 0x0000],
                        4 => vec![0xD800 + (a % 0x400) as u16, 0xD800 + (b % 0x400) as u16, 0xDC00],
                        5 => vec![(a % 0x80) as u16],
                        _ => vec![(a % 0xD800) as u16],
                    };
                    for u in units {
                        if be {
                            out.push((u >> 8) as u8);
                            out.push(u as u8);
                        } else {
                            out.push(u as u8);
                            out.push((u >> 8) as u8);
                        }
                    }
                }
                Algo::SingleByte(_) | Algo::XUserDefined | Algo::Replacement => out.push(0x80 + (a % 0x80) as u8),
            }
        }
        4 => {
            // lead byte + trail class representative (near-valid)
            let lead: u8 = match algo {
                Algo::Big5 | Algo::EucKr | Algo::Gb18030 => 0x81 + (a % 0x7E) as u8,
                Algo::ShiftJis => [0x81u8, 0x9F, 0xE0, 0xFC, 0x85, 0xF0, 0xEA, 0x87][pick(a, 8)],
                Algo::EucJp => [0x8Eu8, 0x8F, 0xA1, 0xFE, 0xB0, 0xA9, 0xF5][pick(a, 7)],
                Algo::Iso2022Jp => 0x21 + (a % 0x5E) as u8,
                Algo::Utf8 => [0xC2u8, 0xDF, 0xE0, 0xED, 0xEF, 0xF0, 0xF4, 0xE1, 0xF1][pick(a, 9)],
                _ => 0x80 + (a % 0x80) as u8,
            };
            out.push(lead);
            out.push(TRAIL_CLASSES[pick(b, TRAIL_CLASSES.len())]);
        }
        5 => {
            // truncated / corrupted longer forms
            match algo {
                Algo::Gb18030 => {
                    let p = gb4_bytes(pick(a, 39420) as u32);
                    let keep = 1 + (c & 3) as usize; // 1..4
                    out.extend_from_slice(&p[..keep.min(4)]);
                    if c & 4 != 0 {
                        out.push(TRAIL_CLASSES[pick(b, TRAIL_CLASSES.len())]);
                    }
                }
                Algo::EucJp => {
                    out.push(0x8F);
                    if c & 1 != 0 {
                        out.push(0xA1 + (a % 0x5E) as u8);
                    }
                    if c & 2 != 0 {
                        out.push(TRAIL_CLASSES[pick(b, TRAIL_CLASSES.len())]);
                    }
                }
                Algo::Utf8 => {
                    const FORMS: [&[u8]; 20] = [
                        b"\xE0\x9F\x80", b"\xE0\xA0\x80", b"\xED\x9F\xBF", b"\xED\xA0\x80", b"\xF0\x8F\x80\x80", b"\xF0\x90\x80\x80", b"\xF4\x8F\xBF\xBF", b"\xF4\x90\x80\x80", b"\xC0\x80", b"\xC1\xBF",
                        b"\xF5\x80\x80\x80", b"\x80", b"\xBF", b"\xE1\x80", b"\xF1\x80\x80", b"\xF1\x80", b"\xE1", b"\xF1", b"\xFF", b"\xF8\x88\x80\x80\x80",
                    ];
                    out.extend_from_slice(FORMS[pick(a, FORMS.len())]);
                }
                Algo::Iso2022Jp => {
                    // prefixes and one-byte corruptions of escapes, doubled escapes, ESC inside a character
                    let e = ISO2022JP_ESCAPES[pick(a, ISO2022JP_ESCAPES.len())];
                    match c & 7 {
                        0 => out.extend_from_slice(&e[..1]),
                        1 => out.extend_from_slice(&e[..2]),
                        2 => {
                            out.extend_from_slice(e);
                            out.extend_from_slice(ISO2022JP_ESCAPES[pick(b, ISO2022JP_ESCAPES.len())]);
                        }
                        3 => {
                            out.extend_from_slice(b"\x1B$B");
                            out.push(0x21 + (b % 0x5E) as u8);
                            out.push(0x1B);
                        }
                        4 => {
                            out.extend_from_slice(&e[..2]);
                            out.push(TRAIL_CLASSES[pick(b, TRAIL_CLASSES.len())]);
                        }
                        5 => {
                            out.push(0x1B);
                            out.push(TRAIL_CLASSES[pick(b, TRAIL_CLASSES.len())]);
                        }
                        _ => out.extend_from_slice(e),
                    }
                }
                Algo::Utf16(_) => out.push(a as u8), // odd byte: shifts alignment
                _ => {
                    out.push(0x81 + (a % 0x7E) as u8);
                }
            }
        }
        6 => {
            // raw random bytes
            let n = 1 + (c & 3) as usize;
            let x = a.to_le_bytes();
            out.extend_from_slice(&x[..n]);
        }
        7 => {
            // BOMs and look-alikes (most useful at the very start, harmless elsewhere)
            out.extend_from_slice(BOMISH[pick(a, BOMISH.len())]);
        }
        8 => {
            // control-ish ASCII: ESC, SO, SI, NUL, backslash, tilde, DEL
            out.push([0x1B, 0x0E, 0x0F, 0x00, 0x5C, 0x7E, 0x7F, 0x0A][pick(a, 8)]);
        }
        9 => {
            // high bytes that are error bytes in most decoders
            out.push([0x80, 0xA0, 0xFD, 0xFE, 0xFF, 0x81, 0x8E, 0x8F][pick(a, 8)]);
        }
        10 => {
            // long ASCII run (crosses the 64-byte SIMD-validator threshold)
            let n = 60 + (a % 80) as usize;
            for i in 0..n {
                out.push(b'A' + ((b as usize + i) % 26) as u8);
            }
        }
        _ => {
            // a known-mapped character (dense part of the index) so that most streams decode
            match algo {
                Algo::Big5 => out.extend_from_slice(&big5_bytes(5495 + pick(a, 5000))),
                Algo::EucKr => out.extend_from_slice(b"\xB0\xA1"),
                Algo::ShiftJis => out.extend_from_slice(b"\x82\xA0"),
                Algo::EucJp => out.extend_from_slice(b"\xA4\xA2"),
                Algo::Gb18030 => out.extend_from_slice(&gb2_bytes(6176 + pick(a, 6000))),
                Algo::Iso2022Jp => out.extend_from_slice(b"\x1B$B\x24\x22\x1B(B"),
                Algo::Utf8 => out.extend_from_slice("\u{3042}".as_bytes()),
                Algo::Utf16(true) => out.extend_from_slice(b"\x30\x42"),
                Algo::Utf16(false) => out.extend_from_slice(b"\x42\x30"),
                _ => out.push(0xE9),
            }
        }
    }
}

pub type RawTok = (u8, u32, u32, u8);

pub fn raw_tok() -> impl Strategy<Value = RawTok> {
    (0u8..TOK_KINDS, any::<u32>(), any::<u32>(), any::<u8>())
}

pub fn toks_to_bytes(algo: Algo, toks: &[RawTok]) -> Vec<u8> {
    let mut out = Vec::new();
    for &(k, a, b, c) in toks {
        tok_bytes(algo, k, a, b, c, &mut out);
    }
    out
}

/// byte streams for one decoder algorithm
pub fn stream(algo: Algo, max_tokens: usize) -> impl Strategy<Value = Vec<u8>> {
    (proptest::collection::vec(raw_tok(), 0..=max_tokens), any::<u16>()).prop_map(move |(t, r)| toks_to_bytes(algo, &repeat_toks(&t, r)))
}

/// one case in 32 is long: the token list repeated 4..=35 times with varied table parameters
/// (hundreds to thousands of bytes), so that whatever depends on long inputs is reached too
pub fn repeat_toks(t: &[RawTok], r: u16) -> Vec<RawTok> {
    if r % 32 != 5 || t.is_empty() {
        return t.to_vec();
    }
    let reps = 4 + (r >> 8) as usize % 32;
    let mut v = Vec::with_capacity(t.len() * reps);
    for i in 0..reps {
        for &(k, a, b, c) in t {
            v.push((k, a.wrapping_add((i as u32).wrapping_mul(0x9E37_79B9)), b, c));
        }
    }
    v
}

/// does the stream contain anything but ASCII?
pub fn has_non_ascii(b: &[u8]) -> bool {
    b.iter().any(|x| *x >= 0x80 || *x == 0x1B || *x == 0x0E || *x == 0x0F)
}

/// cut positions from fractions; `n` = stream length
pub fn cuts_from(fracs: &[u32], n: usize) -> Vec<usize> {
    let mut v: Vec<usize> = fracs.iter().map(|f| pick(*f, n + 1)).collect();
    v.sort();
    v
}

pub const CAPS_UTF8: [usize; 14] = [4, 5, 6, 7, 8, 9, 10, 12, 15, 16, 17, 33, 64, 65];
pub const CAPS_UTF16: [usize; 12] = [2, 3, 4, 5, 6, 8, 15, 16, 17, 33, 64, 65];

pub fn index_has(c: &Cell) -> bool {
    !matches!(c, Cell::Null)
}
