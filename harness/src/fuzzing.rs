//! Entry points for the coverage-guided fuzz targets (fuzz/): raw bytes are decoded into the same
//! history / case structures the property checks use, run through the same drivers (with
//! exact-size heap allocations so AddressSanitizer sees every out-of-bounds access) and judged
//! by the same oracles.  A violation is a panic whose message starts with `PROP=<id>`.

use crate::checks::{dech, ench};
use crate::drive_dec::{BomMode, DecDriver, DecHistory, FaultKind, Sink, CAP_AMPLE as DCAP_AMPLE, CAP_QUERY as DCAP_QUERY};
use crate::drive_enc::{EFaultKind, ESink, EncDriver, EncHistory, Src, CAP_AMPLE, CAP_QUERY};
use crate::encs;
use crate::fw::Stats;
use crate::memchk::{self, MemCase, MemRunner, ALL_FNS};
use crate::model_dec;
use crate::valchk::{VCase, VRunner, C14_FNS, C16_FNS};

pub struct Bytes<'a> {
    d: &'a [u8],
    i: usize,
}

impl<'a> Bytes<'a> {
    pub fn new(d: &'a [u8]) -> Bytes<'a> {
        Bytes { d, i: 0 }
    }
    pub fn u8(&mut self) -> u8 {
        let b = self.d.get(self.i).cloned().unwrap_or(0);
        self.i += 1;
        b
    }
    pub fn rest(&self) -> &'a [u8] {
        &self.d[self.i.min(self.d.len())..]
    }
}

fn props() -> Vec<String> {
    match std::env::var("VERIF_PROP") {
        Ok(p) if !p.is_empty() => p.split(',').map(|s| s.to_string()).collect(),
        _ => vec![],
    }
}

/// Without VERIF_PROP only the cheap oracles run (per-call monitors and the chunking
/// differential); the model-based and multi-run oracles run when their property is selected.
fn wants(sel: &[String], p: &str) -> bool {
    if sel.is_empty() {
        return matches!(p, "C02" | "C04" | "C05" | "C06" | "C07" | "C08" | "C14" | "C15" | "C16");
    }
    sel.iter().any(|s| s == p)
}

thread_local! {
    static DSCRATCH: std::cell::RefCell<dech::Scratch> = std::cell::RefCell::new(dech::Scratch::new());
    static ESCRATCH: std::cell::RefCell<ench::EScratch> = std::cell::RefCell::new(ench::EScratch::new());
    static SEL: Vec<String> = props();
}

pub fn decode_history(data: &[u8]) -> Option<DecHistory> {
    if data.len() < 12 {
        return None;
    }
    let mut b = Bytes::new(data);
    let enc = encs::ALL[b.u8() as usize % 40].1;
    let flags = b.u8();
    let mode = BomMode::ALL[(flags & 3) as usize % 3];
    let sink = Sink::ALL[((flags >> 2) & 3) as usize];
    let repl = flags & 16 != 0;
    let last_on_empty = flags & 32 != 0;
    let ncaps = (b.u8() % 5) as usize;
    let mut caps = Vec::new();
    let list: &[usize] = if sink.is_utf16() { &crate::gen::CAPS_UTF16 } else { &crate::gen::CAPS_UTF8 };
    for _ in 0..4 {
        let x = b.u8();
        if caps.len() < ncaps {
            caps.push(match x {
                250..=252 => DCAP_QUERY,
                253..=255 => DCAP_AMPLE,
                _ => list[x as usize % list.len()],
            });
        }
    }
    let ncuts = (b.u8() % 5) as usize;
    let mut cutb = [0u8; 4];
    for c in cutb.iter_mut() {
        *c = b.u8();
    }
    let align = (b.u8() & 15) as usize;
    let fill = b.u8();
    let stream = b.rest().to_vec();
    let n = stream.len();
    let mut cuts: Vec<usize> = cutb[..ncuts.min(4)].iter().map(|c| (*c as usize * (n + 1)) >> 8).collect();
    cuts.sort();
    let sinks_per_call = if fill & 0xC0 == 0xC0 { vec![Sink::ALL[(fill & 3) as usize], Sink::ALL[((fill >> 2) & 3) as usize], sink] } else { vec![] };
    Some(DecHistory { enc, mode, sink, repl, stream, cuts, last_on_empty, caps, fill, align, sinks_per_call, repls_per_call: vec![] })
}

pub fn fuzz_decode(data: &[u8]) {
    let h = match decode_history(data) {
        Some(h) => h,
        None => return,
    };
    let sel = SEL.with(|s| s.clone());
    DSCRATCH.with(|sc| fuzz_decode_with(&h, &sel, &mut sc.borrow_mut()));
}

fn fuzz_decode_with(h: &DecHistory, sel: &[String], sc: &mut dech::Scratch) {
    let h = h.clone();
    sc.drv.exact_alloc = true;
    let mut st = Stats::new();
    let out = sc.drv.run(&h);
    let fail = |prop: &str, msg: String| -> ! { panic!("PROP={} {} :: {}", prop, msg, h.to_json()) };
    for f in &out.faults {
        let prop = match f.kind {
            FaultKind::Panic | FaultKind::Bounds => "C06",
            FaultKind::Valid => "C05",
            FaultKind::Progress => "C08",
            FaultKind::MaxQuery => "C07",
            FaultKind::Range => "C01",
        };
        if wants(&sel, prop) {
            fail(prop, f.msg.clone());
        }
    }
    sc.drv.exact_alloc = false;
    for (prop, v) in [("C02", dech::verdict_c02 as fn(&DecHistory, &mut dech::Scratch, &mut Stats, bool) -> dech::Verdict), ("C09", dech::verdict_c09), ("C10", dech::verdict_c10), ("C18", dech::verdict_c18)] {
        if wants(&sel, prop) {
            if let Some((m, _)) = v(&h, sc, &mut st, true) {
                fail(prop, m);
            }
        }
    }
    if wants(&sel, "C01") && h.stream.len() <= 4096 {
        let mut d = DecDriver::new();
        if let Some(m) = crate::checks::c01::check_bytes(h.enc, model_dec::algo_for(h.enc), &h.stream, &mut d) {
            fail("C01", m);
        }
    }
}

pub fn encode_history(data: &[u8]) -> Option<EncHistory> {
    if data.len() < 12 {
        return None;
    }
    let mut b = Bytes::new(data);
    let encl = ench::encoder_encodings();
    let enc = encl[b.u8() as usize % encl.len()];
    let flags = b.u8();
    let src = if flags & 1 != 0 { Src::Utf16 } else { Src::Utf8 };
    let sink = if flags & 2 != 0 && src == Src::Utf8 { ESink::Vec } else { ESink::Slice };
    let repl = flags & 4 != 0;
    let last_on_empty = flags & 8 != 0;
    let ncaps = (b.u8() % 5) as usize;
    let list: &[usize] = if repl { &crate::hist_enc::CAPS_REPL } else { &crate::hist_enc::CAPS_RAW };
    let mut caps = Vec::new();
    for _ in 0..4 {
        let x = b.u8();
        if caps.len() < ncaps {
            caps.push(match x {
                250..=252 => CAP_QUERY,
                253..=255 => CAP_AMPLE,
                _ => list[x as usize % list.len()],
            });
        }
    }
    let ncuts = (b.u8() % 5) as usize;
    let mut cutb = [0u8; 4];
    for c in cutb.iter_mut() {
        *c = b.u8();
    }
    let align = (b.u8() & 15) as usize;
    let fill = b.u8();
    // text: 3 bytes per character: kind + 16-bit value, interpreted through the class generator
    let rest = b.rest();
    let algo = crate::model_enc::enc_algo_for(enc);
    let mut text = Vec::new();
    for ch in rest.chunks(3) {
        if ch.len() < 3 {
            break;
        }
        let x = (ch[1] as u32) << 24 | (ch[2] as u32) << 16 | (ch[1] as u32) << 8 | ch[2] as u32;
        text.push(crate::hist_enc::text_char(algo, src == Src::Utf16, ch[0], x));
    }
    let mut h = EncHistory { enc, src, sink, repl, text, cuts: vec![], last_on_empty, caps, fill, align, undersized_ok: false };
    h.normalize();
    let n = h.text.len();
    h.cuts = cutb[..ncuts.min(4)].iter().map(|c| (*c as usize * (n + 1)) >> 8).collect();
    h.cuts.sort();
    Some(h)
}

pub fn fuzz_encode(data: &[u8]) {
    let h = match encode_history(data) {
        Some(h) => h,
        None => return,
    };
    let sel = SEL.with(|s| s.clone());
    ESCRATCH.with(|sc| fuzz_encode_with(&h, &sel, &mut sc.borrow_mut()));
}

fn fuzz_encode_with(h: &EncHistory, sel: &[String], sc: &mut ench::EScratch) {
    let h = h.clone();
    sc.drv.exact_alloc = true;
    let mut st = Stats::new();
    let out = sc.drv.run(&h);
    let fail = |prop: &str, msg: String| -> ! { panic!("PROP={} {} :: {}", prop, msg, h.to_json()) };
    let unmappable_text = h.text.iter().any(|c| crate::drive_enc::is_sur(*c) || !crate::model_enc::mappable(crate::model_enc::enc_algo_for(h.enc), *c));
    for f in &out.faults {
        let prop = match f.kind {
            EFaultKind::Panic | EFaultKind::Bounds => "C06",
            EFaultKind::Progress => "C08",
            EFaultKind::MaxQuery => {
                if h.repl && unmappable_text {
                    continue;
                }
                "C07"
            }
        };
        if wants(&sel, prop) {
            fail(prop, f.msg.clone());
        }
    }
    sc.drv.exact_alloc = false;
    for (prop, v) in [("C04", ench::verdict_c04 as fn(&EncHistory, &mut ench::EScratch, &mut Stats, bool) -> ench::Verdict), ("C09", ench::verdict_c09), ("C12", ench::verdict_c12), ("C18", ench::verdict_c18)] {
        if wants(&sel, prop) {
            if let Some((m, _)) = v(&h, sc, &mut st, true) {
                fail(prop, m);
            }
        }
    }
    if wants(&sel, "C03") {
        let mut d = EncDriver::new();
        if let Some(m) = crate::checks::c03::check_text(h.enc, crate::model_enc::enc_algo_for(h.enc), h.src, h.repl, &h.text, &mut d) {
            fail("C03", m);
        }
    }
}

pub fn mem_case(data: &[u8]) -> Option<(Option<MemCase>, Option<VCase>)> {
    if data.len() < 6 {
        return None;
    }
    let mut b = Bytes::new(data);
    let which = b.u8();
    let sa = (b.u8() & 15) as usize;
    let da = (b.u8() & 15) as usize;
    let fill = b.u8();
    let dsel = b.u8();
    let dx = b.u8();
    let rest = b.rest();
    let nmem = ALL_FNS.len();
    let nval = C14_FNS.len() + C16_FNS.len();
    let idx = which as usize % (nmem + nval);
    if idx < nmem {
        let f = ALL_FNS[idx];
        let (mut s8, mut s16) = (vec![], vec![]);
        if matches!(f.src_kind(), memchk::SrcKind::U16 | memchk::SrcKind::Latin1U16) {
            for c in rest.chunks(2) {
                if c.len() == 2 {
                    s16.push(u16::from_le_bytes([c[0], c[1]]));
                }
            }
        } else {
            s8 = rest.to_vec();
        }
        let mut c = MemCase { f, src8: s8, src16: s16, dst_len: 0, src_align: sa, dst_align: da, fill };
        c.sanitise();
        let n = c.src_len();
        if f.is_partial() {
            let suff = f.sufficient(n);
            c.dst_len = match dsel % 4 {
                0 => (dx as usize * (suff + 2)) >> 8,
                1 => n.saturating_sub((dx & 3) as usize) + (dx >> 5) as usize,
                2 => suff,
                _ => (dx as usize * (n + 2)) >> 8,
            };
        } else if let Some(m) = f.min_dst(n) {
            c.dst_len = m + [0usize, 0, 1, 7, 16, 17][dsel as usize % 6];
        }
        Some((Some(c), None))
    } else {
        let f = C14_FNS.iter().chain(C16_FNS.iter()).cloned().nth(idx - nmem).unwrap();
        let (mut s8, mut s16) = (vec![], vec![]);
        if f.is_u16() {
            for c in rest.chunks(2) {
                if c.len() == 2 {
                    s16.push(u16::from_le_bytes([c[0], c[1]]));
                }
            }
        } else {
            s8 = rest.to_vec();
        }
        let mut c = VCase { f, src8: s8, src16: s16, align: sa, force_scalar: dsel & 1 != 0 };
        c.sanitise();
        Some((None, Some(c)))
    }
}

pub fn fuzz_mem(data: &[u8]) {
    let sel = SEL.with(|s| s.clone());
    match mem_case(data) {
        None => {}
        Some((Some(c), _)) => {
            let mut rn = MemRunner::new();
            rn.exact_alloc = true;
            for f in memchk::judge(&mut rn, &c) {
                if crate::fw::known_open_id(&f.sig).is_some() || f.sig.ends_with("beyond-written-modified-within-16:simd") {
                    continue; // recorded open finding F5
                }
                if wants(&sel, f.prop) {
                    panic!("PROP={} mem::{}: {} :: {}", f.prop, c.f.name(), f.msg, c.to_json());
                }
            }
            if wants(&sel, "C18") {
                rn.exact_alloc = false;
                if let Some(f) = memchk::judge_fills(&mut rn, &c) {
                    panic!("PROP=C18 {} :: {}", f.msg, c.to_json());
                }
            }
        }
        Some((None, Some(c))) => {
            let prop = if C14_FNS.contains(&c.f) { "C14" } else { "C16" };
            if wants(&sel, prop) {
                encoding_rs::verif_hooks::set_force_scalar_utf8(c.force_scalar);
                let r = VRunner::new().judge(&c);
                encoding_rs::verif_hooks::set_force_scalar_utf8(false);
                if let Some(m) = r {
                    panic!("PROP={} {} :: {}", prop, m, c.to_json());
                }
            }
        }
        _ => {}
    }
}

/// Re-run a saved libFuzzer artifact through the same entry point, outside libFuzzer; returns
/// the panic message if it still fails.
pub fn replay_artifact(target: &str, data: &[u8]) -> Option<String> {
    let r = crate::fw::catch(|| match target {
        "fz_decode" => fuzz_decode(data),
        "fz_encode" => fuzz_encode(data),
        _ => fuzz_mem(data),
    });
    r.err()
}

/// seed corpus: a few hundred small valid inputs per target, derived from the checks' generators
pub fn emit_corpus(dir: &str, seed: u64) {
    use proptest::strategy::{Strategy, ValueTree};
    let ctx = crate::fw::Ctx { prop: "fuzz".into(), tier: crate::fw::Tier::Quick, seed, threads: 1, scale: 1.0 };
    for t in ["fz_decode", "fz_encode", "fz_mem"] {
        let _ = std::fs::create_dir_all(format!("{}/{}", dir, t));
    }
    let mut r = crate::fw::runner(&ctx, 1);
    let mut n = 0;
    for (i, (_, enc)) in encs::ALL.iter().enumerate() {
        let algo = model_dec::algo_for(enc);
        let strat = crate::gen::stream(algo, 10);
        for k in 0..12u8 {
            let s = strat.new_tree(&mut r).unwrap().current();
            let mut v = vec![i as u8, k.wrapping_mul(37), k % 5, k, k.wrapping_mul(3), 250, 17, k % 5, 40, 90, 160, 220, k, 0xA5];
            v.extend_from_slice(&s);
            std::fs::write(format!("{}/fz_decode/seed{:04}", dir, n), &v).unwrap();
            n += 1;
        }
    }
    n = 0;
    for i in 0..16u8 {
        for k in 0..24u8 {
            let mut v = vec![i, k, k % 5, k, k.wrapping_mul(5), 251, 9, k % 5, 30, 100, 170, 230, k, 0x00];
            for j in 0..(4 + k as usize) {
                v.push(k.wrapping_mul(7).wrapping_add(j as u8));
                v.push((j as u8).wrapping_mul(29));
                v.push(k.wrapping_add(j as u8 * 3));
            }
            std::fs::write(format!("{}/fz_encode/seed{:04}", dir, n), &v).unwrap();
            n += 1;
        }
    }
    n = 0;
    for w in 0..(ALL_FNS.len() + C14_FNS.len() + C16_FNS.len()) as u8 {
        for k in 0..8u8 {
            let mut v = vec![w, k, k.wrapping_mul(3), 0xFF, k, k.wrapping_mul(41)];
            let k32 = k as u32;
            let mut tmp = Vec::new();
            for j in 0..(3 + k) {
                crate::memgen::tok8(j, k32.wrapping_mul(0x01010101).wrapping_add((j as u32).wrapping_mul(0x9E3779B1)), k, &mut tmp);
            }
            v.extend_from_slice(&tmp);
            std::fs::write(format!("{}/fz_mem/seed{:04}", dir, n), &v).unwrap();
            n += 1;
        }
    }
}
