use encverif::fw::{self, Ctx, Tier};

fn usage() -> ! {
    eprintln!("usage: encverif run <Cnn> <quick|thorough> | replay <path> | digest <out>");
    std::process::exit(2);
}

fn main() {
    let args: Vec<String> = std::env::args().collect();
    if args.len() < 2 {
        usage();
    }
    fw::install_quiet_panic_hook();
    let seed: u64 = std::env::var("VERIF_SEED").ok().and_then(|s| s.trim().parse::<i128>().ok()).map(|v| v as u64).unwrap_or(20260925);
    let threads: usize = std::env::var("VERIF_THREADS").ok().and_then(|s| s.parse().ok()).unwrap_or_else(|| std::thread::available_parallelism().map(|n| n.get()).unwrap_or(8));
    let scale: f64 = std::env::var("VERIF_SCALE").ok().and_then(|s| s.parse().ok()).unwrap_or(1.0);
    match args[1].as_str() {
        "run" => {
            if args.len() < 4 {
                usage();
            }
            let tier = match args[3].as_str() {
                "quick" => Tier::Quick,
                "thorough" => Tier::Thorough,
                _ => usage(),
            };
            let ctx = Ctx { prop: args[2].clone(), tier, seed, threads, scale };
            fw::init_known(&ctx.prop);
            let code = encverif::checks::run(&ctx);
            std::process::exit(code);
        }
        "digest" | "digest-detail" => {
            // digest <tier> <out> | digest-detail <tier> <section> <key> <out>
            let detail = args[1] == "digest-detail";
            if args.len() < if detail { 6 } else { 4 } {
                usage();
            }
            let tier = if args[2] == "thorough" { Tier::Thorough } else { Tier::Quick };
            let ctx = Ctx { prop: "C17".into(), tier, seed, threads, scale };
            let code = if detail { encverif::checks::c17::digest_main(&ctx, &args[5], Some((args[3].clone(), args[4].clone()))) } else { encverif::checks::c17::digest_main(&ctx, &args[3], None) };
            std::process::exit(code);
        }
        "replay" => {
            if args.len() < 3 {
                usage();
            }
            let code = encverif::checks::replay(&args[2]);
            std::process::exit(code);
        }
        _ => usage(),
    }
}
