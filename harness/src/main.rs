use encverif::fw::{self, Ctx, Tier};

fn usage() -> ! {
    eprintln!("usage: encverif run <Cnn> <quick|thorough> | replay <path> | digest <out>");
    std::process::exit(2);
}

fn main() {
    let args: Vec<String> = std::env::args().collect();
    if args.len() < 2 {
        usage();
    }
    fw::install_quiet_panic_hook();
    let seed: u64 = std::env::var("VERIF_SEED").ok().and_then(|s| s.trim().parse::<i128>().ok()).map(|v| v as u64).unwrap_or(20260925);
    let threads: usize = std::env::var("VERIF_THREADS").ok().and_then(|s| s.parse().ok()).unwrap_or_else(|| std::thread::available_parallelism().map(|n| n.get()).unwrap_or(8));
    let scale: f64 = std::env::var("VERIF_SCALE").ok().and_then(|s| s.parse().ok()).unwrap_or(1.0);
    match args[1].as_str() {
        "run" => {
            if args.len() < 4 {
                usage();
            }
            let tier = match args[3].as_str() {
                "quick" => Tier::Quick,
                "thorough" => Tier::Thorough,
                _ => usage(),
            };
            let ctx = Ctx { prop: args[2].clone(), tier, seed, threads, scale };
            fw::init_known(&ctx.prop);
            encverif::guard::install_fault_handler(&ctx.prop);
            encverif::guard::start_watchdog(90, 40usize << 30);
            let code = encverif::checks::run(&ctx);
            std::process::exit(code);
        }
        "digest" | "digest-detail" => {
            // digest <tier> <out> | digest-detail <tier> <section> <key> <out>
            let detail = args[1] == "digest-detail";
            if args.len() < if detail { 6 } else { 4 } {
                usage();
            }
            let tier = if args[2] == "thorough" { Tier::Thorough } else { Tier::Quick };
            let ctx = Ctx { prop: "C17".into(), tier, seed, threads, scale };
            encverif::guard::install_fault_handler("C17");
            encverif::guard::start_watchdog(90, 40usize << 30);
            let code = if detail { encverif::checks::c17::digest_main(&ctx, &args[5], Some((args[3].clone(), args[4].clone()))) } else { encverif::checks::c17::digest_main(&ctx, &args[3], None) };
            std::process::exit(code);
        }
        "emit-corpus" => {
            if args.len() < 3 {
                usage();
            }
            encverif::fuzzing::emit_corpus(&args[2], seed);
            std::process::exit(0);
        }
        "replay-artifact" => {
            // replay-artifact <target> <path>
            if args.len() < 4 {
                usage();
            }
            fw::init_known("");
            let data = std::fs::read(&args[3]).unwrap_or_default();
            match encverif::fuzzing::replay_artifact(&args[2], &data) {
                None => {
                    println!("replay: artifact {} passes outside the sanitizer build", args[3]);
                    std::process::exit(0);
                }
                Some(msg) => {
                    let prop = msg.strip_prefix("PROP=").and_then(|m| m.split(' ').next()).unwrap_or("C06").to_string();
                    println!("VIOLATION property={} replay={}", prop, args[3]);
                    println!("  what: {}", msg.chars().take(1500).collect::<String>());
                    std::process::exit(1);
                }
            }
        }
        "replay" => {
            if args.len() < 3 {
                usage();
            }
            if let Ok(t) = std::fs::read_to_string(&args[2]) {
                if let Ok(v) = serde_json::from_str::<serde_json::Value>(&t) {
                    encverif::guard::install_fault_handler(v.get("property").and_then(|p| p.as_str()).unwrap_or(""));
                }
            }
            let code = encverif::checks::replay(&args[2]);
            std::process::exit(code);
        }
        _ => usage(),
    }
}
