pub mod checks;
pub mod drive_dec;
pub mod encs;
pub mod fw;
pub mod gen;
pub mod golden;
pub mod hist;
pub mod model_dec;
