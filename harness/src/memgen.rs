//! Source generators for the mem / validator / classifier checks (C14, C15, C16 and the mem
//! parts of C05, C06, C18): planted-defect families and random token streams.

use crate::gen::pick;
use crate::memchk::{MemCase, MemFn, SrcKind};
use proptest::prelude::*;

/// UTF-8-ish units to plant into ASCII / multi-byte filler: valid characters of each length and
/// every class of invalid sequence.
pub const PLANT8: [&[u8]; 34] = [
    b"\xC2\x80",         // U+0080 (Latin1)
    b"\xC3\xBF",         // U+00FF (Latin1)
    b"\xC4\x80",         // U+0100 (first non-Latin1)
    b"\xD7\x90",         // Hebrew alef (RTL)
    b"\xDF\xBF",         // U+07FF
    b"\xE0\xA0\x80",     // U+0800
    b"\xE4\xB8\x80",     // U+4E00
    b"\xED\x9F\xBF",     // U+D7FF
    b"\xEE\x80\x80",     // U+E000
    b"\xEF\xBF\xBD",     // U+FFFD
    b"\xF0\x90\x80\x80", // U+10000
    b"\xF0\x9F\x98\x80", // U+1F600
    b"\xF4\x8F\xBF\xBF", // U+10FFFF
    b"\x80",             // lone continuation
    b"\xBF",
    b"\xC0\x80",         // overlong
    b"\xC1\xBF",
    b"\xC3",             // truncated 2-byte (followed by filler)
    b"\xE0\x80\x80",     // overlong 3-byte
    b"\xE0\x9F\xBF",
    b"\xE4\xB8",         // truncated 3-byte
    b"\xE4",
    b"\xED\xA0\x80",     // surrogate
    b"\xED\xBF\xBF",
    b"\xF0\x80\x80\x80", // overlong 4-byte
    b"\xF0\x8F\xBF\xBF",
    b"\xF0\x9F\x98",     // truncated 4-byte
    b"\xF0\x9F",
    b"\xF0",
    b"\xF4\x90\x80\x80", // above U+10FFFF
    b"\xF5\x80\x80\x80",
    b"\xFF",
    b"\xE4\xB8\x41",     // bad third byte
    b"\xF0\x9F\x98\x41", // bad fourth byte
];

pub const PLANT_LATIN1: [u8; 6] = [0x80, 0xA0, 0xE9, 0xFF, 0x7F, 0xC3];

pub const PLANT16: [&[u16]; 22] = [
    &[0x0080],
    &[0x00FF],
    &[0x0100],
    &[0x05D0],
    &[0x07FF],
    &[0x0800],
    &[0x4E00],
    &[0xD7FF],
    &[0xE000],
    &[0xFFFD],
    &[0xFEFF],
    &[0xFFFF],
    &[0xD800, 0xDC00],
    &[0xD83D, 0xDE00],
    &[0xDBFF, 0xDFFF],
    &[0xD800],
    &[0xDBFF],
    &[0xDC00],
    &[0xDFFF],
    &[0xDC00, 0xD800],
    &[0xD800, 0xD800, 0xDC00],
    &[0xD802, 0xDC00],
];

/// filler kinds for byte sources: 0 = ASCII, 1 = 2-byte Latin1 chars, 2 = 3-byte, 3 = 4-byte
pub fn filler8(kind: usize, len: usize) -> Vec<u8> {
    let unit: &[u8] = match kind & 3 {
        0 => b"a",
        1 => b"\xC3\xA9",
        2 => b"\xE4\xB8\xAD",
        _ => b"\xF0\x9F\x98\x80",
    };
    let mut v = Vec::with_capacity(len + 4);
    while v.len() + unit.len() <= len {
        v.extend_from_slice(unit);
    }
    while v.len() < len {
        v.push(b'z');
    }
    v
}

pub fn filler16(kind: usize, len: usize) -> Vec<u16> {
    let u: u16 = match kind & 3 {
        0 => 0x61,
        1 => 0xE9,
        2 => 0x4E2D,
        _ => 0x3042,
    };
    vec![u; len]
}

/// plant `unit` at byte position `pos` into a filler of `len` bytes (overwriting; the planted
/// unit is cut off at the end of the buffer, which yields the truncated-at-end forms)
pub fn plant8(kind: usize, len: usize, pos: usize, unit: &[u8]) -> Vec<u8> {
    let mut v = filler8(kind, len);
    // keep filler characters whole before the planted unit
    if kind & 3 != 0 {
        let ul = [1usize, 2, 3, 4][kind & 3];
        let whole = pos / ul * ul;
        for b in &mut v[whole..pos.min(len)] {
            *b = b'y';
        }
    }
    for (i, b) in unit.iter().enumerate() {
        if pos + i < len {
            v[pos + i] = *b;
        }
    }
    // repair the filler after the planted unit so that the only defect is the planted one
    if kind & 3 != 0 {
        let ul = [1usize, 2, 3, 4][kind & 3];
        let end = pos + unit.len();
        let next_whole = (end + ul - 1) / ul * ul;
        for i in end..next_whole.min(len) {
            v[i] = b'y';
        }
    }
    v
}

pub fn plant16(kind: usize, len: usize, pos: usize, unit: &[u16]) -> Vec<u16> {
    let mut v = filler16(kind, len);
    for (i, u) in unit.iter().enumerate() {
        if pos + i < len {
            v[pos + i] = *u;
        }
    }
    v
}

pub type RawTok = (u8, u32, u8);

/// random byte source tokens (UTF-8-ish)
pub fn tok8(kind: u8, a: u32, c: u8, out: &mut Vec<u8>) {
    match kind % 10 {
        0 => out.push(b'a'),
        1 | 2 => {
            let n = crate::gen::ASCII_RUN_LENS[pick(a, crate::gen::ASCII_RUN_LENS.len())];
            for i in 0..n {
                out.push(0x20 + ((c as usize + i) % 0x5F) as u8);
            }
        }
        3 | 4 => out.extend_from_slice(PLANT8[pick(a, 13)]), // valid characters
        5 => out.extend_from_slice(PLANT8[13 + pick(a, PLANT8.len() - 13)]), // invalid forms
        6 => {
            let cp = a % 0x110000;
            let ch = char::from_u32(cp).unwrap_or('\u{FFFD}');
            let mut b = [0u8; 4];
            out.extend_from_slice(ch.encode_utf8(&mut b).as_bytes());
        }
        7 => {
            // Latin1-range characters
            let ch = char::from_u32(0x80 + a % 0x80).unwrap();
            let mut b = [0u8; 4];
            out.extend_from_slice(ch.encode_utf8(&mut b).as_bytes());
        }
        8 => out.push(a as u8),
        _ => {
            let n = 50 + (a % 100) as usize;
            for i in 0..n {
                out.push(b'A' + ((c as usize + i) % 26) as u8);
            }
        }
    }
}

pub fn tok16(kind: u8, a: u32, c: u8, out: &mut Vec<u16>) {
    match kind % 10 {
        0 => out.push(0x61),
        1 | 2 => {
            let n = crate::gen::ASCII_RUN_LENS[pick(a, crate::gen::ASCII_RUN_LENS.len())];
            for i in 0..n {
                out.push(0x20 + ((c as usize + i) % 0x5F) as u16);
            }
        }
        3 | 4 => out.extend_from_slice(PLANT16[pick(a, PLANT16.len())]),
        5 => out.push(0xD800 + (a % 0x800) as u16),
        6 => out.push(a as u16),
        7 => out.push(0x80 + (a % 0x80) as u16),
        8 => {
            let cp = 0x10000 + a % 0x100000;
            let mut b = [0u16; 2];
            out.extend_from_slice(char::from_u32(cp).unwrap().encode_utf16(&mut b));
        }
        _ => {
            let n = 20 + (a % 60) as usize;
            for i in 0..n {
                out.push(b'A' as u16 + ((c as usize + i) % 26) as u16);
            }
        }
    }
}

/// random mem cases for one function
pub fn mem_case(f: MemFn, max_tokens: usize) -> impl Strategy<Value = MemCase> {
    let raw = (proptest::collection::vec((any::<u8>(), any::<u32>(), any::<u8>()), 0..=max_tokens), any::<u32>(), any::<u8>(), any::<u8>(), any::<u8>());
    raw.prop_map(move |(toks, dx, sa, da, fill)| {
        // one case in 16 is long: the token list repeated 4..=35 times with varied parameters
        let toks: Vec<(u8, u32, u8)> = if (sa >> 4) == 3 && !toks.is_empty() {
            let reps = 4 + (dx >> 27) as usize;
            (0..reps).flat_map(|i| toks.iter().map(move |&(k, a, c)| (k, a.wrapping_add((i as u32).wrapping_mul(0x9E37_79B9)), c))).collect()
        } else {
            toks
        };
        let mut src8 = Vec::new();
        let mut src16 = Vec::new();
        match f.src_kind() {
            SrcKind::U16 | SrcKind::Latin1U16 => {
                for (k, a, c) in &toks {
                    tok16(*k, *a, *c, &mut src16);
                }
            }
            SrcKind::Latin1 => {
                for (k, a, c) in &toks {
                    match k % 4 {
                        0 => tok8(1, *a, *c, &mut src8),
                        1 => src8.push(0x80 + (*a % 0x80) as u8),
                        2 => src8.push(*a as u8),
                        _ => tok8(9, *a, *c, &mut src8),
                    }
                }
            }
            _ => {
                for (k, a, c) in &toks {
                    tok8(*k, *a, *c, &mut src8);
                }
            }
        }
        let mut c = MemCase { f, src8, src16, dst_len: 0, src_align: (sa & 15) as usize, dst_align: (da & 15) as usize, fill };
        c.sanitise();
        let n = c.src_len();
        if f.is_partial() {
            // destination from 0 to sufficient + 1, biased to "almost enough"
            let suff = f.sufficient(n);
            c.dst_len = match dx % 4 {
                0 => pick(dx, suff + 2),
                1 => n.saturating_sub((dx >> 8) as usize % 4) + (dx >> 16) as usize % 8,
                2 => suff,
                _ => pick(dx, n + 2),
            };
        } else if let Some(m) = f.min_dst(n) {
            c.dst_len = m + [0usize, 0, 1, 7, 16, 17][pick(dx, 6)];
        }
        c
    })
}
