//! Source generators for the mem / validator / classifier checks (C14, C15, C16 and the mem
//! parts of C05, C06, C18): planted-defect families and random token streams.

use crate::gen::pick;
use crate::memchk::{MemCase, MemFn, SrcKind};
use proptest::prelude::*;

/// UTF-8-ish units to plant into ASCII / multi-byte filler: valid characters of each length and
/// every class of invalid sequence.
pub const PLANT8: [&[u8]; 34] = [
    b"\xC2\x80",         // U+0080 (Latin1)
    b"\xC3\xBF",         // U+00FF (Latin1)
    b"\xC4\x80",         // U+0100 (first non-Latin1)
    b"\xD7\x90",         // Hebrew alef (RTL)
    b"\xDF\xBF",         // U+07FF
    b"\xE0\xA0\x80",     // U+0800
    b"\xE4\xB8\x80",     // U+4E00
    b"\xED\x9F\xBF",     // U+D7FF
    b"\xEE\x80\x80",     // U+E000
    b"\xEF\xBF\xBD",     // U+FFFD
    b"\xF0\x90\x80\x80", // U+10000
    b"\xF0\x9F\x98\x80", // U+1F600
    b"\xF4\x8F\xBF\xBF", // U+10FFFF
    b"\x80",             // lone continuation
    b"\xBF",
    b"\xC0\x80",         // overlong
    b"\xC1\xBF",
    b"\xC3",             // truncated 2-byte (followed by filler)
    b"\xE0\x80\x80",     // overlong 3-byte
    b"\xE0\x9F\xBF",
    b"\xE4\xB8",         // truncated 3-byte
    b"\xE4",
    b"\xED\xA0\x80",     // surrogate
    b"\xED\xBF\xBF",
    b"\xF0\x80\x80\x80", // overlong 4-byte
    b"\xF0\x8F\xBF\xBF",
    b"\xF0\x9F\x98",     // truncated 4-byte
    b"\xF0\x9F",
    b"\xF0",
    b"\xF4\x90\x80\x80", // above U+10FFFF
    b"\xF5\x80\x80\x80",
    b"\xFF",
    b"\xE4\xB8\x41",     // bad third byte
    b"\xF0\x9F\x98\x41", // bad fourth byte
];

pub const PLANT_LATIN1: [u8; 6] = [0x80, 0xA0, 0xE9, 0xFF, 0x7F, 0xC3];

pub const PLANT16: [&[u16]; 22] = [
    &[0x0080],
    &[0x00FF],
    &[0x0100],
    &[0x05D0],
    &[0x07FF],
    &[0x0800],
    &[0x4E00],
    &[0xD7FF],
    &[0xE000],
    &[0xFFFD],
    &[0xFEFF],
    &[0xFFFF],
    &[0xD800, 0xDC00],
    &[0xD83D, 0xDE00],
    &[0xDBFF, 0xDFFF],
    &[0xD800],
    &[0xDBFF],
    &[0xDC00],
    &[0xDFFF],
    &[0xDC00, 0xD800],
    &[0xD800, 0xD800, 0xDC00],
    &[0xD802, 0xDC00],
];

/// filler kinds for byte sources: 0 = ASCII, 1 = 2-byte Latin1 chars, 2 = 3-byte, 3 = 4-byte
pub fn filler8(kind: usize, len: usize) -> Vec<u8> {
    // kinds 4 and 5 are ASCII too, but the bytes the converters treat specially inside non-ASCII
    // text: the space, and punctuation / digits below 0x3C
    if kind == 4 {
        return vec![b' '; len];
    }
    if kind == 5 {
        return (0..len).map(|i| b", .0;-\r\n"[i % 8]).collect();
    }
    let unit: &[u8] = match kind & 3 {
        0 => b"a",
        1 => b"\xC3\xA9",
        2 => b"\xE4\xB8\xAD",
        _ => b"\xF0\x9F\x98\x80",
    };
    let mut v = Vec::with_capacity(len + 4);
    while v.len() + unit.len() <= len {
        v.extend_from_slice(unit);
    }
    while v.len() < len {
        v.push(b'z');
    }
    v
}

pub fn filler16(kind: usize, len: usize) -> Vec<u16> {
    if kind == 4 {
        return vec![0x20; len];
    }
    if kind == 5 {
        return (0..len).map(|i| b", .0;-\r\n"[i % 8] as u16).collect();
    }
    let u: u16 = match kind & 3 {
        0 => 0x61,
        1 => 0xE9,
        2 => 0x4E2D,
        _ => 0x3042,
    };
    vec![u; len]
}

/// plant `unit` at byte position `pos` into a filler of `len` bytes (overwriting; the planted
/// unit is cut off at the end of the buffer, which yields the truncated-at-end forms)
pub fn plant8(kind: usize, len: usize, pos: usize, unit: &[u8]) -> Vec<u8> {
    let mut v = filler8(kind, len);
    // keep filler characters whole before the planted unit
    if kind < 4 && kind & 3 != 0 {
        let ul = [1usize, 2, 3, 4][kind & 3];
        let whole = pos / ul * ul;
        for b in &mut v[whole..pos.min(len)] {
            *b = b'y';
        }
    }
    for (i, b) in unit.iter().enumerate() {
        if pos + i < len {
            v[pos + i] = *b;
        }
    }
    // repair the filler after the planted unit so that the only defect is the planted one
    if kind < 4 && kind & 3 != 0 {
        let ul = [1usize, 2, 3, 4][kind & 3];
        let end = pos + unit.len();
        let next_whole = (end + ul - 1) / ul * ul;
        for i in end..next_whole.min(len) {
            v[i] = b'y';
        }
    }
    v
}

pub fn plant16(kind: usize, len: usize, pos: usize, unit: &[u16]) -> Vec<u16> {
    let mut v = filler16(kind, len);
    for (i, u) in unit.iter().enumerate() {
        if pos + i < len {
            v[pos + i] = *u;
        }
    }
    v
}

pub type RawTok = (u8, u32, u8);

/// random byte source tokens (UTF-8-ish)
pub fn tok8(kind: u8, a: u32, c: u8, out: &mut Vec<u8>) {
    match kind % 10 {
        0 => out.push(b'a'),
        1 | 2 => {
            let n = crate::gen::ASCII_RUN_LENS[pick(a, crate::gen::ASCII_RUN_LENS.len())];
            for i in 0..n {
                out.push(0x20 + ((c as usize + i) % 0x5F) as u8);
            }
        }
        3 | 4 => out.extend_from_slice(PLANT8[pick(a, 13)]), // valid characters
        5 => out.extend_from_slice(PLANT8[13 + pick(a, PLANT8.len() - 13)]), // invalid forms
        6 => {
            let cp = a % 0x110000;
            let ch = char::from_u32(cp).unwrap_or('\u{FFFD}');
            let mut b = [0u8; 4];
            out.extend_from_slice(ch.encode_utf8(&mut b).as_bytes());
        }
        7 => {
            // Latin1-range characters
            let ch = char::from_u32(0x80 + a % 0x80).unwrap();
            let mut b = [0u8; 4];
            out.extend_from_slice(ch.encode_utf8(&mut b).as_bytes());
        }
        8 => out.push(a as u8),
        _ => {
            let n = 50 + (a % 100) as usize;
            for i in 0..n {
                out.push(b'A' + ((c as usize + i) % 26) as u8);
            }
        }
    }
}

pub fn tok16(kind: u8, a: u32, c: u8, out: &mut Vec<u16>) {
    match kind % 10 {
        0 => out.push(0x61),
        1 | 2 => {
            let n = crate::gen::ASCII_RUN_LENS[pick(a, crate::gen::ASCII_RUN_LENS.len())];
            for i in 0..n {
                out.push(0x20 + ((c as usize + i) % 0x5F) as u16);
            }
        }
        3 | 4 => out.extend_from_slice(PLANT16[pick(a, PLANT16.len())]),
        5 => out.push(0xD800 + (a % 0x800) as u16),
        6 => out.push(a as u16),
        7 => out.push(0x80 + (a % 0x80) as u16),
        8 => {
            let cp = 0x10000 + a % 0x100000;
            let mut b = [0u16; 2];
            out.extend_from_slice(char::from_u32(cp).unwrap().encode_utf16(&mut b));
        }
        _ => {
            let n = 20 + (a % 60) as usize;
            for i in 0..n {
                out.push(b'A' as u16 + ((c as usize + i) % 26) as u16);
            }
        }
    }
}

/// random mem cases for one function
pub fn mem_case(f: MemFn, max_tokens: usize) -> impl Strategy<Value = MemCase> {
    let raw = (proptest::collection::vec((any::<u8>(), any::<u32>(), any::<u8>()), 0..=max_tokens), any::<u32>(), any::<u8>(), any::<u8>(), any::<u8>());
    raw.prop_map(move |(toks, dx, sa, da, fill)| {
        // one case in 16 is long: the token list repeated 4..=35 times with varied parameters
        let toks: Vec<(u8, u32, u8)> = if (sa >> 4) == 3 && !toks.is_empty() {
            let reps = 4 + (dx >> 27) as usize;
            (0..reps).flat_map(|i| toks.iter().map(move |&(k, a, c)| (k, a.wrapping_add((i as u32).wrapping_mul(0x9E37_79B9)), c))).collect()
        } else {
            toks
        };
        let mut src8 = Vec::new();
        let mut src16 = Vec::new();
        match f.src_kind() {
            SrcKind::U16 | SrcKind::Latin1U16 => {
                for (k, a, c) in &toks {
                    tok16(*k, *a, *c, &mut src16);
                }
            }
            SrcKind::Latin1 => {
                for (k, a, c) in &toks {
                    match k % 4 {
                        0 => tok8(1, *a, *c, &mut src8),
                        1 => src8.push(0x80 + (*a % 0x80) as u8),
                        2 => src8.push(*a as u8),
                        _ => tok8(9, *a, *c, &mut src8),
                    }
                }
            }
            _ => {
                for (k, a, c) in &toks {
                    tok8(*k, *a, *c, &mut src8);
                }
            }
        }
        let mut c = MemCase { f, src8, src16, dst_len: 0, src_align: (sa & 15) as usize, dst_align: (da & 15) as usize, fill };
        c.sanitise();
        let n = c.src_len();
        if f.is_partial() {
            // destination from 0 to sufficient + 1, biased to "almost enough"
            let suff = f.sufficient(n);
            c.dst_len = match dx % 4 {
                0 => pick(dx, suff + 2),
                1 => n.saturating_sub((dx >> 8) as usize % 4) + (dx >> 16) as usize % 8,
                2 => suff,
                _ => pick(dx, n + 2),
            };
        } else if let Some(m) = f.min_dst(n) {
            c.dst_len = m + [0usize, 0, 1, 7, 16, 17][pick(dx, 6)];
        }
        c
    })
}

// ---------------------------------------------------------------------------------------------
// Adjacent-pair families: a valid character immediately before / after a near-valid sequence,
// and two boundary code units at stride-relevant distances.  They exist because a fast path may
// carry something over from the previous character (its lead class, its row) or reduce a whole
// stride to one value (OR / max / XOR of the lanes) - neither shows with one special unit.

const TRAIL_SET: [u8; 12] = [0x41, 0x7F, 0x80, 0x8F, 0x90, 0x9F, 0xA0, 0xBF, 0xC0, 0xC3, 0xE0, 0xFF];
const TRAIL_SET_SMALL: [u8; 5] = [0x41, 0x80, 0xBF, 0xC0, 0xFF];

/// near-valid UTF-8 sequences: every lead class x boundary bytes at each trail position
pub fn utf8_near_valid(full: bool) -> Vec<Vec<u8>> {
    let mut v: Vec<Vec<u8>> = vec![vec![0x80], vec![0xBF], vec![0xF8], vec![0xFF], vec![0xC2], vec![0xE1], vec![0xF1], vec![0xE1, 0x80], vec![0xF1, 0x80], vec![0xF1, 0x80, 0x80]];
    for lead in [0xC0u8, 0xC1, 0xC2, 0xDF] {
        for a in TRAIL_SET {
            v.push(vec![lead, a]);
        }
    }
    for lead in [0xE0u8, 0xE1, 0xEC, 0xED, 0xEE, 0xEF] {
        for a in TRAIL_SET {
            for b in TRAIL_SET {
                v.push(vec![lead, a, b]);
            }
        }
    }
    let small: &[u8] = if full { &TRAIL_SET } else { &TRAIL_SET_SMALL };
    for lead in [0xF0u8, 0xF1, 0xF4, 0xF5] {
        for a in TRAIL_SET {
            for &b in small {
                for &c in small {
                    v.push(vec![lead, a, b, c]);
                }
            }
        }
    }
    v
}

/// valid characters: for every lead class, the corners of its valid trail ranges
pub fn utf8_valid_reps() -> Vec<Vec<u8>> {
    let mut v: Vec<Vec<u8>> = vec![b"a".to_vec(), vec![0xC2, 0x80], vec![0xC2, 0xBF], vec![0xC3, 0xBF], vec![0xC4, 0x80], vec![0xD7, 0x90], vec![0xDF, 0x80], vec![0xDF, 0xBF]];
    for (lead, seconds) in [(0xE0u8, &[0xA0u8, 0xBF][..]), (0xE1, &[0x80, 0x8F, 0x90, 0x9F, 0xA0, 0xBF][..]), (0xEC, &[0x80, 0x9F, 0xA0, 0xBF][..]), (0xED, &[0x80, 0x8F, 0x90, 0x9F][..]), (0xEE, &[0x80, 0x9F, 0xA0, 0xBF][..]), (0xEF, &[0x80, 0xAC, 0xB7, 0xBF][..])] {
        for &s in seconds {
            for t in [0x80u8, 0xBF] {
                v.push(vec![lead, s, t]);
            }
        }
    }
    for q in [[0xF0u8, 0x90, 0x80, 0x80], [0xF0, 0xBF, 0xBF, 0xBF], [0xF0, 0x9E, 0xA0, 0x80], [0xF1, 0x80, 0x80, 0x80], [0xF3, 0xBF, 0xBF, 0xBF], [0xF4, 0x80, 0x80, 0x80], [0xF4, 0x8F, 0xBF, 0xBF]] {
        v.push(q.to_vec());
    }
    v
}

/// (ASCII bytes before, ASCII bytes after) around an adjacent pair
pub const PAIR_EMBED: [(usize, usize); 8] = [(0, 0), (0, 1), (0, 14), (3, 17), (13, 0), (13, 14), (3, 1), (14, 33)];

pub fn embed_pair8(a: &[u8], b: &[u8], pre: usize, tail: usize) -> Vec<u8> {
    let mut v = Vec::with_capacity(pre + a.len() + b.len() + tail);
    v.extend((0..pre).map(|i| b'a' + (i % 26) as u8));
    v.extend_from_slice(a);
    v.extend_from_slice(b);
    v.extend((0..tail).map(|i| b'A' + (i % 26) as u8));
    v
}

/// boundary UTF-16 code units (Latin1 / bidi range / surrogate / special edges)
pub const UNIT_EDGES16: [u16; 48] = [
    0x007F, 0x0080, 0x00FF, 0x0100, 0x058F, 0x0590, 0x05D0, 0x07FF, 0x0800, 0x08FF, 0x0900, 0x0E01, 0x1FFF, 0x2000, 0x200E, 0x200F, 0x2010, 0x202A, 0x202B, 0x202E, 0x202F, 0x2066, 0x2067, 0x2068, 0x3042, 0xD7FF, 0xD800,
    0xD802, 0xD803, 0xD83A, 0xD83B, 0xD83D, 0xDBFF, 0xDC00, 0xDE00, 0xDFFF, 0xE000, 0xFB1C, 0xFB1D, 0xFDFF, 0xFE00, 0xFE6F, 0xFE70, 0xFEFE, 0xFEFF, 0xFF0C, 0xFFFD, 0xFFFF,
];

/// (position of the first unit, distance to the second, units after the second)
pub fn pair_layouts16() -> Vec<(usize, usize, usize)> {
    let mut v = Vec::new();
    for p in [0usize, 5, 15, 16, 17] {
        for d in [1usize, 2, 7, 8, 9, 15, 16] {
            for t in [1usize, 16] {
                v.push((p, d, t));
            }
        }
    }
    v
}

pub fn embed_pair16(a: u16, b: u16, p: usize, d: usize, t: usize) -> Vec<u16> {
    let mut v: Vec<u16> = (0..p + d + 1 + t).map(|i| 0x61 + (i % 26) as u16).collect();
    v[p] = a;
    v[p + d] = b;
    v
}

/// Table sweep: every (lead, second) pair, every three-byte string with a three-byte lead, every
/// four-byte lead x second x third (and, for boundary seconds, every fourth byte) - one cell of
/// a lookup table being wrong is otherwise a one-in-65536 event.  Calls `f` with each sequence
/// of lane `lane` of `lanes`.
pub fn utf8_table_sweep(lane: usize, lanes: usize, mut f: impl FnMut(&[u8]) -> bool) -> bool {
    let mut k = 0usize;
    let mut go = |s: &[u8]| -> bool {
        k += 1;
        if k % lanes != lane {
            return true;
        }
        f(s)
    };
    for a in 0x80..=0xFFu8 {
        for b in 0..=0xFFu8 {
            if !go(&[a, b]) {
                return false;
            }
        }
    }
    for a in 0xE0..=0xEFu8 {
        for b in 0..=0xFFu8 {
            for c in 0..=0xFFu8 {
                if !go(&[a, b, c]) {
                    return false;
                }
            }
        }
    }
    for a in 0xF0..=0xF7u8 {
        for b in 0..=0xFFu8 {
            for c in 0..=0xFFu8 {
                for d in [0x80u8, 0xBF, 0x41] {
                    if !go(&[a, b, c, d]) {
                        return false;
                    }
                }
            }
        }
    }
    for a in 0xF0..=0xF4u8 {
        for b in [0x80u8, 0x8F, 0x90, 0x9F, 0xA0, 0xBF] {
            for c in [0x80u8, 0xBF] {
                for d in 0..=0xFFu8 {
                    if !go(&[a, b, c, d]) {
                        return false;
                    }
                }
            }
        }
    }
    true
}

/// Triples for fast paths that stay inside a run of same-length sequences and may keep something
/// from the FIRST sequence of the run (its lead class) while checking the third: for every
/// near-valid sequence S with a three- or four-byte lead, [A1, A2, S] where A1 ranges over the
/// valid representatives of the same length and A2 over one representative per lead of that length.
pub fn utf8_run_triples(mut f: impl FnMut(&[u8], &[u8], &[u8]) -> bool) -> bool {
    let near = utf8_near_valid(false);
    let reps = utf8_valid_reps();
    for len in [3usize, 4] {
        let a1s: Vec<&Vec<u8>> = reps.iter().filter(|r| r.len() == len).collect();
        let mut a2s: Vec<&Vec<u8>> = Vec::new();
        for r in &a1s {
            if !a2s.iter().any(|x| x[0] == r[0]) {
                a2s.push(r);
            }
        }
        for s in near.iter().filter(|s| s.len() >= 2 && ((len == 3 && (0xE0..=0xEF).contains(&s[0])) || (len == 4 && (0xF0..=0xF7).contains(&s[0])))) {
            for a1 in &a1s {
                for a2 in &a2s {
                    if !f(a1, a2, s) {
                        return false;
                    }
                }
            }
        }
    }
    true
}

/// code units that matter right AFTER a surrogate pair (emoji variation selectors and joiners,
/// keycap, spaces) in addition to the boundary units
pub const AFTER_PAIR16: [u16; 14] = [0x0020, 0x0061, 0x00E9, 0x05D0, 0x200C, 0x200D, 0x20E3, 0x3042, 0xFE0E, 0xFE0F, 0xD83D, 0xDE00, 0xDC00, 0xFFFD];

/// [filler.., pair, u1, u2, u3, filler..] for every (u1, u2, u3) over AFTER_PAIR16: scalar loops
/// that stay "in emoji mode" after a pair decide what the following units are from context
pub fn after_pair_triples16(mut f: impl FnMut(&[u16]) -> bool) -> bool {
    let mut v: Vec<u16> = Vec::with_capacity(32);
    for &u1 in AFTER_PAIR16.iter() {
        for &u2 in AFTER_PAIR16.iter() {
            for &u3 in AFTER_PAIR16.iter() {
                for pre in [0usize, 3, 14] {
                    v.clear();
                    v.extend((0..pre).map(|i| 0x61 + i as u16));
                    v.extend_from_slice(&[0xD83D, 0xDD75, u1, u2, u3]);
                    if pre != 3 {
                        v.extend_from_slice(&[0x7A, 0x7A]);
                    }
                    if !f(&v) {
                        return false;
                    }
                }
            }
        }
    }
    true
}
