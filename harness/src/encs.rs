//! The 40 encodings, by constant name.
use encoding_rs::*;

pub static ALL: [(&str, &Encoding); 40] = [
    ("BIG5", BIG5),
    ("EUC_JP", EUC_JP),
    ("EUC_KR", EUC_KR),
    ("GBK", GBK),
    ("IBM866", IBM866),
    ("ISO_2022_JP", ISO_2022_JP),
    ("ISO_8859_10", ISO_8859_10),
    ("ISO_8859_13", ISO_8859_13),
    ("ISO_8859_14", ISO_8859_14),
    ("ISO_8859_15", ISO_8859_15),
    ("ISO_8859_16", ISO_8859_16),
    ("ISO_8859_2", ISO_8859_2),
    ("ISO_8859_3", ISO_8859_3),
    ("ISO_8859_4", ISO_8859_4),
    ("ISO_8859_5", ISO_8859_5),
    ("ISO_8859_6", ISO_8859_6),
    ("ISO_8859_7", ISO_8859_7),
    ("ISO_8859_8", ISO_8859_8),
    ("ISO_8859_8_I", ISO_8859_8_I),
    ("KOI8_R", KOI8_R),
    ("KOI8_U", KOI8_U),
    ("SHIFT_JIS", SHIFT_JIS),
    ("UTF_16BE", UTF_16BE),
    ("UTF_16LE", UTF_16LE),
    ("UTF_8", UTF_8),
    ("GB18030", GB18030),
    ("MACINTOSH", MACINTOSH),
    ("REPLACEMENT", REPLACEMENT),
    ("WINDOWS_1250", WINDOWS_1250),
    ("WINDOWS_1251", WINDOWS_1251),
    ("WINDOWS_1252", WINDOWS_1252),
    ("WINDOWS_1253", WINDOWS_1253),
    ("WINDOWS_1254", WINDOWS_1254),
    ("WINDOWS_1255", WINDOWS_1255),
    ("WINDOWS_1256", WINDOWS_1256),
    ("WINDOWS_1257", WINDOWS_1257),
    ("WINDOWS_1258", WINDOWS_1258),
    ("WINDOWS_874", WINDOWS_874),
    ("X_MAC_CYRILLIC", X_MAC_CYRILLIC),
    ("X_USER_DEFINED", X_USER_DEFINED),
];

/// WHATWG names for the 40 encodings (frozen here; `Encoding::name()` is checked against it in C13/C20).
pub static NAMES: [&str; 40] = [
    "Big5", "EUC-JP", "EUC-KR", "GBK", "IBM866", "ISO-2022-JP", "ISO-8859-10", "ISO-8859-13",
    "ISO-8859-14", "ISO-8859-15", "ISO-8859-16", "ISO-8859-2", "ISO-8859-3", "ISO-8859-4",
    "ISO-8859-5", "ISO-8859-6", "ISO-8859-7", "ISO-8859-8", "ISO-8859-8-I", "KOI8-R", "KOI8-U",
    "Shift_JIS", "UTF-16BE", "UTF-16LE", "UTF-8", "gb18030", "macintosh", "replacement",
    "windows-1250", "windows-1251", "windows-1252", "windows-1253", "windows-1254", "windows-1255",
    "windows-1256", "windows-1257", "windows-1258", "windows-874", "x-mac-cyrillic", "x-user-defined",
];

pub fn by_const(name: &str) -> Option<&'static Encoding> {
    ALL.iter().find(|(n, _)| *n == name).map(|(_, e)| *e)
}

pub fn const_name(enc: &'static Encoding) -> &'static str {
    ALL.iter().find(|(_, e)| std::ptr::eq(*e, enc)).map(|(n, _)| *n).unwrap_or("?")
}

pub fn index_of(enc: &'static Encoding) -> usize {
    ALL.iter().position(|(_, e)| std::ptr::eq(*e, enc)).unwrap()
}

/// multi-byte / stateful encodings (the ones with interesting decoders)
pub fn multibyte() -> Vec<&'static Encoding> {
    vec![BIG5, EUC_JP, EUC_KR, GBK, GB18030, ISO_2022_JP, SHIFT_JIS, UTF_8, UTF_16BE, UTF_16LE, REPLACEMENT]
}

/// a representative subset of single-byte encodings for history-style checks
pub fn single_byte_sample() -> Vec<&'static Encoding> {
    vec![WINDOWS_1252, WINDOWS_1255, ISO_8859_8, WINDOWS_874, KOI8_U, IBM866, ISO_8859_6, X_USER_DEFINED]
}

pub fn all() -> Vec<&'static Encoding> {
    ALL.iter().map(|(_, e)| *e).collect()
}
