//! Small framework shared by all checks: deterministic parallel runner, seeded proptest
//! generation, statistics for evidence, shrinking, replay files, known findings.

use proptest::strategy::{Strategy, ValueTree};
use proptest::test_runner::{Config, RngAlgorithm, TestRng, TestRunner};
use serde_json::{json, Map, Value};
use std::collections::{BTreeMap, HashSet};
use std::sync::atomic::{AtomicBool, AtomicUsize, Ordering};
use std::sync::Mutex;

#[derive(Clone, Copy, PartialEq, Eq, Debug)]
pub enum Tier {
    Quick,
    Thorough,
}

impl Tier {
    pub fn name(self) -> &'static str {
        match self {
            Tier::Quick => "quick",
            Tier::Thorough => "thorough",
        }
    }
    /// pick a budget by tier
    pub fn pick<T>(self, quick: T, thorough: T) -> T {
        match self {
            Tier::Quick => quick,
            Tier::Thorough => thorough,
        }
    }
}

pub fn cfg_name() -> &'static str {
    if let Some(c) = option_env!("ENCVERIF_CFG") {
        return c;
    }
    "unknown"
}

pub fn is_simd() -> bool {
    cfg!(feature = "simd") || cfg!(feature = "simd0")
}

pub struct Ctx {
    pub prop: String,
    pub tier: Tier,
    pub seed: u64,
    pub threads: usize,
    /// scale factor for budgets (VERIF_SCALE, default 1.0) - used by mutation runs to shorten
    pub scale: f64,
}

impl Ctx {
    pub fn n(&self, quick: u64, thorough: u64) -> u64 {
        // the thorough random budgets were sized for a slower harness; 4x keeps a full thorough
        // run of all properties around two hours on 16 cores
        let b = self.tier.pick(quick, thorough * 4) as f64 * self.scale;
        (b as u64).max(1)
    }
}

#[derive(Clone, Debug)]
pub struct Violation {
    /// one-line description of what failed
    pub msg: String,
    /// signature used to match KNOWN_FINDINGS.json entries
    pub sig: String,
    /// self-contained replay case
    pub case: Value,
}

#[derive(Default)]
pub struct Stats {
    pub evals: u64,
    pub nontrivial_enum: u64,
    pub nontrivial_hashes: HashSet<u64>,
    pub classes: BTreeMap<String, u64>,
    pub samples: Vec<Value>,
    pub violations: Vec<Violation>,
    pub known_hits: BTreeMap<String, u64>,
    pub exhaustive: Vec<String>,
    pub notes: Vec<String>,
    /// the whole space of the property was enumerated (finite properties)
    pub fully_exhaustive: bool,
}

impl Stats {
    pub fn new() -> Stats {
        Stats::default()
    }
    #[inline]
    pub fn class(&mut self, name: &str) {
        self.class_n(name, 1);
    }
    pub fn class_n(&mut self, name: &str, n: u64) {
        if let Some(c) = self.classes.get_mut(name) {
            *c += n;
        } else {
            self.classes.insert(name.to_string(), n);
        }
    }
    /// a non-trivial case that is distinct by construction (enumerations)
    #[inline]
    pub fn nontrivial_distinct(&mut self) {
        self.nontrivial_enum += 1;
    }
    /// a non-trivial case identified by a hash of its content (random generation)
    #[inline]
    pub fn nontrivial_hash(&mut self, h: u64) {
        self.nontrivial_hashes.insert(h);
    }
    pub fn sample(&mut self, max: usize, f: impl FnOnce() -> Value) {
        if self.samples.len() < max {
            self.samples.push(f());
        }
    }
    pub fn merge(&mut self, o: Stats) {
        self.evals += o.evals;
        self.nontrivial_enum += o.nontrivial_enum;
        if self.nontrivial_hashes.is_empty() {
            self.nontrivial_hashes = o.nontrivial_hashes;
        } else {
            self.nontrivial_hashes.extend(o.nontrivial_hashes);
        }
        for (k, v) in o.classes {
            *self.classes.entry(k).or_insert(0) += v;
        }
        for s in o.samples {
            if self.samples.len() < 24 {
                self.samples.push(s);
            }
        }
        self.violations.extend(o.violations);
        for (k, v) in o.known_hits {
            *self.known_hits.entry(k).or_insert(0) += v;
        }
        for e in o.exhaustive {
            if !self.exhaustive.contains(&e) {
                self.exhaustive.push(e);
            }
        }
        self.fully_exhaustive |= o.fully_exhaustive;
        for e in o.notes {
            if !self.notes.contains(&e) {
                self.notes.push(e);
            }
        }
    }
    /// Record a violation unless it matches an open known finding (then it is counted and the
    /// search continues).  Returns true if it was recorded as a new violation.
    pub fn push_violation(&mut self, v: Violation) -> bool {
        if let Some(id) = known_open_id(&v.sig) {
            *self.known_hits.entry(id.to_string()).or_insert(0) += 1;
            false
        } else {
            self.violations.push(v);
            true
        }
    }
    pub fn known_hit(&mut self, id: &str) {
        *self.known_hits.entry(id.to_string()).or_insert(0) += 1;
    }
    pub fn distinct_nontrivial(&self) -> u64 {
        self.nontrivial_enum + self.nontrivial_hashes.len() as u64
    }
}

static STOP: AtomicBool = AtomicBool::new(false);

pub fn should_stop() -> bool {
    STOP.load(Ordering::Relaxed)
}

pub fn request_stop() {
    STOP.store(true, Ordering::Relaxed);
}

/// Run `parts` independent, deterministic work items on `ctx.threads` threads.  Each part gets
/// its own `Stats`; results are merged in part order so the outcome does not depend on
/// scheduling.  A part that records a violation asks the others to stop early.
pub fn par_run<F>(ctx: &Ctx, parts: usize, f: F) -> Stats
where
    F: Fn(usize, &mut Stats) + Sync,
{
    let next = AtomicUsize::new(0);
    let results: Mutex<Vec<(usize, Stats)>> = Mutex::new(Vec::new());
    let nthreads = ctx.threads.min(parts).max(1);
    std::thread::scope(|s| {
        for _ in 0..nthreads {
            s.spawn(|| loop {
                let p = next.fetch_add(1, Ordering::SeqCst);
                if p >= parts || should_stop() {
                    break;
                }
                let mut st = Stats::new();
                f(p, &mut st);
                if !st.violations.is_empty() {
                    request_stop();
                }
                results.lock().unwrap().push((p, st));
            });
        }
    });
    let mut v = results.into_inner().unwrap();
    v.sort_by_key(|x| x.0);
    let mut total = Stats::new();
    for (_, st) in v {
        total.merge(st);
    }
    total
}

pub fn fnv(data: &[u8]) -> u64 {
    let mut h: u64 = 0xcbf29ce484222325;
    for b in data {
        h ^= *b as u64;
        h = h.wrapping_mul(0x100000001b3);
    }
    h
}

pub fn mix(a: u64, b: u64) -> u64 {
    let mut x = a ^ b.wrapping_mul(0x9E3779B97F4A7C15);
    x ^= x >> 30;
    x = x.wrapping_mul(0xBF58476D1CE4E5B9);
    x ^= x >> 27;
    x = x.wrapping_mul(0x94D049BB133111EB);
    x ^= x >> 31;
    x
}

/// A proptest runner whose RNG is a pure function of (VERIF_SEED, property, stream id).
pub fn runner(ctx: &Ctx, stream: u64) -> TestRunner {
    let mut seed = [0u8; 32];
    let a = mix(ctx.seed, fnv(ctx.prop.as_bytes()));
    let b = mix(a, stream);
    let c = mix(b, 0x1234_5678);
    let d = mix(c, a);
    seed[0..8].copy_from_slice(&a.to_le_bytes());
    seed[8..16].copy_from_slice(&b.to_le_bytes());
    seed[16..24].copy_from_slice(&c.to_le_bytes());
    seed[24..32].copy_from_slice(&d.to_le_bytes());
    let rng = TestRng::from_seed(RngAlgorithm::ChaCha, &seed);
    TestRunner::new_with_rng(Config { failure_persistence: None, ..Config::default() }, rng)
}

/// Generate `n` cases from `strategy` and run `check` on each; on the first failing case the
/// proptest value tree is shrunk (simplify/complicate) while it keeps failing, and the
/// violation of the minimal case is recorded.  `check` returns the violations of one case and
/// may update statistics; statistics are not updated during shrinking.
pub fn run_random<S, F>(ctx: &Ctx, stream: u64, n: u64, strategy: &S, st: &mut Stats, check: F)
where
    S: Strategy,
    F: Fn(&S::Value, &mut Stats) -> Vec<Violation>,
{
    let mut r = runner(ctx, stream);
    for i in 0..n {
        if i % 64 == 0 && should_stop() {
            return;
        }
        let mut tree = match strategy.new_tree(&mut r) {
            Ok(t) => t,
            Err(_) => continue,
        };
        let v = tree.current();
        st.evals += 1;
        let viols: Vec<Violation> = check(&v, st)
            .into_iter()
            .filter(|x| match known_open_id(&x.sig) {
                Some(id) => {
                    st.known_hit(id);
                    false
                }
                None => true,
            })
            .collect();
        if viols.is_empty() {
            continue;
        }
        // shrink
        let mut best = viols;
        let mut scratch = Stats::new();
        let mut steps = 0;
        'outer: while steps < 4000 {
            if !tree.simplify() {
                break;
            }
            loop {
                steps += 1;
                let cur = tree.current();
                let vv: Vec<Violation> = check(&cur, &mut scratch).into_iter().filter(|x| known_open_id(&x.sig).is_none()).collect();
                if !vv.is_empty() {
                    best = vv;
                    continue 'outer;
                }
                if !tree.complicate() || steps >= 4000 {
                    break 'outer;
                }
            }
        }
        // after the loop the tree may sit on a passing value; `best` holds the last failing one
        st.violations.extend(best.into_iter().take(1));
        return;
    }
}

/// Greedy shrinking for enumerated cases: `candidates` proposes simpler variants, the first
/// one that still fails replaces the case, until none fails or the step budget is used up.
pub fn shrink_greedy<C: Clone>(
    case: C,
    candidates: impl Fn(&C) -> Vec<C>,
    fails: impl Fn(&C) -> bool,
) -> C {
    let mut cur = case;
    let mut steps = 0;
    'outer: loop {
        for cand in candidates(&cur) {
            steps += 1;
            if steps > 3000 {
                break 'outer;
            }
            if fails(&cand) {
                cur = cand;
                continue 'outer;
            }
        }
        break;
    }
    cur
}

pub fn hex(b: &[u8]) -> String {
    let mut s = String::with_capacity(b.len() * 2);
    for x in b {
        s.push_str(&format!("{:02X}", x));
    }
    s
}

pub fn unhex(s: &str) -> Vec<u8> {
    let s: Vec<u8> = s.bytes().filter(|b| b.is_ascii_hexdigit()).collect();
    s.chunks(2).map(|c| u8::from_str_radix(std::str::from_utf8(c).unwrap(), 16).unwrap()).collect()
}

pub fn hex16(b: &[u16]) -> String {
    b.iter().map(|x| format!("{:04X}", x)).collect::<Vec<_>>().join(" ")
}

pub fn unhex16(s: &str) -> Vec<u16> {
    s.split_whitespace().map(|x| u16::from_str_radix(x, 16).unwrap()).collect()
}

pub fn hex32(b: &[u32]) -> String {
    b.iter().map(|x| format!("{:X}", x)).collect::<Vec<_>>().join(" ")
}

pub fn unhex32(s: &str) -> Vec<u32> {
    s.split_whitespace().map(|x| u32::from_str_radix(x, 16).unwrap()).collect()
}

// ------------------------------------------------------------------------------------------
// Known findings

#[derive(Clone, Debug)]
pub struct KnownFinding {
    pub id: String,
    pub property: String,
    pub status: String, // "open" | "fixed"
    pub signature: String,
    pub what: String,
}

static KNOWN_OPEN: std::sync::OnceLock<Vec<KnownFinding>> = std::sync::OnceLock::new();

/// Load the open known findings of the property being checked (call once at start-up).
pub fn init_known(prop: &str) {
    let all = load_known_findings(&verif_root());
    let _ = KNOWN_OPEN.set(all.into_iter().filter(|k| k.status == "open" && k.property == prop && !k.signature.is_empty()).collect());
}

/// If `sig` is the signature of an open known finding of this property, its id.
pub fn known_open_id(sig: &str) -> Option<&'static str> {
    KNOWN_OPEN.get().and_then(|v| v.iter().find(|k| k.signature == sig).map(|k| k.id.as_str()))
}

pub fn load_known_findings(verif_root: &str) -> Vec<KnownFinding> {
    let p = format!("{}/KNOWN_FINDINGS.json", verif_root);
    let text = match std::fs::read_to_string(&p) {
        Ok(t) => t,
        Err(_) => return Vec::new(),
    };
    let v: Value = serde_json::from_str(&text).expect("KNOWN_FINDINGS.json must be valid JSON");
    let mut out = Vec::new();
    if let Some(arr) = v.get("findings").and_then(|x| x.as_array()) {
        for f in arr {
            let g = |k: &str| f.get(k).and_then(|x| x.as_str()).unwrap_or("").to_string();
            let props: Vec<String> = match f.get("properties").and_then(|x| x.as_array()) {
                Some(a) => a.iter().filter_map(|x| x.as_str().map(|s| s.to_string())).collect(),
                None => vec![g("property")],
            };
            for p in props {
                out.push(KnownFinding {
                    id: g("id"),
                    property: p,
                    status: g("status"),
                    signature: g("signature"),
                    what: g("what"),
                });
            }
        }
    }
    out
}

// ------------------------------------------------------------------------------------------
// Finishing a check: evidence part, replay file, exit code

pub struct Outcome {
    pub exit: i32,
}

pub fn verif_root() -> String {
    std::env::var("VERIF_ROOT").unwrap_or_else(|_| "/verif".to_string())
}

pub fn finish(ctx: &Ctx, mut st: Stats, rule: &str, assumptions: &[&str], wall_s: f64) -> Outcome {
    let root = verif_root();
    let known = load_known_findings(&root);
    // split violations into known (open, matching signature) and new
    let mut new_violations: Vec<Violation> = Vec::new();
    for v in st.violations.drain(..) {
        let hit = known
            .iter()
            .find(|k| k.status == "open" && k.property == ctx.prop && !k.signature.is_empty() && v.sig == k.signature);
        match hit {
            Some(k) => {
                *st.known_hits.entry(k.id.clone()).or_insert(0) += 1;
            }
            None => new_violations.push(v),
        }
    }
    let mut exit = 0;
    let mut replay_paths = Vec::new();
    if let Some(v) = new_violations.first() {
        let dir = format!("{}/replays/tmp", root);
        let _ = std::fs::create_dir_all(&dir);
        let body = json!({
            "property": ctx.prop,
            "cfg": cfg_name(),
            "msg": v.msg,
            "sig": v.sig,
            "case": v.case,
        });
        let text = serde_json::to_string_pretty(&body).unwrap();
        let path = format!("{}/{}-{}-{:016x}.json", dir, ctx.prop, cfg_name(), fnv(text.as_bytes()));
        std::fs::write(&path, text).expect("write replay");
        println!("VIOLATION property={} replay={}", ctx.prop, path);
        println!("  what: {}", v.msg);
        replay_paths.push(path);
        exit = 1;
    }
    let mut cov = Map::new();
    cov.insert("evaluations".into(), json!(st.evals));
    cov.insert("distinct_nontrivial".into(), json!(st.distinct_nontrivial()));
    cov.insert("rule".into(), json!(rule));
    cov.insert("samples".into(), Value::Array(st.samples.clone()));
    cov.insert("classes".into(), json!(st.classes));
    cov.insert("exhaustive_subspaces".into(), json!(st.exhaustive));
    cov.insert("known_finding_hits".into(), json!(st.known_hits));
    cov.insert("notes".into(), json!(st.notes));
    cov.insert("config".into(), json!(cfg_name()));
    if st.fully_exhaustive {
        cov.insert("exhaustive".into(), json!(true));
    }
    let ev = json!({
        "property_id": ctx.prop,
        "tier": ctx.tier.name(),
        "seed": ctx.seed,
        "level": "exploration",
        "coverage": Value::Object(cov),
        "assumptions": assumptions,
        "wall_s": wall_s,
        "violations": new_violations.len().min(1),
        "replays": replay_paths,
    });
    let dir = format!("{}/evidence/parts", root);
    let _ = std::fs::create_dir_all(&dir);
    let path = format!("{}/{}.{}.json", dir, ctx.prop, cfg_name());
    std::fs::write(&path, serde_json::to_string_pretty(&ev).unwrap()).expect("write evidence part");
    println!(
        "[{} {} cfg={}] evaluations={} distinct_nontrivial={} violations={} wall={:.1}s",
        ctx.prop,
        ctx.tier.name(),
        cfg_name(),
        st.evals,
        st.distinct_nontrivial(),
        new_violations.len().min(1),
        wall_s
    );
    Outcome { exit }
}

// ------------------------------------------------------------------------------------------
// panic capture

thread_local! {
    static IN_CATCH: std::cell::Cell<u32> = const { std::cell::Cell::new(0) };
}

/// Run `f`, turning a panic into Err(message).  Panics inside `catch` are silent; panics of the
/// harness itself (outside `catch`) are printed by the hook installed below.
pub fn catch<R>(f: impl FnOnce() -> R) -> Result<R, String> {
    IN_CATCH.with(|c| c.set(c.get() + 1));
    let r = std::panic::catch_unwind(std::panic::AssertUnwindSafe(f));
    IN_CATCH.with(|c| c.set(c.get() - 1));
    match r {
        Ok(r) => Ok(r),
        Err(e) => {
            let msg = if let Some(s) = e.downcast_ref::<&str>() {
                s.to_string()
            } else if let Some(s) = e.downcast_ref::<String>() {
                s.clone()
            } else {
                "panic (non-string payload)".to_string()
            };
            Err(msg)
        }
    }
}

pub fn install_quiet_panic_hook() {
    let default = std::panic::take_hook();
    std::panic::set_hook(Box::new(move |info| {
        let inside = IN_CATCH.with(|c| c.get()) > 0;
        if !inside {
            default(info);
        }
    }));
}
