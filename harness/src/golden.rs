//! Frozen golden data (WHATWG indexes, gb18030 ranges, labels) loaded from /verif/data.
//! Nothing here comes from /repo/src at run time; see data/PROVENANCE.md.

use std::collections::HashMap;
use std::sync::OnceLock;

/// One index entry: up to two code points (Big5 has four two-code-point entries).
#[derive(Clone, Copy, PartialEq, Eq, Debug)]
pub enum Cell {
    Null,
    One(u32),
    Two(u32, u32),
}

impl Cell {
    pub fn first(self) -> Option<u32> {
        match self {
            Cell::Null => None,
            Cell::One(a) => Some(a),
            Cell::Two(a, _) => Some(a),
        }
    }
}

fn parse_index(text: &str) -> Vec<Cell> {
    let mut v = Vec::new();
    for line in text.lines() {
        let line = line.trim();
        if line == "-" {
            v.push(Cell::Null);
            continue;
        }
        let mut it = line.split(' ');
        let a = u32::from_str_radix(it.next().unwrap(), 16).unwrap();
        match it.next() {
            None => v.push(Cell::One(a)),
            Some(b) => v.push(Cell::Two(a, u32::from_str_radix(b, 16).unwrap())),
        }
    }
    v
}

pub struct Golden {
    pub big5: Vec<Cell>,
    pub euc_kr: Vec<Cell>,
    pub gb18030: Vec<Cell>,
    pub jis0208: Vec<Cell>,
    pub jis0212: Vec<Cell>,
    /// (name, 128 cells for bytes 0x80..=0xFF; None = unmapped)
    pub single_byte: Vec<(String, [Option<u16>; 128])>,
    /// gb18030 ranges: (pointer, code point) rows, ascending
    pub ranges: Vec<(u32, u32)>,
    /// (label, constant name e.g. "WINDOWS_1252")
    pub labels: Vec<(String, String)>,
    // encoder-side maps: code point -> pointer according to the Standard's rules
    pub big5_enc: HashMap<u32, u32>,
    pub euc_kr_enc: HashMap<u32, u32>,
    pub jis0208_enc: HashMap<u32, u32>,
    pub sjis_enc: HashMap<u32, u32>,
    pub gb18030_enc: HashMap<u32, u32>,
}

fn first_pointer(idx: &[Cell], lo: usize, excl: Option<(usize, usize)>) -> HashMap<u32, u32> {
    let mut m = HashMap::new();
    for (p, c) in idx.iter().enumerate() {
        if p < lo {
            continue;
        }
        if let Some((a, b)) = excl {
            if p >= a && p <= b {
                continue;
            }
        }
        if let Cell::One(cp) = *c {
            m.entry(cp).or_insert(p as u32);
        }
    }
    m
}

pub fn golden() -> &'static Golden {
    static G: OnceLock<Golden> = OnceLock::new();
    G.get_or_init(|| {
        let big5 = parse_index(include_str!("../../data/index-big5.txt"));
        let euc_kr = parse_index(include_str!("../../data/index-euc-kr.txt"));
        let gb18030 = parse_index(include_str!("../../data/index-gb18030.txt"));
        let jis0208 = parse_index(include_str!("../../data/index-jis0208.txt"));
        let jis0212 = parse_index(include_str!("../../data/index-jis0212.txt"));
        let mut single_byte = Vec::new();
        for line in include_str!("../../data/index-single-byte.txt").lines() {
            let mut it = line.split(' ');
            let name = it.next().unwrap().to_string();
            let mut cells = [None; 128];
            for (i, c) in it.enumerate() {
                cells[i] = if c == "-" { None } else { Some(u16::from_str_radix(c, 16).unwrap()) };
            }
            single_byte.push((name, cells));
        }
        let mut ranges = Vec::new();
        for line in include_str!("../../data/gb18030-ranges.txt").lines() {
            let mut it = line.split(' ');
            let p: u32 = it.next().unwrap().parse().unwrap();
            let cp = u32::from_str_radix(it.next().unwrap(), 16).unwrap();
            ranges.push((p, cp));
        }
        let mut labels = Vec::new();
        for line in include_str!("../../data/labels.txt").lines() {
            let mut it = line.split(' ');
            labels.push((it.next().unwrap().to_string(), it.next().unwrap().to_string()));
        }
        // Big5 encoder: index big5 pointer excludes pointers < (0xA1-0x81)*157; for the six
        // listed code points the *last* pointer is used, otherwise the first.
        let mut big5_enc = first_pointer(&big5, (0xA1 - 0x81) * 157, None);
        for cp in [0x2550u32, 0x255E, 0x2561, 0x256A, 0x5341, 0x5345] {
            let mut last = None;
            for (p, c) in big5.iter().enumerate() {
                if *c == Cell::One(cp) {
                    last = Some(p as u32);
                }
            }
            big5_enc.insert(cp, last.unwrap());
        }
        let euc_kr_enc = first_pointer(&euc_kr, 0, None);
        let jis0208_enc = first_pointer(&jis0208, 0, None);
        let sjis_enc = first_pointer(&jis0208, 0, Some((8272, 8835)));
        let gb18030_enc = first_pointer(&gb18030, 0, None);
        Golden {
            big5,
            euc_kr,
            gb18030,
            jis0208,
            jis0212,
            single_byte,
            ranges,
            labels,
            big5_enc,
            euc_kr_enc,
            jis0208_enc,
            sjis_enc,
            gb18030_enc,
        }
    })
}

impl Golden {
    pub fn single_byte_index(&self, name: &str) -> Option<&[Option<u16>; 128]> {
        self.single_byte.iter().find(|(n, _)| n == name).map(|(_, c)| c)
    }

    /// "index gb18030 ranges code point" of the Standard.
    pub fn gb18030_ranges_code_point(&self, pointer: u32) -> Option<u32> {
        if (pointer > 39419 && pointer < 189000) || pointer > 1237575 {
            return None;
        }
        if pointer == 7457 {
            return Some(0xE7C7);
        }
        if pointer >= 189000 {
            return Some(0x10000 + pointer - 189000);
        }
        let i = match self.ranges.binary_search_by(|r| r.0.cmp(&pointer)) {
            Ok(i) => i,
            Err(0) => return None,
            Err(i) => i - 1,
        };
        let (off, cp_off) = self.ranges[i];
        Some(cp_off + pointer - off)
    }

    /// "index gb18030 ranges pointer" of the Standard.
    pub fn gb18030_ranges_pointer(&self, cp: u32) -> u32 {
        if cp == 0xE7C7 {
            return 7457;
        }
        if cp >= 0x10000 {
            return 189000 + cp - 0x10000;
        }
        let i = match self.ranges.binary_search_by(|r| r.1.cmp(&cp)) {
            Ok(i) => i,
            Err(0) => 0,
            Err(i) => i - 1,
        };
        let (off, cp_off) = self.ranges[i];
        off + cp - cp_off
    }
}

/// The GB18030-2022 encoder-side overrides of the Standard (typed in from the Standard's
/// gb18030 encoder, step "If is GBK is false / index gb18030 ... "): private-use code points
/// that keep encoding to their old two-byte forms.
pub const GB18030_2022_OVERRIDES: [(u32, u8, u8); 18] = [
    (0xE78D, 0xA6, 0xD9),
    (0xE78E, 0xA6, 0xDA),
    (0xE78F, 0xA6, 0xDB),
    (0xE790, 0xA6, 0xDC),
    (0xE791, 0xA6, 0xDD),
    (0xE792, 0xA6, 0xDE),
    (0xE793, 0xA6, 0xDF),
    (0xE794, 0xA6, 0xEC),
    (0xE795, 0xA6, 0xED),
    (0xE796, 0xA6, 0xF3),
    (0xE81E, 0xFE, 0x59),
    (0xE826, 0xFE, 0x61),
    (0xE82B, 0xFE, 0x66),
    (0xE82C, 0xFE, 0x67),
    (0xE832, 0xFE, 0x6D),
    (0xE843, 0xFE, 0x7E),
    (0xE854, 0xFE, 0x90),
    (0xE864, 0xFE, 0xA0),
];

/// Index ISO-2022-JP katakana (63 entries, for U+FF61..=U+FF9F), typed in from the Standard.
pub const ISO2022JP_KATAKANA: [u16; 63] = [
    0x3002, 0x300C, 0x300D, 0x3001, 0x30FB, 0x30F2, 0x30A1, 0x30A3, 0x30A5, 0x30A7, 0x30A9, 0x30E3,
    0x30E5, 0x30E7, 0x30C3, 0x30FC, 0x30A2, 0x30A4, 0x30A6, 0x30A8, 0x30AA, 0x30AB, 0x30AD, 0x30AF,
    0x30B1, 0x30B3, 0x30B5, 0x30B7, 0x30B9, 0x30BB, 0x30BD, 0x30BF, 0x30C1, 0x30C4, 0x30C6, 0x30C8,
    0x30CA, 0x30CB, 0x30CC, 0x30CD, 0x30CE, 0x30CF, 0x30D2, 0x30D5, 0x30D8, 0x30DB, 0x30DE, 0x30DF,
    0x30E0, 0x30E1, 0x30E2, 0x30E4, 0x30E6, 0x30E8, 0x30E9, 0x30EA, 0x30EB, 0x30EC, 0x30ED, 0x30EF,
    0x30F3, 0x309B, 0x309C,
];
