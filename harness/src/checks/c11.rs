//! C11 - one-shot convenience API equals the streaming API and borrows only when promised.
use crate::drive_dec::{BomMode, DecDriver, DecHistory, Sink};
use crate::drive_enc::{EncDriver, EncHistory, Src};
use crate::encs;
use crate::fw::{self, par_run, Ctx, Stats, Violation};
use crate::gen;
use crate::hist_enc;
use crate::model_dec::algo_for;
use crate::model_enc::enc_algo_for;
use encoding_rs::*;
use serde_json::{json, Value};
use std::borrow::Cow;
use std::time::Instant;

pub const RULE: &str = "case = (encoding, method, complete input): byte strings with the first non-ASCII / invalid / state-changing unit at every offset 0..=130 (covering every offset modulo 64 and the 16/32/64-byte stride and SIMD-validator thresholds) followed by 0, 1, 63, 64, 65 or 1000 more bytes, ASCII-only, valid and invalid UTF-8, BOM-prefixed, and seeded grammar streams; for encode: mappable, unmappable-heavy (forces the regrowth path) and ISO-2022-JP ASCII-state-only texts; runs of k copies of one unit followed by another for EVERY k up to 300 (decode: 140), because the one-shot methods size their output from an estimate and grow it in steps; ASCII / near-ASCII / UTF-8 inputs of 64 KiB to 16 MiB (thorough 32 MiB) for the borrow promise. Oracle = differential against the streaming converter of the same build fed the whole input in one call with an ample buffer (text/bytes, error flag, encoding used); *_without_replacement is None iff that run saw a Malformed; Cow::Borrowed iff the documented promise applies, computed from the input by definition (after BOM removal: valid UTF-8 for UTF-8, ASCII-only for ASCII-compatible encodings, ASCII-state-only for ISO-2022-JP; any input when the output encoding is UTF-8; no assertion for empty input), and a borrow's pointer range is exactly the argument minus its BOM. Encoding::decode for UTF-8 is additionally run with the scalar UTF-8 validator forced through the hook. Non-trivial = input that is not borrowable; distinct = distinct (method, encoding, input).";

fn case_json(enc: &'static Encoding, method: &str, bytes: &[u8]) -> Value {
    json!({"kind": "c11", "encoding": encs::const_name(enc), "method": method, "input_hex": fw::hex(bytes)})
}

fn aliases(c: &Cow<str>, arg: &[u8], bomlen: usize) -> Option<bool> {
    match c {
        Cow::Borrowed(s) => Some(s.as_ptr() == arg[bomlen..].as_ptr() && s.len() == arg.len() - bomlen),
        Cow::Owned(_) => None,
    }
}

fn promised_decode(enc_used: &'static Encoding, rest: &[u8]) -> bool {
    if enc_used == UTF_8 {
        std::str::from_utf8(rest).is_ok()
    } else if enc_used == ISO_2022_JP {
        rest.iter().all(|b| *b < 0x80 && !matches!(*b, 0x1B | 0x0E | 0x0F))
    } else if enc_used == REPLACEMENT || enc_used == UTF_16LE || enc_used == UTF_16BE {
        false
    } else {
        rest.iter().all(|b| *b < 0x80)
    }
}

/// streaming reference through the driver
fn streaming(drv: &mut DecDriver, enc: &'static Encoding, mode: BomMode, repl: bool, bytes: &[u8]) -> Result<(Vec<u8>, bool, Option<&'static Encoding>, bool), String> {
    let h = DecHistory::simple(enc, mode, Sink::String, repl, bytes);
    let out = drv.run(&h);
    if !out.completed || !out.faults.is_empty() {
        return Err(out.faults.first().map(|f| f.msg.clone()).unwrap_or_else(|| "streaming run did not complete".into()));
    }
    let saw_malformed = !out.errors.is_empty();
    Ok((out.out8, out.had_errors, out.final_enc, saw_malformed))
}

thread_local! {
    static SHIFT_BUF: std::cell::RefCell<Vec<u8>> = const { std::cell::RefCell::new(Vec::new()) };
}

pub fn check_decode(enc: &'static Encoding, bytes_in: &[u8], drv: &mut DecDriver, st: Option<&mut Stats>) -> Option<(String, String)> {
    // the argument is presented at a start address that varies with its contents (0..=15 bytes after
    // a 16-byte boundary): the prefix scans of the one-shot methods work a word or a vector at a time
    SHIFT_BUF.with(|b| {
        let mut b = b.borrow_mut();
        let shift = (fw::fnv(&bytes_in[..bytes_in.len().min(64)]) % 16) as usize;
        let need = bytes_in.len() + 32;
        if b.len() < need {
            b.resize(need, 0);
        }
        let base = (16 - (b.as_ptr() as usize & 15)) & 15;
        let off = base + shift;
        b[off..off + bytes_in.len()].copy_from_slice(bytes_in);
        let r = check_decode_at(enc, &b[off..off + bytes_in.len()], drv, st);
        if b.len() > (1 << 20) {
            // do not keep multi-megabyte scratch buffers alive per thread
            *b = Vec::new();
        }
        r
    })
}

fn check_decode_at(enc: &'static Encoding, bytes: &[u8], drv: &mut DecDriver, st: Option<&mut Stats>) -> Option<(String, String)> {
    let r = {
        let d = crate::guard::Desc { what: "Encoding::decode* (one-shot)", encoding: enc.name(), data: bytes.as_ptr(), len: bytes.len() };
        let _g = crate::guard::enter(&d);
        check_decode_inner(enc, bytes)
    };
    match r {
        Err(e) => Some(e),
        Ok(one) => compare_decode(enc, bytes, drv, one, st),
    }
}

/// results of the four one-shot methods (computed under watchdog registration)
struct OneShot {
    decode: (Option<bool>, String, &'static Encoding, bool),
    removal: (Option<bool>, String, bool),
    plain: (Option<bool>, String, bool, Option<Option<bool>>, Option<String>),
}

fn check_decode_inner(enc: &'static Encoding, bytes: &[u8]) -> Result<OneShot, (String, String)> {
    let (_, bomlen) = super::dech::expected_bom(enc, BomMode::Sniff, bytes);
    let decode = fw::catch(|| {
        let (c, e, h) = enc.decode(bytes);
        (aliases(&c, bytes, bomlen), c.into_owned(), e, h)
    })
    .map_err(|p| ("decode".to_string(), format!("Encoding::decode panicked: {}", p)))?;
    let (_, bomlen2) = super::dech::expected_bom(enc, BomMode::Remove, bytes);
    let removal = fw::catch(|| {
        let (c, h) = enc.decode_with_bom_removal(bytes);
        (aliases(&c, bytes, bomlen2), c.into_owned(), h)
    })
    .map_err(|p| ("decode_with_bom_removal".to_string(), format!("panicked: {}", p)))?;
    let plain = fw::catch(|| {
        let (c, h) = enc.decode_without_bom_handling(bytes);
        let o = enc.decode_without_bom_handling_and_without_replacement(bytes);
        (aliases(&c, bytes, 0), c.into_owned(), h, o.as_ref().map(|c| aliases(c, bytes, 0)), o.map(|c| c.into_owned()))
    })
    .map_err(|p| ("decode_without_bom_handling".to_string(), format!("panicked: {}", p)))?;
    Ok(OneShot { decode, removal, plain })
}

fn compare_decode(enc: &'static Encoding, bytes: &[u8], drv: &mut DecDriver, one: OneShot, st: Option<&mut Stats>) -> Option<(String, String)> {
    let mut nontrivial = false;
    // ---- decode (BOM sniffing)
    {
        let (exp_enc, bomlen) = super::dech::expected_bom(enc, BomMode::Sniff, bytes);
        let (al, text, e, h) = one.decode;
        let (stext, shad, senc, _) = match streaming(drv, enc, BomMode::Sniff, true, bytes) {
            Ok(x) => x,
            Err(m) => return Some(("decode".into(), format!("streaming reference failed: {}", m))),
        };
        if text.as_bytes() != &stext[..] {
            return Some(("decode".into(), format!("Encoding::decode text differs from the streaming decoder: one-shot {} streaming {}", fw::hex(text.as_bytes()), fw::hex(&stext))));
        }
        if h != shad {
            return Some(("decode".into(), format!("Encoding::decode had_errors {} but streaming {}", h, shad)));
        }
        if Some(e.name()) != senc.map(|x| x.name()) || e.name() != exp_enc.name() {
            return Some(("decode".into(), format!("Encoding::decode reports encoding {} but streaming reports {:?} and the BOM rule gives {}", e.name(), senc.map(|x| x.name()), exp_enc.name())));
        }
        let rest = &bytes[bomlen..];
        let promised = promised_decode(exp_enc, rest);
        if !promised {
            nontrivial = true;
        }
        if !rest.is_empty() {
            if promised != al.is_some() {
                return Some(("decode".into(), format!("Encoding::decode returned {} but the documentation {} a borrow for this input", if al.is_some() { "a borrow" } else { "an owned String" }, if promised { "promises" } else { "does not promise" })));
            }
        }
        if al == Some(false) {
            return Some(("decode".into(), "Encoding::decode returned a borrow that is not the argument minus its BOM".into()));
        }
    }
    // ---- decode_with_bom_removal
    {
        let (_, bomlen) = super::dech::expected_bom(enc, BomMode::Remove, bytes);
        let (al, text, h) = one.removal;
        let (stext, shad, _, _) = match streaming(drv, enc, BomMode::Remove, true, bytes) {
            Ok(x) => x,
            Err(m) => return Some(("decode_with_bom_removal".into(), format!("streaming reference failed: {}", m))),
        };
        if text.as_bytes() != &stext[..] || h != shad {
            return Some(("decode_with_bom_removal".into(), format!("differs from the streaming BOM-removal decoder: one-shot ({}, {}) streaming ({}, {})", fw::hex(text.as_bytes()), h, fw::hex(&stext), shad)));
        }
        let rest = &bytes[bomlen..];
        let promised = promised_decode(enc, rest);
        if !rest.is_empty() && promised != al.is_some() {
            return Some(("decode_with_bom_removal".into(), format!("returned {} but the documentation {} a borrow for this input", if al.is_some() { "a borrow" } else { "an owned String" }, if promised { "promises" } else { "does not promise" })));
        }
        if al == Some(false) {
            return Some(("decode_with_bom_removal".into(), "returned a borrow that is not the argument minus its BOM".into()));
        }
    }
    // ---- decode_without_bom_handling and ..._and_without_replacement
    {
        let (al, text, h, oal, otext) = one.plain;
        let (stext, shad, _, _) = match streaming(drv, enc, BomMode::None, true, bytes) {
            Ok(x) => x,
            Err(m) => return Some(("decode_without_bom_handling".into(), format!("streaming reference failed: {}", m))),
        };
        if text.as_bytes() != &stext[..] || h != shad {
            return Some(("decode_without_bom_handling".into(), format!("differs from the streaming decoder: one-shot ({}, {}) streaming ({}, {})", fw::hex(text.as_bytes()), h, fw::hex(&stext), shad)));
        }
        let promised = promised_decode(enc, bytes);
        if !bytes.is_empty() && promised != al.is_some() {
            return Some(("decode_without_bom_handling".into(), format!("returned {} but the documentation {} a borrow for this input", if al.is_some() { "a borrow" } else { "an owned String" }, if promised { "promises" } else { "does not promise" })));
        }
        if al == Some(false) {
            return Some(("decode_without_bom_handling".into(), "returned a borrow that does not alias the argument".into()));
        }
        let (rtext, _, _, saw) = match streaming(drv, enc, BomMode::None, false, bytes) {
            Ok(x) => x,
            Err(m) => return Some(("decode_without_bom_handling_and_without_replacement".into(), format!("streaming reference failed: {}", m))),
        };
        match (&otext, saw) {
            (None, false) => return Some(("decode_without_bom_handling_and_without_replacement".into(), "returned None although the streaming decoder reports no malformed sequence".into())),
            (Some(_), true) => return Some(("decode_without_bom_handling_and_without_replacement".into(), "returned Some although the streaming decoder reports a malformed sequence".into())),
            (Some(t), false) => {
                if t.as_bytes() != &rtext[..] {
                    return Some(("decode_without_bom_handling_and_without_replacement".into(), format!("text differs from the streaming decoder: {} vs {}", fw::hex(t.as_bytes()), fw::hex(&rtext))));
                }
                let oa = oal.unwrap();
                if !bytes.is_empty() && promised != oa.is_some() {
                    return Some(("decode_without_bom_handling_and_without_replacement".into(), format!("returned {} but the documentation {} a borrow", if oa.is_some() { "a borrow" } else { "an owned String" }, if promised { "promises" } else { "does not promise" })));
                }
                if oa == Some(false) {
                    return Some(("decode_without_bom_handling_and_without_replacement".into(), "returned a borrow that does not alias the argument".into()));
                }
            }
            (None, true) => {}
        }
    }
    if let Some(st) = st {
        if nontrivial {
            st.class("not-borrowable");
        } else {
            st.class("borrowable");
        }
    }
    None
}

pub fn check_encode(enc: &'static Encoding, text_in: &str, drv: &mut EncDriver) -> Option<String> {
    // as for decode: the argument starts 0..=15 bytes after a 16-byte boundary, depending on its contents
    let shift = (fw::fnv(&text_in.as_bytes()[..text_in.len().min(64)]) % 16) as usize;
    let mut holder: Vec<u8> = vec![b' '; text_in.len() + 32];
    let base = (16 - (holder.as_ptr() as usize & 15)) & 15;
    let off = base + shift;
    holder[off..off + text_in.len()].copy_from_slice(text_in.as_bytes());
    // SAFETY: a byte-for-byte copy of a str
    let text: &str = unsafe { std::str::from_utf8_unchecked(&holder[off..off + text_in.len()]) };
    check_encode_at(enc, text, drv)
}

fn check_encode_at(enc: &'static Encoding, text: &str, drv: &mut EncDriver) -> Option<String> {
    let d = crate::guard::Desc { what: "Encoding::encode (one-shot), input is the text as UTF-8", encoding: enc.name(), data: text.as_ptr(), len: text.len() };
    let _g = crate::guard::enter(&d);
    let r = fw::catch(|| {
        let (c, e, h) = enc.encode(text);
        let al = match &c {
            Cow::Borrowed(b) => Some(b.as_ptr() == text.as_ptr() && b.len() == text.len()),
            Cow::Owned(_) => None,
        };
        (al, c.into_owned(), e, h)
    });
    let (al, bytes, e, h) = match r {
        Ok(x) => x,
        Err(p) => return Some(format!("Encoding::encode panicked: {}", p)),
    };
    let cps: Vec<u32> = text.chars().map(|c| c as u32).collect();
    let hst = EncHistory::simple(enc, Src::Utf8, true, &cps);
    let out = drv.run(&hst);
    if !out.completed || !out.faults.is_empty() {
        return Some(format!("streaming reference failed: {:?}", out.faults.first().map(|f| f.msg.clone())));
    }
    if bytes != out.out {
        return Some(format!("Encoding::encode bytes {} differ from the streaming encoder {}", fw::hex(&bytes), fw::hex(&out.out)));
    }
    if h != out.had_unmappables {
        return Some(format!("Encoding::encode had_unmappables {} but streaming {}", h, out.had_unmappables));
    }
    let oe = enc.output_encoding();
    if e.name() != oe.name() || out.encoder_encoding.map(|x| x.name()) != Some(oe.name()) {
        return Some(format!("Encoding::encode reports encoding {} but output_encoding() is {}", e.name(), oe.name()));
    }
    let promised = if oe == UTF_8 {
        true
    } else if oe == ISO_2022_JP {
        text.bytes().all(|b| b < 0x80 && !matches!(b, 0x1B | 0x0E | 0x0F))
    } else {
        text.is_ascii()
    };
    if !text.is_empty() && promised != al.is_some() {
        return Some(format!("Encoding::encode returned {} but the documentation {} a borrow for this input", if al.is_some() { "a borrow" } else { "an owned Vec" }, if promised { "promises" } else { "does not promise" }));
    }
    if al == Some(false) {
        return Some("Encoding::encode returned a borrow that does not alias the argument".into());
    }
    None
}

fn dec_violation(enc: &'static Encoding, bytes: &[u8], method: String, msg: String) -> Violation {
    Violation { msg: format!("{} input {}: {}", enc.name(), fw::hex(bytes), msg), sig: format!("C11:{}", method), case: case_json(enc, "decode*", bytes) }
}

fn shrink_bytes(enc: &'static Encoding, bytes: &[u8]) -> Vec<u8> {
    fw::shrink_greedy(
        bytes.to_vec(),
        |b: &Vec<u8>| {
            let mut c = Vec::new();
            if b.len() > 4 {
                c.push(b[..b.len() / 2].to_vec());
                c.push(b[b.len() / 2..].to_vec());
                c.push(b[1..].to_vec());
            }
            if b.len() <= 40 {
                for i in 0..b.len() {
                    let mut x = b.clone();
                    x.remove(i);
                    c.push(x);
                }
            }
            c
        },
        |b: &Vec<u8>| check_decode(enc, b, &mut DecDriver::new(), None).is_some(),
    )
}

fn run_dec_bytes(enc: &'static Encoding, bytes: &[u8], drv: &mut DecDriver, st: &mut Stats, enumerated: bool) -> bool {
    st.evals += 1;
    let borrowable = promised_decode(enc, bytes);
    if !borrowable {
        if enumerated {
            st.nontrivial_distinct();
        } else {
            st.nontrivial_hash(fw::mix(fw::fnv(bytes), encs::index_of(enc) as u64));
        }
    }
    if let Some((method, msg)) = check_decode(enc, bytes, drv, Some(st)) {
        // the greedy shrinker is quadratic; very long inputs are only halved while they still fail
        let min = if bytes.len() > 20_000 {
            let mut cur = bytes.to_vec();
            loop {
                let half = cur.len() / 2;
                if half < 10_000 {
                    break;
                }
                if check_decode(enc, &cur[..half], drv, None).is_some() {
                    cur.truncate(half);
                } else if check_decode(enc, &cur[half..], drv, None).is_some() {
                    cur.drain(..half);
                } else {
                    break;
                }
            }
            if cur.len() <= 20_000 {
                shrink_bytes(enc, &cur)
            } else {
                cur
            }
        } else {
            shrink_bytes(enc, bytes)
        };
        let (m2, msg2) = check_decode(enc, &min, drv, None).unwrap_or((method, msg));
        st.violations.push(dec_violation(enc, &min, m2, msg2));
        return false;
    }
    true
}

fn structured(ctx: &Ctx, force_scalar: bool) -> Stats {
    let all: Vec<&'static Encoding> = if force_scalar { vec![UTF_8] } else { encs::all() };
    let thorough = ctx.tier == fw::Tier::Thorough;
    let mut st = par_run(ctx, all.len() * 4, |part, st| {
        let enc = all[part / 4];
        let lane = part % 4;
        let algo = algo_for(enc);
        let mut drv = DecDriver::new();
        // "special" units: first non-ASCII / invalid / state-changing unit
        let mut specials: Vec<Vec<u8>> = crate::hist::atoms(algo).into_iter().filter(|a| a != b"a").collect();
        specials.push(vec![0x1B]);
        specials.push(vec![0x0E]);
        specials.push("\u{E9}".as_bytes().to_vec());
        specials.push(vec![0xFF]);
        if !thorough {
            specials.truncate(9);
            specials.push(vec![0x1B]);
            specials.push(vec![0xFF]);
        }
        // BOMs as data: at offset 0 they are covered by the prefixes below; after an ASCII run they
        // are ordinary bytes of the nominal encoding for every method
        specials.push(b"\xEF\xBB\xBFd".to_vec());
        specials.push(b"\xFF\xFEd\x00e\x00".to_vec());
        specials.push(b"\xFE\xFF\x00d\x00e".to_vec());
        specials.push(b"\xFF\xFE\x00\x00".to_vec());
        let extras: &[usize] = if thorough { &[0, 1, 63, 64, 65, 127, 128, 1000] } else { &[0, 1, 64, 1000] };
        let prefixes: [&[u8]; 4] = [b"", b"\xEF\xBB\xBF", b"\xFF\xFE", b"\xFE\xFF"];
        for off in 0..=130usize {
            if off % 4 != lane {
                continue;
            }
            if fw::should_stop() {
                return;
            }
            for sp in &specials {
                for &extra in extras {
                    for (pi, pre) in prefixes.iter().enumerate() {
                        if pi > 0 && (off % 8 != 1 || extra > 1) {
                            continue;
                        }
                        let mut v = pre.to_vec();
                        for i in 0..off {
                            v.push(b'a' + (i % 26) as u8);
                        }
                        v.extend_from_slice(sp);
                        for i in 0..extra {
                            v.push(b'A' + (i % 26) as u8);
                        }
                        if !run_dec_bytes(enc, &v, &mut drv, st, true) {
                            return;
                        }
                    }
                }
            }
            // ASCII-only of this length, with and without BOM
            for pre in prefixes.iter() {
                let mut v = pre.to_vec();
                for i in 0..off {
                    v.push(b'a' + (i % 26) as u8);
                }
                if !run_dec_bytes(enc, &v, &mut drv, st, true) {
                    return;
                }
            }
        }
        st.sample(1, || json!({"encoding": enc.name(), "family": "first special unit at offsets 0..=130 x extra lengths x BOM prefixes", "scalar_utf8_forced": force_scalar}));
    });
    st.exhaustive.push(format!("decode*: per encoding, each special unit at every offset 0..=130 x extra lengths x BOM prefixes{}", if force_scalar { " (UTF-8 only, scalar validator forced)" } else { "" }));
    st
}

fn random_part(ctx: &Ctx) -> Stats {
    use proptest::prelude::*;
    let all = encs::all();
    let mut st = par_run(ctx, all.len(), |part, st| {
        let enc = all[part];
        let algo = algo_for(enc);
        let strat = (gen::stream(algo, ctx.tier.pick(12, 40)), 0usize..8).prop_map(|(mut b, pre)| {
            let p: &[u8] = [&b""[..], b"", b"", b"", b"\xEF\xBB\xBF", b"\xFF\xFE", b"\xFE\xFF", b"\xEF\xBB"][pre];
            let mut v = p.to_vec();
            v.append(&mut b);
            v
        });
        let drv = std::cell::RefCell::new(DecDriver::new());
        fw::run_random(ctx, 1100 + part as u64, ctx.n(25_000, 150_000), &strat, st, |bytes, st| {
            st.class("random-decode-input");
            if !promised_decode(enc, bytes) {
                st.nontrivial_hash(fw::mix(fw::fnv(bytes), part as u64));
            }
            st.sample(1, || case_json(enc, "decode*", bytes));
            match check_decode(enc, bytes, &mut drv.borrow_mut(), Some(st)) {
                None => vec![],
                Some((m, msg)) => vec![dec_violation(enc, bytes, m, msg)],
            }
        });
    });
    // encode
    let e2 = par_run(ctx, all.len(), |part, st| {
        let enc = all[part];
        let algo = enc_algo_for(enc);
        let strat = (proptest::collection::vec((any::<u8>(), any::<u32>()), 0..ctx.tier.pick(40usize, 300usize)), 0usize..4).prop_map(move |(chars, mode)| {
            let mut s = String::new();
            for (k, x) in &chars {
                let c = match mode {
                    0 => 0x20 + x % 0x5F,                                                   // ASCII-only
                    1 => hist_enc::text_char(algo, false, if k % 4 == 0 { 1 } else { 4 }, *x), // mostly mappable
                    2 => [0x1F600u32, 0x10FFFF, 0xFFFD, 0x61, 0x1F4A9][(*x % 5) as usize],   // unmappable-heavy
                    _ => hist_enc::text_char(algo, false, *k, *x),
                };
                s.push(char::from_u32(c).unwrap_or('\u{FFFD}'));
            }
            s
        });
        let drv = std::cell::RefCell::new(EncDriver::new());
        fw::run_random(ctx, 1200 + part as u64, ctx.n(25_000, 150_000), &strat, st, |text, st| {
            st.class("random-encode-input");
            if !text.is_ascii() {
                st.nontrivial_hash(fw::mix(fw::fnv(text.as_bytes()), 1000 + part as u64));
            }
            match check_encode(enc, text, &mut drv.borrow_mut()) {
                None => vec![],
                Some(msg) => vec![Violation { msg: format!("{} text {:?}: {}", enc.name(), text, msg), sig: "C11:encode".into(), case: json!({"kind": "c11_encode", "encoding": encs::const_name(enc), "text_utf8_hex": fw::hex(text.as_bytes())}) }],
            }
        });
    });
    st.merge(e2);
    st
}

/// encode: first non-ASCII / state-relevant character at every offset
fn structured_encode(ctx: &Ctx) -> Stats {
    let all = encs::all();
    par_run(ctx, all.len(), |part, st| {
        let enc = all[part];
        let mut drv = EncDriver::new();
        let alpha = hist_enc::alphabet(enc);
        for off in (0..=70usize).chain([127usize, 128, 129, 1000]) {
            if fw::should_stop() {
                return;
            }
            for &c in alpha.iter().chain([0x1Bu32, 0x0E, 0x0F].iter()) {
                for extra in [0usize, 1, 40] {
                    let mut s = String::new();
                    for i in 0..off {
                        s.push((b'a' + (i % 26) as u8) as char);
                    }
                    s.push(char::from_u32(c).unwrap());
                    for _ in 0..extra {
                        s.push('\u{1F600}');
                        s.push('z');
                    }
                    st.evals += 1;
                    if !s.is_ascii() {
                        st.nontrivial_distinct();
                    }
                    if let Some(msg) = check_encode(enc, &s, &mut drv) {
                        st.violations.push(Violation { msg: format!("{} text {:?}: {}", enc.name(), s, msg), sig: "C11:encode".into(), case: json!({"kind": "c11_encode", "encoding": encs::const_name(enc), "text_utf8_hex": fw::hex(s.as_bytes())}) });
                        return;
                    }
                }
            }
        }
    })
}

/// runs: k copies of X followed by Y, for EVERY k up to a bound - the one-shot methods size their
/// output from an estimate and grow it on OutputFull, so what matters is where the output length
/// falls relative to the estimate and to the growth steps, i.e. particular values of k
fn runs_family(ctx: &Ctx) -> Stats {
    let all = encs::all();
    let thorough = ctx.tier == fw::Tier::Thorough;
    let rich = super::ench::encoder_encodings();
    let mut st = par_run(ctx, all.len() * 2, |part, st| {
        let enc = all[part / 2];
        let half = part % 2;
        let mut drv = EncDriver::new();
        let alpha: Vec<u32> = hist_enc::alphabet(enc).into_iter().filter(|c| !crate::drive_enc::is_sur(*c)).collect();
        let is_rich = rich.iter().any(|e| *e == enc);
        // X: what makes the output outgrow the estimate (escapes, unmappables with long references) plus a mapped character
        let mut xs: Vec<u32> = vec![0x1B, 0x0E, 0x80, 0x5D0, 0x1F600, 0x10FFFF, 0xE9];
        if let Some(m) = alpha.iter().find(|c| **c >= 0x80 && crate::model_enc::mappable(crate::model_enc::enc_algo_for(enc), **c)) {
            xs.push(*m);
        }
        let ys: Vec<u32> = if is_rich { alpha.clone() } else { vec![0x61, 0xE9, 0x4E00, 0x1F600] };
        let kmax = if thorough { 520 } else { 300 };
        for (xi, &x) in xs.iter().enumerate() {
            if xi % 2 != half {
                continue;
            }
            let xc = char::from_u32(x).unwrap();
            for &y in &ys {
                let yc = char::from_u32(y).unwrap();
                let mut s = String::new();
                for k in 0..=kmax {
                    if fw::should_stop() {
                        return;
                    }
                    if k > 0 {
                        s.push(xc);
                    }
                    let mut t = s.clone();
                    t.push(yc);
                    st.evals += 1;
                    st.nontrivial_distinct();
                    st.class("encode-run-of-k-then-one");
                    if let Some(msg) = check_encode(enc, &t, &mut drv) {
                        st.violations.push(Violation { msg: format!("{} text {} x U+{:04X} then U+{:04X}: {}", enc.name(), k, x, y, msg), sig: "C11:encode".into(), case: json!({"kind": "c11_encode", "encoding": encs::const_name(enc), "text_utf8_hex": fw::hex(t.as_bytes())}) });
                        return;
                    }
                }
            }
        }
    });
    // k copies of X followed by a varied ASCII run: the grown output buffer ends inside the run
    if !fw::should_stop() {
        let e2 = par_run(ctx, all.len(), |part, st| {
            let enc = all[part];
            let mut drv = EncDriver::new();
            let mut ddrv = DecDriver::new();
            let algo = algo_for(enc);
            let mut dspecials: Vec<Vec<u8>> = crate::hist::atoms(algo).into_iter().filter(|a| a.iter().any(|b| *b >= 0x80)).collect();
            dspecials.push(vec![0xFF]);
            dspecials.truncate(6);
            for k in 0..=48usize {
                if fw::should_stop() {
                    return;
                }
                for l in [17usize, 20, 33, 47, 50, 64, 81, 113, 240] {
                    let run: String = (0..l).map(|i| (b' ' + ((i * 7 + k) % 90) as u8) as char).collect();
                    for x in [0x80u32, 0x5D0, 0x1F600, 0x1B] {
                        let mut t = String::new();
                        for _ in 0..k {
                            t.push(char::from_u32(x).unwrap());
                        }
                        t.push_str(&run);
                        if (k + l) % 2 == 0 {
                            t.push('\u{E9}');
                            t.push_str(&run[..8]);
                        }
                        st.evals += 1;
                        st.nontrivial_distinct();
                        st.class("encode-k-unmappables-then-ascii-run");
                        if let Some(msg) = check_encode(enc, &t, &mut drv) {
                            st.violations.push(Violation { msg: format!("{} text {} x U+{:04X} then {} ASCII characters: {}", enc.name(), k, x, l, msg), sig: "C11:encode".into(), case: json!({"kind": "c11_encode", "encoding": encs::const_name(enc), "text_utf8_hex": fw::hex(t.as_bytes())}) });
                            return;
                        }
                    }
                    for x in &dspecials {
                        let mut t: Vec<u8> = Vec::new();
                        for _ in 0..k {
                            t.extend_from_slice(x);
                        }
                        t.extend_from_slice(run.as_bytes());
                        st.class("decode-k-specials-then-ascii-run");
                        if !run_dec_bytes(enc, &t, &mut ddrv, st, true) {
                            return;
                        }
                    }
                }
            }
        });
        st.merge(e2);
        st.exhaustive.push("encode / decode*: per encoding, k = 0..=48 copies of an unmappable character / a special byte sequence followed by a varied ASCII run of 17..240 characters".into());
    }
    st.exhaustive.push("encode: per encoding, k copies of X then Y for every k in 0..=300 (thorough 520), X in {ESC, SO, U+0080, U+05D0, U+1F600, U+10FFFF, U+00E9, a mapped character}, Y over the class alphabet".into());
    if fw::should_stop() {
        return st;
    }
    let d = par_run(ctx, all.len() * 2, |part, st| {
        let enc = all[part / 2];
        let half = part % 2;
        let algo = algo_for(enc);
        let mut drv = DecDriver::new();
        let mut specials: Vec<Vec<u8>> = crate::hist::atoms(algo).into_iter().filter(|a| a != b"a").collect();
        specials.push(vec![0xFF]);
        specials.push(vec![0x1B]);
        let step = (specials.len() / 8).max(1);
        let xs: Vec<Vec<u8>> = specials.iter().cloned().step_by(step).collect();
        let ys: Vec<Vec<u8>> = vec![b"a".to_vec(), specials[0].clone(), vec![0xFF], vec![]];
        let kmax = if thorough { 300 } else { 140 };
        for (xi, x) in xs.iter().enumerate() {
            if xi % 2 != half {
                continue;
            }
            for y in &ys {
                let mut s: Vec<u8> = Vec::new();
                for k in 0..=kmax {
                    if fw::should_stop() {
                        return;
                    }
                    if k > 0 {
                        s.extend_from_slice(x);
                    }
                    let mut t = s.clone();
                    t.extend_from_slice(y);
                    st.class("decode-run-of-k-then-one");
                    if !run_dec_bytes(enc, &t, &mut drv, st, true) {
                        return;
                    }
                }
            }
        }
    });
    st.merge(d);
    st.exhaustive.push("decode*: per encoding, k copies of X then Y for every k in 0..=140 (thorough 300), X over ~8 special units (valid, malformed, escapes), Y in {ASCII, special, FF, nothing}".into());
    st
}

/// multi-megabyte inputs: the borrow promise and the equality with streaming must not depend on
/// the input being small (sizes around 2^16, 2^20, 2^22, 2^23, 2^24)
fn big_inputs(ctx: &Ctx) -> Stats {
    let all = encs::all();
    let sizes: Vec<usize> = if ctx.tier == fw::Tier::Thorough { vec![(1 << 16) + 1, (1 << 20) + 3, (1 << 22) + 1, (1 << 23) + 5, (1 << 24) + 1, (1 << 25) + 7] } else { vec![(1 << 16) + 1, (1 << 22) + 1, (1 << 24) + 1] };
    let mut st = par_run(ctx, all.len() * sizes.len(), |part, st| {
        let enc = all[part / sizes.len()];
        let size = sizes[part % sizes.len()];
        let mut drv = DecDriver::new();
        // (1) ASCII only, (2) ASCII with one non-ASCII byte at the very end, (3) for UTF-8: valid multi-byte text
        let mut v: Vec<u8> = (0..size).map(|i| b' ' + (i % 90) as u8).collect();
        st.class("input-of-64KiB-to-32MiB");
        if !run_dec_bytes(enc, &v, &mut drv, st, true) {
            return;
        }
        let n = v.len();
        v[n - 1] = 0xE9;
        st.class("input-of-64KiB-to-32MiB");
        if !run_dec_bytes(enc, &v, &mut drv, st, true) {
            return;
        }
        if enc == UTF_8 {
            let mut t = String::with_capacity(size + 8);
            while t.len() < size {
                t.push_str("a\u{E9}\u{4E2D}\u{1F600} ");
            }
            st.class("input-of-64KiB-to-32MiB");
            if !run_dec_bytes(enc, t.as_bytes(), &mut drv, st, true) {
                return;
            }
            let mut w = b"\xEF\xBB\xBF".to_vec();
            w.extend_from_slice(t.as_bytes());
            if !run_dec_bytes(enc, &w, &mut drv, st, true) {
                return;
            }
        }
        // encode: ASCII text must come back as a borrow whatever its size
        let text: String = (0..size).map(|i| (b' ' + (i % 90) as u8) as char).collect();
        st.evals += 1;
        st.nontrivial_distinct();
        let mut ed = EncDriver::new();
        if let Some(msg) = check_encode(enc, &text, &mut ed) {
            st.violations.push(Violation { msg: format!("{} ASCII text of {} bytes: {}", enc.name(), size, msg), sig: "C11:encode".into(), case: json!({"kind": "c11_encode_big_ascii", "encoding": encs::const_name(enc), "size": size}) });
        }
    });
    st.exhaustive.push(format!("decode* and encode: per encoding, ASCII inputs (and ASCII + one final non-ASCII byte; UTF-8: multi-byte text with and without BOM) of sizes {:?}", sizes));
    st
}

pub fn run(ctx: &Ctx) -> i32 {
    let t0 = Instant::now();
    let mut st = structured(ctx, false);
    if !fw::should_stop() {
        encoding_rs::verif_hooks::set_force_scalar_utf8(true);
        st.merge(structured(ctx, true));
        encoding_rs::verif_hooks::set_force_scalar_utf8(false);
    }
    if !fw::should_stop() {
        st.merge(structured_encode(ctx));
    }
    if !fw::should_stop() {
        st.merge(runs_family(ctx));
    }
    if !fw::should_stop() {
        st.merge(big_inputs(ctx));
    }
    if !fw::should_stop() {
        st.merge(random_part(ctx));
    }
    fw::finish(ctx, st, RULE, &["the streaming converters are tied to the Standard by C01/C03 and to chunking independence by C02/C04", "for empty input (after BOM removal) no borrow/owned assertion is made (a borrow of nothing is returned for every encoding and is harmless)"], t0.elapsed().as_secs_f64()).exit
}

pub fn replay(case: &Value) -> Option<Vec<Violation>> {
    let enc = encs::by_const(case.get("encoding")?.as_str()?)?;
    if case.get("kind")?.as_str()? == "c11_encode_big_ascii" {
        let size = case.get("size")?.as_u64()? as usize;
        let text: String = (0..size).map(|i| (b' ' + (i % 90) as u8) as char).collect();
        return Some(match check_encode(enc, &text, &mut EncDriver::new()) {
            None => vec![],
            Some(m) => vec![Violation { msg: m, sig: "C11:encode".into(), case: case.clone() }],
        });
    }
    if case.get("kind")?.as_str()? == "c11_encode" {
        let b = fw::unhex(case.get("text_utf8_hex")?.as_str()?);
        let s = String::from_utf8(b).ok()?;
        return Some(match check_encode(enc, &s, &mut EncDriver::new()) {
            None => vec![],
            Some(m) => vec![Violation { msg: m, sig: "C11:encode".into(), case: case.clone() }],
        });
    }
    let bytes = fw::unhex(case.get("input_hex")?.as_str()?);
    let mut out = vec![];
    for force in [false, true] {
        encoding_rs::verif_hooks::set_force_scalar_utf8(force);
        if let Some((m, msg)) = check_decode(enc, &bytes, &mut DecDriver::new(), None) {
            out.push(dec_violation(enc, &bytes, m, msg));
        }
    }
    encoding_rs::verif_hooks::set_force_scalar_utf8(false);
    out.truncate(1);
    Some(out)
}
