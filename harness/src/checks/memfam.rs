//! Shared sweep over encoding_rs::mem conversion functions, used by C05, C06, C15 and C18: each
//! property keeps only the faults of its own monitors.

use crate::fw::{self, par_run, Ctx, Stats, Violation};
use crate::memchk::{self, MemCase, MemFault, MemFn, MemRunner, SrcKind, ALL_FNS};
use crate::memgen;

pub fn fault_to_violation(c: &MemCase, f: &MemFault) -> Violation {
    Violation { msg: format!("mem::{} src8 {} src16 [{}] dst_len {} align ({},{}) fill {:#04x}: {}", c.f.name(), fw::hex(&c.src8), fw::hex16(&c.src16), c.dst_len, c.src_align, c.dst_align, c.fill, f.msg), sig: f.sig.clone(), case: c.to_json() }
}

fn shrink_case(c: &MemCase, prop: &str, fills_mode: bool) -> MemCase {
    fw::shrink_greedy(
        c.clone(),
        |x: &MemCase| {
            let mut v = Vec::new();
            let u16src = matches!(x.f.src_kind(), SrcKind::U16 | SrcKind::Latin1U16);
            let n = x.src_len();
            let mut spans: Vec<(usize, usize)> = Vec::new();
            if n > 4 {
                spans.push((0, n / 2));
                spans.push((n / 2, n));
            }
            for i in 0..n {
                spans.push((i, i + 1));
            }
            for (a, b) in spans {
                let mut y = x.clone();
                if u16src {
                    y.src16.drain(a..b);
                } else {
                    y.src8.drain(a..b);
                }
                let removed = b - a;
                if x.f.is_partial() {
                    for d in [x.dst_len, x.dst_len.saturating_sub(removed), x.dst_len.saturating_sub(2 * removed), x.dst_len.saturating_sub(3 * removed)] {
                        let mut z = y.clone();
                        z.dst_len = d;
                        z.sanitise();
                        v.push(z);
                    }
                } else {
                    y.dst_len = 0;
                    y.sanitise();
                    v.push(y);
                }
            }
            if x.src_align != 0 || x.dst_align != 0 {
                let mut y = x.clone();
                y.src_align = 0;
                y.dst_align = 0;
                v.push(y);
            }
            v
        },
        |x: &MemCase| {
            let mut rn = MemRunner::new();
            eval_case(&mut rn, x, prop, fills_mode).is_some()
        },
    )
}

/// first fault of this property that is not an open known finding; known ones are counted
fn eval_case_st(rn: &mut MemRunner, c: &MemCase, prop: &str, fills_mode: bool, st: Option<&mut Stats>) -> Option<MemFault> {
    let faults: Vec<MemFault> = if fills_mode { memchk::judge_fills(rn, c).into_iter().collect() } else { memchk::judge(rn, c).into_iter().filter(|f| f.prop == prop).collect() };
    let mut st = st;
    for f in faults {
        match fw::known_open_id(&f.sig) {
            Some(id) => {
                if let Some(s) = st.as_mut() {
                    s.known_hit(id);
                }
            }
            None => return Some(f),
        }
    }
    None
}

fn eval_case(rn: &mut MemRunner, c: &MemCase, prop: &str, fills_mode: bool) -> Option<MemFault> {
    eval_case_st(rn, c, prop, fills_mode, None)
}

fn nontrivial(c: &MemCase) -> bool {
    let non_ascii = c.src8.iter().any(|b| *b >= 0x80) || c.src16.iter().any(|u| *u >= 0x80);
    if c.f.is_partial() {
        non_ascii && c.dst_len < c.f.sufficient(c.src_len())
    } else {
        non_ascii || c.src_len() % 16 != 0
    }
}

pub struct MemFamily<'a> {
    pub prop: &'a str,
    pub fns: Vec<MemFn>,
    pub fills_mode: bool,
    pub max_len: usize,
    pub aligns: Vec<(usize, usize)>,
    pub random_per_fn: u64,
    pub max_tokens: usize,
}

pub fn all_fns() -> Vec<MemFn> {
    ALL_FNS.to_vec()
}

pub fn run_mem_family(ctx: &Ctx, fam: &MemFamily) -> Stats {
    let mut total = Stats::new();
    const LANES: usize = 8;
    let nf = fam.fns.len();
    // ---- planted sweep: part = (function, lane over lengths)
    let st = par_run(ctx, nf * LANES, |part, st| {
        let f = fam.fns[part / LANES];
        let lane = part % LANES;
        let mut rn = MemRunner::new();
        let u16src = matches!(f.src_kind(), SrcKind::U16 | SrcKind::Latin1U16);
        let latin1 = f.src_kind() == SrcKind::Latin1;
        for len in 0..=fam.max_len {
            if len % LANES != lane {
                continue;
            }
            if fw::should_stop() {
                return;
            }
            // fillers: ASCII always; multi-byte fillers for some lengths
            let fillers: &[usize] = if len % 4 == 0 { &[0, 1, 2, 3, 4, 5] } else if len % 4 == 1 { &[0, 4] } else if len % 4 == 2 { &[0, 5] } else { &[0] };
            for &fk in fillers {
                let nclasses = if u16src { memgen::PLANT16.len() } else if latin1 { memgen::PLANT_LATIN1.len() } else { memgen::PLANT8.len() };
                for cls in 0..=nclasses {
                    // cls == nclasses: no planted unit
                    let positions: Vec<usize> = if cls == nclasses { vec![0] } else { (0..len.max(1)).collect() };
                    for pos in positions {
                      // second planted unit (ASCII filler only): in the same stride as the first, and
                      // exactly 16 / 32 / 64 units after it
                      let mut seconds: Vec<Option<(usize, usize)>> = vec![None];
                      if (fk == 0 || fk >= 4) && cls < nclasses {
                          for d in [1usize, 2, 3, 4, 5, 15, 16, 17, 32, 64] {
                              if pos + d < len && (pos + d) % 3 == cls % 3 {
                                  seconds.push(Some(((cls * 7 + pos + d) % nclasses, pos + d)));
                              }
                          }
                      }
                      for second in seconds {
                        let (mut src8, mut src16) = if u16src {
                            (vec![], if cls == nclasses { memgen::filler16(fk, len) } else { memgen::plant16(fk, len, pos, memgen::PLANT16[cls]) })
                        } else if latin1 {
                            let mut v = memgen::filler8(0, len);
                            if cls < nclasses && pos < len {
                                v[pos] = memgen::PLANT_LATIN1[cls];
                            }
                            if fk >= 4 {
                                for (i, b) in v.iter_mut().enumerate() {
                                    if i != pos {
                                        *b = if fk == 4 { b' ' } else { b", .0;-\r\n"[i % 8] };
                                    }
                                }
                            } else if fk != 0 {
                                for (i, b) in v.iter_mut().enumerate() {
                                    if i != pos && i % (fk + 1) == 0 {
                                        *b = 0xE9;
                                    }
                                }
                            }
                            (v, vec![])
                        } else {
                            (if cls == nclasses { memgen::filler8(fk, len) } else { memgen::plant8(fk, len, pos, memgen::PLANT8[cls]) }, vec![])
                        };
                        if let Some((c2, p2)) = second {
                            if u16src {
                                for (i, u) in memgen::PLANT16[c2].iter().enumerate() {
                                    if p2 + i < src16.len() {
                                        src16[p2 + i] = *u;
                                    }
                                }
                            } else if latin1 {
                                src8[p2] = memgen::PLANT_LATIN1[c2];
                            } else {
                                for (i, b) in memgen::PLANT8[c2].iter().enumerate() {
                                    if p2 + i < src8.len() {
                                        src8[p2 + i] = *b;
                                    }
                                }
                            }
                        }
                        let p2 = second.map(|x| x.1);
                        for (ai, &(sa, da)) in fam.aligns.iter().enumerate() {
                            if second.is_some() && ai > 1 {
                                continue;
                            }
                            let mut base = MemCase { f, src8: src8.clone(), src16: src16.clone(), dst_len: 0, src_align: sa, dst_align: da, fill: [0xA5, 0x00, 0xFF, 0x02][(pos + ai) & 3] };
                            base.sanitise();
                            let n = base.src_len();
                            let dsts: Vec<usize> = if f.is_partial() {
                                let suff = f.sufficient(n);
                                let mut d = vec![0, 1, pos, pos + 1, pos + 2, pos + 3, pos + 4, 2 * pos + 1, n.saturating_sub(1), n, n + 1, n + 2, suff.saturating_sub(1), suff];
                                if let Some(p2) = p2 {
                                    d.extend_from_slice(&[p2, p2 + 1, p2 + 2, p2 + 3, p2 + 4]);
                                }
                                d.retain(|x| *x <= suff + 1);
                                d.sort();
                                d.dedup();
                                if ai > 0 {
                                    d.retain(|x| (*x >= pos && *x <= pos + 4) || p2.map_or(false, |p2| *x >= p2 && *x <= p2 + 4));
                                }
                                d
                            } else {
                                let m = f.min_dst(n).unwrap_or(0);
                                if ai == 0 && pos % 8 == 0 {
                                    vec![m, m + 1, m + 17]
                                } else {
                                    vec![m]
                                }
                            };
                            for d in dsts {
                                let mut c = base.clone();
                                c.dst_len = d;
                                st.evals += 1;
                                if nontrivial(&c) {
                                    st.nontrivial_distinct();
                                }
                                if c.f.is_partial() && d < c.f.sufficient(n) {
                                    st.class("partial-with-insufficient-destination");
                                }
                                if let Some(flt) = eval_case_st(&mut rn, &c, fam.prop, fam.fills_mode, Some(st)) {
                                    let min = shrink_case(&c, fam.prop, fam.fills_mode);
                                    let flt2 = eval_case(&mut rn, &min, fam.prop, fam.fills_mode).unwrap_or(flt);
                                    st.violations.push(fault_to_violation(&min, &flt2));
                                    return;
                                }
                                if second.is_some() {
                                    st.class("two-planted-units");
                                }
                                if len == 24 && pos == 9 {
                                    st.sample(1, || c.to_json());
                                }
                            }
                        }
                      }
                    }
                }
            }
        }
    });
    total.merge(st);
    // ---- long buffers: lengths around powers of two up to 2^16, planted unit near both ends
    if !fw::should_stop() {
        let long_lens = super::valfam::long_lengths();
        let st2 = par_run(ctx, nf * LANES, |part, st| {
            let f = fam.fns[part / LANES];
            let lane = part % LANES;
            let mut rn = MemRunner::new();
            let u16src = matches!(f.src_kind(), SrcKind::U16 | SrcKind::Latin1U16);
            let latin1 = f.src_kind() == SrcKind::Latin1;
            let nclasses = if u16src { memgen::PLANT16.len() } else if latin1 { memgen::PLANT_LATIN1.len() } else { memgen::PLANT8.len() };
            for (li, &len) in long_lens.iter().enumerate() {
                if li % LANES != lane {
                    continue;
                }
                if fw::should_stop() {
                    return;
                }
                // ASCII filler: letters, spaces or punctuation, by length
                let lfk = [0usize, 4, 5][li % 3];
                for cls in 0..=nclasses {
                    let positions: Vec<usize> = if cls == nclasses { vec![0] } else { super::valfam::long_positions(len) };
                    for pos in positions {
                        let (src8, src16) = if u16src {
                            (vec![], if cls == nclasses { memgen::filler16(lfk, len) } else { memgen::plant16(lfk, len, pos, memgen::PLANT16[cls]) })
                        } else if latin1 {
                            let mut v = memgen::filler8(0, len);
                            if cls < nclasses {
                                v[pos] = memgen::PLANT_LATIN1[cls];
                            }
                            (v, vec![])
                        } else {
                            (if cls == nclasses { memgen::filler8(lfk, len) } else { memgen::plant8(lfk, len, pos, memgen::PLANT8[cls]) }, vec![])
                        };
                        let (sa, da) = fam.aligns[(pos + li) % fam.aligns.len()];
                        let mut base = MemCase { f, src8, src16, dst_len: 0, src_align: sa, dst_align: da, fill: [0xA5, 0x00, 0xFF, 0x02][(pos + li) & 3] };
                        base.sanitise();
                        let n = base.src_len();
                        let dsts: Vec<usize> = if f.is_partial() {
                            let suff = f.sufficient(n);
                            let mut d = vec![pos, pos + 1, pos + 2, pos + 3, n.saturating_sub(1), n, suff.saturating_sub(1), suff];
                            d.retain(|x| *x <= suff + 1);
                            d.sort();
                            d.dedup();
                            d
                        } else {
                            vec![f.min_dst(n).unwrap_or(0)]
                        };
                        for d in dsts {
                            let mut c = base.clone();
                            c.dst_len = d;
                            st.evals += 1;
                            st.nontrivial_distinct();
                            st.class("long-buffer-(length-around-a-power-of-two-up-to-65536)");
                            if let Some(flt) = eval_case_st(&mut rn, &c, fam.prop, fam.fills_mode, Some(st)) {
                                let min = shrink_case(&c, fam.prop, fam.fills_mode);
                                let flt2 = eval_case(&mut rn, &min, fam.prop, fam.fills_mode).unwrap_or(flt);
                                st.violations.push(fault_to_violation(&min, &flt2));
                                return;
                            }
                        }
                    }
                }
            }
        });
        total.merge(st2);
        total.exhaustive.push("per mem function: source lengths 2^k-2..=2^k+2 (k = 7..=12, 16) and 100/200/300/1000/3000 x every planted unit class at positions {0, 1, 15..17, middle, 65..1 from the end} x destination lengths at the planted position and the documented size".into());
    }
    // ---- adjacent pairs and table sweep (see memgen): byte-source functions get (valid character,
    // near-valid sequence) pairs in both orders and the UTF-8 table sweep; UTF-16-source functions
    // get every pair of boundary code units at stride-relevant distances
    if !fw::should_stop() {
        let thorough = ctx.tier == fw::Tier::Thorough;
        let near = memgen::utf8_near_valid(thorough);
        let reps = memgen::utf8_valid_reps();
        let layouts16 = memgen::pair_layouts16();
        let st3 = par_run(ctx, nf * LANES, |part, st| {
            let f = fam.fns[part / LANES];
            let lane = part % LANES;
            let mut rn = MemRunner::new();
            let kind = f.src_kind();
            let mut k = 0usize;
            let mut run = |src8: Vec<u8>, src16: Vec<u16>, class: &str, st: &mut Stats, k: usize| -> bool {
                let (sa, da) = fam.aligns[k % fam.aligns.len()];
                let mut base = MemCase { f, src8, src16, dst_len: 0, src_align: sa, dst_align: da, fill: [0xA5, 0x00, 0xFF, 0x02][k & 3] };
                base.sanitise();
                let n = base.src_len();
                let dsts: Vec<usize> = if f.is_partial() {
                    let suff = f.sufficient(n);
                    vec![suff, n, n.saturating_sub(1 + k % 5)]
                } else {
                    vec![f.min_dst(n).unwrap_or(0)]
                };
                for d in dsts {
                    let mut c = base.clone();
                    c.dst_len = d;
                    st.evals += 1;
                    st.nontrivial_distinct();
                    st.class(class);
                    if let Some(flt) = eval_case_st(&mut rn, &c, fam.prop, fam.fills_mode, Some(st)) {
                        let min = shrink_case(&c, fam.prop, fam.fills_mode);
                        let flt2 = eval_case(&mut rn, &min, fam.prop, fam.fills_mode).unwrap_or(flt);
                        st.violations.push(fault_to_violation(&min, &flt2));
                        return false;
                    }
                }
                true
            };
            // periodic text: (short ASCII word + one planted unit) x 9..20 - heuristics that count
            // consecutive bail-outs of a fast path only wake up on such text
            {
                let u16src = matches!(kind, SrcKind::U16 | SrcKind::Latin1U16);
                let ncl = if u16src { memgen::PLANT16.len() } else if kind == SrcKind::Latin1 { memgen::PLANT_LATIN1.len() } else { memgen::PLANT8.len() };
                for cls in 0..ncl {
                    if cls % LANES != lane {
                        continue;
                    }
                    for r in [1usize, 3, 7, 15] {
                        for reps in [9usize, 12, 20] {
                            k += 1;
                            let (mut s8, mut s16) = (Vec::new(), Vec::new());
                            for i in 0..reps {
                                for j in 0..r {
                                    let c = b'a' + ((i + j) % 26) as u8;
                                    if u16src {
                                        s16.push(c as u16);
                                    } else {
                                        s8.push(c);
                                    }
                                }
                                if u16src {
                                    s16.extend_from_slice(memgen::PLANT16[cls]);
                                } else if kind == SrcKind::Latin1 {
                                    s8.push(memgen::PLANT_LATIN1[cls]);
                                } else {
                                    s8.extend_from_slice(memgen::PLANT8[cls]);
                                }
                            }
                            if u16src {
                                s16.extend_from_slice(&[0x79, 0x7A]);
                            } else {
                                s8.extend_from_slice(b"yz");
                            }
                            if !run(s8, s16, "periodic-word-plus-special-unit", st, k) {
                                return;
                            }
                        }
                    }
                }
            }
            if kind == SrcKind::U16 {
                let mut tk = 0usize;
                let ok = memgen::after_pair_triples16(|v| {
                    tk += 1;
                    if tk % LANES != lane {
                        return true;
                    }
                    k += 1;
                    run(vec![], v.to_vec(), "three-units-after-a-surrogate-pair", st, k)
                });
                if !ok {
                    return;
                }
            }
            match kind {
                SrcKind::U16 => {
                    for (ai, &a) in memgen::UNIT_EDGES16.iter().enumerate() {
                        if ai % LANES != lane {
                            continue;
                        }
                        for &b in memgen::UNIT_EDGES16.iter() {
                            for &(p, d, t) in &layouts16 {
                                k += 1;
                                if !run(vec![], memgen::embed_pair16(a, b, p, d, t), "two-boundary-units-at-stride-relevant-distance", st, k) {
                                    return;
                                }
                            }
                        }
                        if fw::should_stop() {
                            return;
                        }
                    }
                }
                SrcKind::Bytes | SrcKind::Str => {
                    let embeds: &[(usize, usize)] = if fam.prop == "C15" { &[(0, 1), (15, 17)] } else { &[(3, 14)] };
                    let mut src = Vec::with_capacity(64);
                    let ok = memgen::utf8_table_sweep(lane, LANES, |s| {
                        for &(pre, tail) in embeds {
                            k += 1;
                            src.clear();
                            src.extend((0..pre).map(|i| b'a' + (i % 26) as u8));
                            src.extend_from_slice(s);
                            src.extend((0..tail).map(|i| b'A' + (i % 26) as u8));
                            if !run(src.clone(), vec![], "utf8-table-sweep", st, k) {
                                return false;
                            }
                        }
                        !(k % 4096 == 0 && fw::should_stop())
                    });
                    if !ok {
                        return;
                    }
                    for (ni, s) in near.iter().enumerate() {
                        if ni % LANES != lane {
                            continue;
                        }
                        if fw::should_stop() {
                            return;
                        }
                        for a in &reps {
                            for &(pre, tail) in &memgen::PAIR_EMBED {
                                for order in 0..2 {
                                    k += 1;
                                    let src8 = if order == 0 { memgen::embed_pair8(a, s, pre, tail) } else { memgen::embed_pair8(s, a, pre, tail) };
                                    if !run(src8, vec![], "valid-character-adjacent-to-near-valid-sequence", st, k) {
                                        return;
                                    }
                                }
                            }
                        }
                    }
                    // runs of three same-length sequences ending in a near-valid one
                    let mut tk = 0usize;
                    let ok = memgen::utf8_run_triples(|a1, a2, s| {
                        tk += 1;
                        if tk % LANES != lane {
                            return true;
                        }
                        for (pre, tail) in [(0usize, 1usize), (13, 0)] {
                            k += 1;
                            let mut src8: Vec<u8> = (0..pre).map(|i| b'a' + i as u8).collect();
                            src8.extend_from_slice(a1);
                            src8.extend_from_slice(a2);
                            src8.extend_from_slice(s);
                            src8.extend((0..tail).map(|i| b'A' + i as u8));
                            if !run(src8, vec![], "run-of-three-same-length-sequences-ending-near-valid", st, k) {
                                return false;
                            }
                        }
                        !(tk % 4096 == 0 && fw::should_stop())
                    });
                    if !ok {
                        return;
                    }
                    // two near-valid sequences back to back (what the first leaves behind in a reused decoder)
                    let step = if thorough { 1 } else { 7 };
                    for (ni, s) in near.iter().enumerate() {
                        if ni % LANES != lane {
                            continue;
                        }
                        if fw::should_stop() {
                            return;
                        }
                        for t in near.iter().skip(ni % step).step_by(step) {
                            k += 1;
                            let mut src8 = s.clone();
                            if k % 3 == 0 {
                                src8.extend_from_slice(b"ab");
                            }
                            src8.extend_from_slice(t);
                            src8.push(b'z');
                            if !run(src8, vec![], "two-near-valid-sequences", st, k) {
                                return;
                            }
                        }
                    }
                }
                _ => {}
            }
        });
        total.merge(st3);
        total.exhaustive.push(format!("UTF-8-source functions: the UTF-8 table sweep (every lead x second pair, every three-byte string, four-byte leads x second x third), {} valid characters x {} near-valid sequences x both orders x {} embeddings, pairs of near-valid sequences; UTF-16-source functions: all pairs of {} boundary units x {} layouts", reps.len(), near.len(), memgen::PAIR_EMBED.len(), memgen::UNIT_EDGES16.len(), layouts16.len()));
    }
    total.exhaustive.push(format!("per mem function: source lengths 0..={} x 4 fillers x every planted unit class at every position (plus, in ASCII filler of letters, spaces or punctuation, a second planted unit 1/2/3/4/5/15/16/17/32/64 units later) x alignments {:?} x destination lengths around the planted position and the documented size", fam.max_len, fam.aligns));
    if fw::should_stop() {
        return total;
    }
    // ---- random
    let st = par_run(ctx, nf * 2, |part, st| {
        let f = fam.fns[part / 2];
        let strat = memgen::mem_case(f, fam.max_tokens);
        let rn = std::cell::RefCell::new(MemRunner::new());
        fw::run_random(ctx, 5000 + part as u64, (fam.random_per_fn / 2).max(1), &strat, st, |c, st| {
            st.class("random-mem-case");
            if c.src_len() > 64 {
                st.class("random-mem-case-source-longer-than-64");
            }
            if c.src_len() >= 512 {
                st.class("random-mem-case-source-of-512-units-or-more");
            }
            if nontrivial(c) {
                st.nontrivial_hash(c.hash());
            }
            st.sample(1, || c.to_json());
            match eval_case_st(&mut rn.borrow_mut(), c, fam.prop, fam.fills_mode, Some(st)) {
                None => vec![],
                Some(flt) => vec![fault_to_violation(c, &flt)],
            }
        });
        if let Some(v) = st.violations.pop() {
            match MemCase::from_json(&v.case) {
                Some(c) => {
                    let min = shrink_case(&c, fam.prop, fam.fills_mode);
                    match eval_case(&mut rn.borrow_mut(), &min, fam.prop, fam.fills_mode) {
                        Some(flt) => st.violations.push(fault_to_violation(&min, &flt)),
                        None => st.violations.push(v),
                    }
                }
                None => st.violations.push(v),
            }
        }
    });
    total.merge(st);
    total
}

pub fn replay_mem(case: &serde_json::Value, prop: &str, fills_mode: bool) -> Option<Vec<Violation>> {
    let c = MemCase::from_json(case)?;
    let mut rn = MemRunner::new();
    Some(match eval_case(&mut rn, &c, prop, fills_mode) {
        None => vec![],
        Some(f) => vec![fault_to_violation(&c, &f)],
    })
}
