//! C18 - written output is fully determined by the input, never by the buffer's old bytes.
use super::dech::{self, DecCheck};
use super::ench::{self, EncCheck};
use super::memfam::{self, MemFamily};
use crate::drive_dec::{BomMode, Sink};
use crate::drive_enc::{ESink, Src};
use crate::encs;
use crate::fw::{self, Ctx};
use crate::hist::{self, Profile};
use crate::hist_enc::{self, EProfile};
use std::time::Instant;

pub const RULE: &str = "case = decoder history / encoder history / mem call, each executed three times with the destination pre-filled with 0x00, 0xFF and 0xA5 (String/Vec sinks: the spare capacity is pre-filled; str sinks: three different valid filler texts); oracle (metamorphic) = identical transcripts (all return values of every call) and identical written prefixes across the three runs. The three fills differ pairwise in every byte, so a unit that is reported as written but never stored shows up as a difference. Non-trivial = written > 0; distinct = distinct case.";

pub fn run(ctx: &Ctx) -> i32 {
    let t0 = Instant::now();
    let mut e = encs::multibyte();
    e.extend(encs::single_byte_sample());
    let dc = DecCheck {
        verdict: &dech::verdict_c18,
        encs: e,
        modes: vec![BomMode::None, BomMode::Sniff],
        sinks: vec![Sink::Utf8, Sink::Utf16, Sink::Str, Sink::String],
        repls: vec![false, true],
        cap_patterns: &|s| {
            let m = s.min_cap();
            vec![vec![m], vec![m + 1], vec![m + 3], vec![9], vec![24], vec![]]
        },
        core_max_len: ctx.tier.pick(5, 7),
        triples: ctx.tier == fw::Tier::Thorough,
        bom_prefixes: false,
        random_per_enc: ctx.n(4_000, 120_000),
        profile: Profile { max_tokens: ctx.tier.pick(14, 48), small_caps_weight: 90, queries: false, exact_queries: false, modes: &hist::ALL_MODES, sinks: &hist::ALL_SINKS, bom_prefix_weight: 32 },
        fills: vec![0xA5],
        mixed_sinks: true,
        mixed_all: false,
    };
    let mut st = dech::run_dec_check(ctx, &dc);
    if !fw::should_stop() {
        let ec = EncCheck {
            verdict: &ench::verdict_c18,
            encs: ench::encoder_encodings(),
            srcs: vec![Src::Utf8, Src::Utf16],
            sinks: vec![ESink::Slice, ESink::Vec],
            repls: vec![false, true],
            cap_patterns: &|r| {
                let m = if r { 14 } else { 4 };
                vec![vec![m], vec![m + 1], vec![m + 3], vec![m + 8], vec![]]
            },
            core_max_chars: 2,
            core_max_chars_2022: ctx.tier.pick(2, 3),
            random_per_enc: ctx.n(4_000, 120_000),
            profile: EProfile { max_chars: ctx.tier.pick(24, 96), small_caps_weight: 90, queries: false, exact_queries: false, mappable_only: false },
            mappable_only_when_repl: false,
        };
        st.merge(ench::run_enc_check(ctx, &ec));
    }
    if !fw::should_stop() {
        let fam = MemFamily {
            prop: "C18",
            fns: memfam::all_fns().into_iter().filter(|f| !f.no_dst()).collect(),
            fills_mode: true,
            max_len: ctx.tier.pick(48, 120),
            aligns: if ctx.tier == fw::Tier::Thorough { (0..8).map(|i| (i, (i * 3 + 1) & 15)).collect() } else { vec![(0, 0), (1, 5)] },
            random_per_fn: ctx.n(15_000, 400_000),
            max_tokens: ctx.tier.pick(14, 48),
        };
        st.merge(memfam::run_mem_family(ctx, &fam));
    }
    fw::finish(ctx, st, RULE, &["bytes beyond `written` are documented garbage and are not compared"], t0.elapsed().as_secs_f64()).exit
}

pub fn replay(case: &serde_json::Value) -> Option<Vec<fw::Violation>> {
    match case.get("kind").and_then(|k| k.as_str()) {
        Some("mem") => memfam::replay_mem(case, "C18", true),
        Some("enc_history") => ench::replay_with(case, &ench::verdict_c18),
        Some("dec_history") => dech::replay_with(case, &dech::verdict_c18),
        _ => None,
    }
}
