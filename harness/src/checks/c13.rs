//! C13 - label resolution implements the Standard's "get an encoding" for all byte strings.
use crate::encs;
use crate::fw::{self, par_run, Ctx, Stats, Violation};
use crate::golden::golden;
use encoding_rs::*;
use serde_json::{json, Value};
use std::time::Instant;

pub const RULE: &str = "case = byte string given to Encoding::for_label / for_label_no_replacement: the 228 labels x every single-byte substitution, insertion and deletion, every ASCII case mask (all masks for labels up to 12 bytes, seeded random masks beyond), padding with every combination of up to 2 (selected labels: 3) leading and trailing bytes from {09 0A 0B 0C 0D 20 00 A0 85}, label + whitespace + every byte (and mirrored), inner whitespace, over-long strings, empty / whitespace-only strings, every string of up to 4 (thorough 5) bytes over the 40-character label alphabet, every string of up to 3 bytes over all 256 byte values, every 4-byte string over the byte values 09..=7E (thorough: all 256) and every 5-byte string of printable ASCII 21..=7E (thorough: 20..=7E) against a hash-map form of the same oracle, every 2- and 3-token sequence over the vocabulary cut out of the labels, ~1900 charset names of other registries (IANA cs* aliases, CPython/ICU/MySQL spellings), the label between every pair of ~50 delimiters, runs of one byte of 1..=40 and 2^k+-10 bytes before/after/around the label, two simultaneous substitutions, seeded random strings over the label alphabet, every Encoding::name(). Oracle = the Standard's 'get an encoding' (strip leading/trailing TAB LF FF CR SPACE, ASCII-lowercase, exact match) on the frozen label table; for_label_no_replacement == for_label with replacement mapped to None; never a panic; arguments of 8 bytes and more are also passed as a sub-slice starting 1..=15 bytes after a 16-byte boundary (same answer required). Non-trivial = input that is not itself one of the 228 exact spellings; distinct = distinct byte string (by construction within a family, by content hash for random strings).";

fn model(label: &[u8]) -> Option<&'static Encoding> {
    let is_ws = |b: u8| matches!(b, 0x09 | 0x0A | 0x0C | 0x0D | 0x20);
    let mut a = 0;
    let mut b = label.len();
    while a < b && is_ws(label[a]) {
        a += 1;
    }
    while b > a && is_ws(label[b - 1]) {
        b -= 1;
    }
    let lower: Vec<u8> = label[a..b].iter().map(|c| if c.is_ascii_uppercase() { c + 0x20 } else { *c }).collect();
    let g = golden();
    for (l, e) in &g.labels {
        if l.as_bytes() == &lower[..] {
            return encs::by_const(e);
        }
    }
    None
}

thread_local! {
    static SHIFT_BUF: std::cell::RefCell<Vec<u8>> = const { std::cell::RefCell::new(Vec::new()) };
}

/// the same bytes at another start address: arguments of 8 bytes and more are also passed as a
/// sub-slice starting 1..=15 bytes into a 16-aligned buffer (word-at-a-time scanning must not
/// depend on where the slice starts)
fn check_shifted(label: &[u8], want: Option<&'static Encoding>) -> Option<String> {
    let shift = 1 + (fw::fnv(label) % 15) as usize;
    SHIFT_BUF.with(|b| {
        let mut b = b.borrow_mut();
        let need = label.len() + 48;
        if b.len() < need {
            b.resize(need, 0x20);
        }
        let base = (16 - (b.as_ptr() as usize & 15)) & 15;
        let off = base + shift;
        // spaces before and after the window: a scan that leaves the slice sees plausible padding
        for x in b[..off].iter_mut() {
            *x = 0x20;
        }
        b[off..off + label.len()].copy_from_slice(label);
        for x in b[off + label.len()..need].iter_mut() {
            *x = 0x20;
        }
        let got = match fw::catch(|| Encoding::for_label(&b[off..off + label.len()])) {
            Ok(g) => g,
            Err(p) => return Some(format!("for_label panicked on the argument placed {} bytes after a 16-byte boundary: {}", shift, p)),
        };
        let same = match (got, want) {
            (None, None) => true,
            (Some(x), Some(y)) => std::ptr::eq(x, y),
            _ => false,
        };
        if !same {
            return Some(format!("for_label on the same bytes placed {} bytes after a 16-byte boundary = {:?}, the Standard's get-an-encoding gives {:?}", shift, got.map(|e| e.name()), want.map(|e| e.name())));
        }
        None
    })
}

fn check(label: &[u8]) -> Option<String> {
    let want = model(label);
    if label.len() >= 8 {
        if let Some(m) = check_shifted(label, want) {
            return Some(m);
        }
    }
    let got = match fw::catch(|| (Encoding::for_label(label), Encoding::for_label_no_replacement(label))) {
        Ok(g) => g,
        Err(p) => return Some(format!("for_label panicked: {}", p)),
    };
    let same = |a: Option<&'static Encoding>, b: Option<&'static Encoding>| match (a, b) {
        (None, None) => true,
        (Some(x), Some(y)) => std::ptr::eq(x, y),
        _ => false,
    };
    if !same(got.0, want) {
        return Some(format!("for_label = {:?}, the Standard's get-an-encoding gives {:?}", got.0.map(|e| e.name()), want.map(|e| e.name())));
    }
    let want_nr = match want {
        Some(e) if std::ptr::eq(e, REPLACEMENT) => None,
        x => x,
    };
    if !same(got.1, want_nr) {
        return Some(format!("for_label_no_replacement = {:?}, expected {:?}", got.1.map(|e| e.name()), want_nr.map(|e| e.name())));
    }
    None
}

/// the Standard's get-an-encoding for arguments of up to 8 bytes without allocation or table scan:
/// the labels of up to 8 bytes, packed, in a hash map (built from the frozen label table, checked
/// against `model` before use)
struct FastModel {
    map: std::collections::HashMap<(usize, u64), &'static Encoding>,
}

impl FastModel {
    fn new() -> FastModel {
        let g = golden();
        let mut map = std::collections::HashMap::new();
        for (l, e) in &g.labels {
            let b = l.as_bytes();
            if b.len() <= 8 {
                let mut k = 0u64;
                for c in b {
                    k = (k << 8) | u64::from(*c);
                }
                map.insert((b.len(), k), encs::by_const(e).expect("golden label names a known encoding"));
            }
        }
        FastModel { map }
    }
    #[inline]
    fn get(&self, label: &[u8]) -> Option<&'static Encoding> {
        debug_assert!(label.len() <= 8);
        let is_ws = |b: u8| matches!(b, 0x09 | 0x0A | 0x0C | 0x0D | 0x20);
        let mut a = 0;
        let mut b = label.len();
        while a < b && is_ws(label[a]) {
            a += 1;
        }
        while b > a && is_ws(label[b - 1]) {
            b -= 1;
        }
        let mut k = 0u64;
        for c in &label[a..b] {
            let c = if c.is_ascii_uppercase() { *c + 0x20 } else { *c };
            k = (k << 8) | u64::from(c);
        }
        self.map.get(&(b - a, k)).copied()
    }
    /// the fast oracle must agree with the plain one (a disagreement is a harness defect, not a finding)
    fn self_check(&self, labels: &[Vec<u8>]) {
        let same = |a: Option<&'static Encoding>, b: Option<&'static Encoding>| match (a, b) {
            (None, None) => true,
            (Some(x), Some(y)) => std::ptr::eq(x, y),
            _ => false,
        };
        for a in 0..=255u8 {
            assert!(same(self.get(&[a]), model(&[a])));
            for b in [0x09u8, 0x20, b'A', b'a', b'5', 0x0B, 0xFF] {
                assert!(same(self.get(&[a, b]), model(&[a, b])));
                assert!(same(self.get(&[b, a, b]), model(&[b, a, b])));
            }
        }
        for l in labels {
            if l.len() <= 6 {
                let up: Vec<u8> = l.iter().map(|c| c.to_ascii_uppercase()).collect();
                let mut v = vec![0x20];
                v.extend_from_slice(&up);
                v.push(0x0C);
                for c in [&l[..], &up[..], &v[..], &v[1..], &l[1..], &l[..l.len() - 1]] {
                    assert!(same(self.get(c), model(c)), "fast label oracle disagrees with the plain one on {:?}", c);
                }
            }
        }
    }
}

/// every string of `n` bytes over `alpha`, split by the first one or two bytes
fn sweep_all(ctx: &Ctx, fm: &FastModel, alpha: &[u8], n: usize) -> Stats {
    let k = alpha.len();
    let head = n.min(2);
    let parts = k.pow(head as u32);
    let tail = n - head;
    let total = (k as u64).pow(tail as u32);
    let class = format!("every-{}-byte-string-over-{}-byte-values", n, k);
    par_run(ctx, parts, |part, st| {
        let mut v = [0u8; 8];
        v[0] = alpha[part % k];
        if head == 2 {
            v[1] = alpha[part / k];
        }
        for x in v.iter_mut().take(n).skip(head) {
            *x = alpha[0];
        }
        let cur = std::cell::Cell::new([0u8; 8]);
        let mut bad: Option<[u8; 8]> = None;
        let r = fw::catch(|| {
            let mut idx = [0usize; 8];
            for _ in 0..total {
                cur.set(v);
                let got = Encoding::for_label(&v[..n]);
                let want = fm.get(&v[..n]);
                let ok = match (got, want) {
                    (None, None) => true,
                    (Some(x), Some(y)) => std::ptr::eq(x, y),
                    _ => false,
                };
                if !ok {
                    bad = Some(v);
                    return;
                }
                // odometer over positions head..n
                let mut i = head;
                while i < n {
                    idx[i] += 1;
                    if idx[i] < k {
                        v[i] = alpha[idx[i]];
                        break;
                    }
                    idx[i] = 0;
                    v[i] = alpha[0];
                    i += 1;
                }
            }
        });
        if r.is_err() {
            bad = Some(cur.get());
        }
        st.evals += total;
        st.nontrivial_enum += total;
        st.class_n(&class, total);
        if let Some(b) = bad {
            // confirmed (and reported) by the full check with the plain oracle
            one(&b[..n], st, false);
        }
    })
}

fn viol(label: &[u8], m: String) -> Violation {
    Violation { msg: format!("label bytes {} ({:?}): {}", fw::hex(label), String::from_utf8_lossy(label), m), sig: "C13:label".into(), case: json!({"kind": "c13", "label_hex": fw::hex(label)}) }
}

fn one(label: &[u8], st: &mut Stats, exact: bool) -> bool {
    st.evals += 1;
    if !exact {
        st.nontrivial_distinct();
    }
    if let Some(m) = check(label) {
        st.violations.push(viol(label, m));
        return false;
    }
    true
}

/// like `one`, for families whose members may coincide as strings: distinct by content hash
fn one_h(label: &[u8], st: &mut Stats) -> bool {
    st.evals += 1;
    st.nontrivial_hash(fw::fnv(label));
    if let Some(m) = check(label) {
        st.violations.push(viol(label, m));
        return false;
    }
    true
}

pub fn run(ctx: &Ctx) -> i32 {
    let t0 = Instant::now();
    let g = golden();
    let thorough = ctx.tier == fw::Tier::Thorough;
    let labels: Vec<Vec<u8>> = g.labels.iter().map(|(l, _)| l.as_bytes().to_vec()).collect();
    const PAD: [u8; 9] = [0x09, 0x0A, 0x0B, 0x0C, 0x0D, 0x20, 0x00, 0xA0, 0x85];
    let mut pads: Vec<Vec<u8>> = vec![vec![]];
    for a in PAD {
        pads.push(vec![a]);
        for b in PAD {
            pads.push(vec![a, b]);
        }
    }
    let mut pads3 = pads.clone();
    for a in PAD {
        for b in PAD {
            for c in PAD {
                pads3.push(vec![a, b, c]);
            }
        }
    }
    let mut st = par_run(ctx, labels.len(), |li, st| {
        let l = &labels[li];
        let n = l.len();
        if !one(l, st, true) {
            return;
        }
        // substitutions, insertions, deletions
        for i in 0..n {
            for b in 0..=255u8 {
                let mut v = l.clone();
                v[i] = b;
                st.class("substitution");
                if !one(&v, st, false) {
                    return;
                }
            }
            let mut v = l.clone();
            v.remove(i);
            st.class("deletion");
            if !one(&v, st, false) {
                return;
            }
        }
        for i in 0..=n {
            for b in 0..=255u8 {
                let mut v = l.clone();
                v.insert(i, b);
                st.class("insertion");
                if !one(&v, st, false) {
                    return;
                }
            }
        }
        // case masks
        let nm: u64 = if n <= 12 { 1 << n } else { 4096 };
        for m in 0..nm {
            let mask = if n <= 12 { m } else { fw::mix(m, li as u64 ^ ctx.seed) };
            let v: Vec<u8> = l.iter().enumerate().map(|(i, c)| if mask & (1 << (i % 64)) != 0 { c.to_ascii_uppercase() } else { *c }).collect();
            st.class("case-mask");
            if !one(&v, st, false) {
                return;
            }
        }
        // padding
        let use3 = thorough || li % 16 == 0;
        let plist = if use3 { &pads3 } else { &pads };
        for (pi, p) in plist.iter().enumerate() {
            for (qi, q) in plist.iter().enumerate() {
                if use3 && p.len() == 3 && q.len() == 3 && (pi + qi) % 7 != 0 && !thorough {
                    continue;
                }
                let mut v = p.clone();
                v.extend_from_slice(l);
                v.extend_from_slice(q);
                st.class("padding");
                if !one(&v, st, false) {
                    return;
                }
            }
        }
        // label, whitespace, then any single byte - and the mirror image (the trailing / leading
        // phases must reject everything that is not one of the five whitespace bytes)
        for w in [0x09u8, 0x0A, 0x0C, 0x0D, 0x20] {
            for b in 0..=255u8 {
                let mut v = l.clone();
                v.push(w);
                v.push(b);
                st.class("label-whitespace-byte");
                if !one(&v, st, false) {
                    return;
                }
                let mut v = vec![b, w];
                v.extend_from_slice(l);
                st.class("byte-whitespace-label");
                if !one(&v, st, false) {
                    return;
                }
            }
        }
        // inner whitespace, over-long
        for i in 1..n {
            for w in [0x20u8, 0x09, 0x0A] {
                let mut v = l.clone();
                v.insert(i, w);
                st.class("inner-whitespace");
                if !one(&v, st, false) {
                    return;
                }
            }
        }
        for extra in [1usize, 2, 5, 20, 100] {
            let mut v = l.clone();
            for _ in 0..extra {
                v.push(b'x');
            }
            st.class("over-long");
            if !one(&v, st, false) {
                return;
            }
            let mut w = vec![b' '; extra * 7];
            w.extend_from_slice(l);
            w.extend(vec![b'\t'; extra * 3]);
            st.class("long-padding");
            if !one(&w, st, false) {
                return;
            }
        }
        if li == 40 {
            st.sample(1, || json!({"label": String::from_utf8_lossy(l), "families": ["substitution", "insertion", "deletion", "case-mask", "padding", "inner-whitespace", "over-long"]}));
        }
    });
    st.exhaustive.push("228 labels x (all single-byte substitutions, insertions, deletions; all case masks up to 12 bytes; all paddings of up to 2 leading x 2 trailing bytes from a 9-byte set)".into());
    // names, empties, whitespace-only
    if !fw::should_stop() {
        let mut s2 = Stats::new();
        for (i, (_, e)) in encs::ALL.iter().enumerate() {
            s2.evals += 1;
            s2.nontrivial_enum += 1;
            let name = e.name();
            if name != encs::NAMES[i] {
                s2.violations.push(viol(name.as_bytes(), format!("Encoding::name() is {:?}, the Standard's name is {:?}", name, encs::NAMES[i])));
                break;
            }
            match Encoding::for_label(name.as_bytes()) {
                Some(x) if std::ptr::eq(x, *e) => {}
                other => {
                    s2.violations.push(viol(name.as_bytes(), format!("for_label(name()) = {:?}, expected the same instance {}", other.map(|x| x.name()), name)));
                    break;
                }
            }
            if let Some(m) = check(name.as_bytes()) {
                s2.violations.push(viol(name.as_bytes(), m));
                break;
            }
        }
        for p in pads3.iter() {
            if !one(p, &mut s2, false) {
                break;
            }
        }
        st.merge(s2);
    }
    // names from other registries (IANA cs* aliases, CPython / ICU / MySQL spellings), each bare and
    // with "cs" / "x-" added or removed
    if !fw::should_stop() {
        let foreign: Vec<&str> = include_str!("../../../data/foreign_labels.txt").lines().filter(|l| !l.starts_with('#') && !l.is_empty()).collect();
        let r = par_run(ctx, 8, |part, st| {
            for (i, f) in foreign.iter().enumerate() {
                if i % 8 != part {
                    continue;
                }
                let b = f.as_bytes();
                let mut forms: Vec<Vec<u8>> = vec![b.to_vec(), [b"cs", b].concat(), [b"x-", b].concat(), [b"x-x-", b].concat(), [b" ", b, b"\n"].concat(), b.to_ascii_uppercase()];
                if b.len() > 2 && (b.starts_with(b"cs") || b.starts_with(b"x-")) {
                    forms.push(b[2..].to_vec());
                }
                for v in forms {
                    st.class("foreign-registry-name");
                    if !one_h(&v, st) {
                        return;
                    }
                }
            }
        });
        st.merge(r);
        st.exhaustive.push(format!("{} charset names from other registries (data/foreign_labels.txt) x 6-7 forms", foreign.len()));
    }
    // every string over the label alphabet (a-z 0-9 - _ : .) of up to 4 (thorough: 5) bytes
    if !fw::should_stop() {
        const LA: &[u8] = b"abcdefghijklmnopqrstuvwxyz0123456789-_:.";
        let maxn = if thorough { 5 } else { 4 };
        let r = par_run(ctx, LA.len() * LA.len(), |part, st| {
            let (a, b) = (LA[part / LA.len()], LA[part % LA.len()]);
            if part == 0 {
                for c in LA {
                    one(&[*c], st, false);
                }
            }
            if !one(&[a, b], st, false) {
                return;
            }
            let mut sum: usize = 1;
            for n in 3..=maxn {
                let total = LA.len().pow((n - 2) as u32);
                sum += total;
                let mut v = vec![a, b];
                v.resize(n, 0);
                for mut x in 0..total {
                    for i in 2..n {
                        v[i] = LA[x % LA.len()];
                        x /= LA.len();
                    }
                    if !one(&v, st, false) {
                        return;
                    }
                }
                if fw::should_stop() {
                    return;
                }
            }
            st.class_n("every-short-string-over-the-label-alphabet", sum as u64);
        });
        st.merge(r);
        st.exhaustive.push(format!("every string of 1..={} bytes over the 40-character label alphabet", maxn));
    }
    // every byte string of up to 3 bytes over all 256 values, every 4-byte string over 09..=7E
    // (thorough: over all 256 values) and every 5-byte string of printable ASCII 21..=7E (thorough:
    // 20..=7E): nothing about these strings is derived from the label table, so a shortcut keyed on
    // length, a checksum or a few positions of the argument has nowhere to hide below 6 bytes
    if !fw::should_stop() {
        let fm = FastModel::new();
        fm.self_check(&labels);
        let all: Vec<u8> = (0..=255u8).collect();
        let low: Vec<u8> = (0x09..=0x7Eu8).collect();
        let pr: Vec<u8> = (0x21..=0x7Eu8).collect();
        let sp: Vec<u8> = (0x20..=0x7Eu8).collect();
        let mut plan: Vec<(&[u8], usize)> = vec![(&all, 1), (&all, 2), (&all, 3)];
        if thorough {
            plan.push((&all, 4));
            plan.push((&sp, 5));
        } else {
            plan.push((&low, 4));
            plan.push((&pr, 5));
        }
        for (alpha, n) in plan {
            if fw::should_stop() {
                break;
            }
            let r = sweep_all(ctx, &fm, alpha, n);
            st.merge(r);
            st.exhaustive.push(format!("every string of {} byte(s) over the {} byte values {:02X}..={:02X}", n, alpha.len(), alpha[0], alpha[alpha.len() - 1]));
        }
    }
    // label vocabulary: every sequence of up to 3 tokens (letter runs with cs/x split off, digit runs,
    // punctuation) taken from the labels themselves - "csutf8", "iso8859-1", "windows1252-8" ...
    if !fw::should_stop() {
        let mut vocab: Vec<Vec<u8>> = Vec::new();
        for l in &labels {
            let mut i = 0;
            while i < l.len() {
                let cls = |c: u8| if c.is_ascii_alphabetic() { 0 } else if c.is_ascii_digit() { 1 } else { 2 };
                let mut j = i + 1;
                while j < l.len() && cls(l[j]) == cls(l[i]) && cls(l[i]) != 2 {
                    j += 1;
                }
                let t = l[i..j].to_vec();
                if t.len() > 2 && t.starts_with(b"cs") {
                    vocab.push(b"cs".to_vec());
                    vocab.push(t[2..].to_vec());
                }
                vocab.push(t);
                i = j;
            }
        }
        vocab.sort();
        vocab.dedup();
        let nv = vocab.len();
        let r = par_run(ctx, nv, |a, st| {
            let mut v: Vec<u8> = Vec::with_capacity(64);
            for b in 0..nv {
                v.clear();
                v.extend_from_slice(&vocab[a]);
                v.extend_from_slice(&vocab[b]);
                let l2 = v.len();
                st.class("label-vocabulary-sequence");
                if !one_h(&v, st) {
                    return;
                }
                for c in 0..nv {
                    v.truncate(l2);
                    v.extend_from_slice(&vocab[c]);
                    st.class("label-vocabulary-sequence");
                    if !one_h(&v, st) {
                        return;
                    }
                }
                if fw::should_stop() {
                    return;
                }
            }
        });
        st.merge(r);
        st.exhaustive.push(format!("every sequence of 2 and 3 tokens over the {}-token vocabulary cut out of the labels", nv));
    }
    // wrappers: label between every pair of delimiters a header or attribute parser might leave on
    if !fw::should_stop() {
        const WRAP: &[&[u8]] = &[
            b"", b"\"", b"'", b"`", b"(", b")", b"[", b"]", b"{", b"}", b"<", b">", b";", b",", b"=", b"/", b"\\", b"*", b"?", b"!", b"#", b"%", b"&", b"+", b"|", b"~", b"^", b"$", b"@", b"\x00", b"\x0B", b"\x1F", b"\x7F",
            b"\xA0", b"\x85", b"\xC2\xA0", b"\xE2\x80\x8B", b"\xEF\xBB\xBF", b"\xE3\x80\x80", b"\xE2\x80\xA8", b"charset=", b"charset=\"", b"\";", b"\" ", b" \"", b"\r\n", b"\\n", b"%20", b"&quot;", b"\"\"",
        ];
        let r = par_run(ctx, labels.len(), |li, st| {
            let l = &labels[li];
            for pre in WRAP {
                for post in WRAP {
                    if pre.is_empty() && post.is_empty() {
                        continue;
                    }
                    let v = [*pre, &l[..], *post].concat();
                    st.class("delimiter-wrapped-label");
                    if !one(&v, st, false) {
                        return;
                    }
                }
            }
        });
        st.merge(r);
        st.exhaustive.push(format!("228 labels x every (prefix, suffix) pair from {} delimiters (quotes, brackets, separators, non-ASCII spaces, BOM, 'charset=')", WRAP.len()));
    }
    // long arguments: runs of one byte before / after / around the label, lengths 1..=40 and around
    // every power of two up to 2^16 (a narrow counter or a scratch index that wraps)
    if !fw::should_stop() {
        let mut lens: Vec<usize> = (1..=40).collect();
        for p in [64usize, 128, 256, 512, 1024, 4096, 65536] {
            for d in 0..=20 {
                lens.push(p - 10 + d);
            }
            if p == 256 || p == 65536 {
                for d in 21..=40 {
                    lens.push(p - 20 + d);
                }
            }
        }
        let r = par_run(ctx, labels.len(), |li, st| {
            let l = &labels[li];
            let bodies: &[u8] = if thorough || li % 8 == 0 { b"a-0 xA\t_\x00" } else { b"a- " };
            for &c in bodies {
                for &k in &lens {
                    if k > 5000 && !(thorough || li % 32 == 0) {
                        continue;
                    }
                    let run = vec![c; k];
                    for form in 0..6 {
                        if form >= 4 && c != b' ' && c != b'\t' {
                            continue;
                        }
                        let v = match form {
                            0 => [&run[..], &l[..]].concat(),
                            1 => [&l[..], &run[..]].concat(),
                            2 => [&run[..], &l[..], &run[..]].concat(),
                            // run, a whitespace byte, label: the run is a separate word
                            3 => [&run[..], b" ", &l[..]].concat(),
                            // a word, a run of whitespace, the label - and mirrored: whitespace that is not at the edge
                            4 => [b"xy", &run[..], &l[..]].concat(),
                            _ => [&l[..], &run[..], b"xy"].concat(),
                        };
                        st.class("label-with-long-run");
                        if !one(&v, st, false) {
                            return;
                        }
                    }
                }
                if fw::should_stop() {
                    return;
                }
            }
        });
        st.merge(r);
        st.exhaustive.push("228 labels x runs of one byte (label character, whitespace, NUL ...) of 1..=40 and 2^k-10..=2^k+10 (k = 6..10, 12, 16) bytes before / after / around the label".into());
    }
    // two simultaneous edits (substitutions over the label alphabet): thorough, and every 8th label in quick
    if !fw::should_stop() {
        const LA: &[u8] = b"abcdefghijklmnopqrstuvwxyz0123456789-_:. \"";
        let r = par_run(ctx, labels.len(), |li, st| {
            if !(thorough || li % 8 == 3) {
                return;
            }
            let l = &labels[li];
            let n = l.len();
            let mut v = l.clone();
            for i in 0..n {
                for j in (i + 1)..n {
                    for &a in LA {
                        for &b in LA {
                            v[i] = a;
                            v[j] = b;
                            st.class("two-substitutions");
                            if !one(&v, st, false) {
                                return;
                            }
                        }
                    }
                    v[j] = l[j];
                }
                v[i] = l[i];
                if fw::should_stop() {
                    return;
                }
            }
        });
        st.merge(r);
    }
    // random strings over the label alphabet
    if !fw::should_stop() {
        use proptest::prelude::*;
        const ALPHA: &[u8] = b"abcdefghijklmnopqrstuvwxyzABCDEFGHIJKLMNOPQRSTUVWXYZ0123456789-_:.() \t\n\x0C\r\x0B\x00\xA0";
        let r = par_run(ctx, 16, |part, st| {
            let strat = (proptest::collection::vec(any::<u32>(), 0..24), 0usize..228, any::<u8>()).prop_map(|(xs, li, how)| {
                let mut v: Vec<u8> = xs.iter().map(|x| ALPHA[crate::gen::pick(*x, ALPHA.len())]).collect();
                if how % 3 == 0 {
                    // splice a real label in
                    let l = golden().labels[li].0.as_bytes();
                    let at = v.len() / 2;
                    let tail = v.split_off(at);
                    v.extend_from_slice(l);
                    v.extend_from_slice(&tail);
                }
                v
            });
            fw::run_random(ctx, 60 + part as u64, ctx.n(20_000, 700_000), &strat, st, |v, st| {
                st.class("random-string");
                st.nontrivial_hash(fw::fnv(v));
                match check(v) {
                    None => vec![],
                    Some(m) => vec![viol(v, m)],
                }
            });
        });
        st.merge(r);
    }
    fw::finish(ctx, st, RULE, &["the frozen label table (data/labels.txt, generated from WHATWG encodings.json) is the Standard's"], t0.elapsed().as_secs_f64()).exit
}

pub fn replay(case: &Value) -> Option<Vec<Violation>> {
    let l = fw::unhex(case.get("label_hex")?.as_str()?);
    Some(match check(&l) {
        None => vec![],
        Some(m) => vec![viol(&l, m)],
    })
}
