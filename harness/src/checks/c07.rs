//! C07 - worst-case buffer-length queries are sufficient in every reachable state.
use super::dech::{self, DecCheck};
use super::ench::{self, EncCheck};
use crate::drive_dec::{BomMode, Sink};
use crate::drive_enc::{ESink, Src};
use crate::encs;
use crate::fw::{self, par_run, Ctx, Stats, Violation};
use crate::hist::{self, Profile};
use crate::hist_enc::EProfile;
use serde_json::json;
use std::time::Instant;

pub const RULE: &str = "case = decoder / encoder history whose capacity sequence contains 'query' steps: the matching max_* method is asked on the live converter for the length of the remaining chunk and the call is issued with a destination of exactly that many units, interleaved with small-capacity steps so that queries happen in every pending state (withheld BOM bytes, pending lead / ASCII / BMP unit, half-read escape, non-ASCII encoder state); oracle = such a call never returns OutputFull (with-replacement encoder queries: only texts without unmappable characters, decided by the reference model). Overflow clause: for lengths near usize::MAX, MAX/2, MAX/3, MAX/4 in every such state the answer is None or is monotone in the length and not below the extrapolation of the formula's growth measured at small lengths (a wrapped product breaks both). Non-trivial = the converter is not in its initial state when queried; distinct = distinct history / (state, length) pair.";

fn overflow_lengths() -> Vec<usize> {
    let mut v = Vec::new();
    for base in [usize::MAX, usize::MAX / 2, usize::MAX / 3, usize::MAX / 4, usize::MAX / 5, usize::MAX / 6, usize::MAX / 8] {
        for k in 0..=4usize {
            v.push(base - k);
            if let Some(x) = base.checked_add(k) {
                v.push(x);
            }
        }
    }
    for x in [0usize, 1, 2, 3, 16, 1000, 1 << 20, 1 << 40, 1 << 62] {
        v.push(x);
    }
    v.sort();
    v.dedup();
    v
}

/// The max_* formulas are non-decreasing and affine in the length up to integer-division
/// floors.  The slope is measured at small lengths (no overflow possible); for huge lengths an
/// answer of Some(v) must not be below the extrapolation minus a small tolerance - a wrapped
/// product is far below it - and the answers must be monotone in the length.  None is always
/// acceptable for a huge length (an intermediate step may overflow before the final value does).
fn check_monotone(name: &str, f: &dyn Fn(usize) -> Option<usize>) -> Option<String> {
    let (a, b, c) = match (fw::catch(|| f(0)), fw::catch(|| f(1 << 20)), fw::catch(|| f(1 << 21))) {
        (Ok(Some(a)), Ok(Some(b)), Ok(Some(c))) => (a as u128, b as u128, c as u128),
        (Err(p), _, _) | (_, Err(p), _) | (_, _, Err(p)) => return Some(format!("{} panicked: {}", name, p)),
        _ => return Some(format!("{} returned None for a small length", name)),
    };
    if c < b || b < a {
        return Some(format!("{} is not monotone at small lengths: f(0)={} f(2^20)={} f(2^21)={}", name, a, b, c));
    }
    let s_num = c - b; // per 2^20 units
    let tol = (s_num >> 20) + 16;
    let lens = overflow_lengths();
    let mut prev: Option<(usize, Option<usize>)> = None;
    for &l in &lens {
        let r = match fw::catch(|| f(l)) {
            Ok(r) => r,
            Err(p) => return Some(format!("{}({}) panicked: {}", name, l, p)),
        };
        if let Some(v) = r {
            let expect = a + ((s_num * l as u128) >> 20);
            if (v as u128) + tol < expect {
                return Some(format!("{}({}) = Some({}) but the formula's growth measured at small lengths gives about {} (wrapped arithmetic instead of None?)", name, l, v, expect));
            }
        }
        if let Some((pl, pr)) = prev {
            match (pr, r) {
                (None, Some(v)) => return Some(format!("{}({}) = None but {}({}) = Some({})", name, pl, name, l, v)),
                (Some(x), Some(y)) if y < x => return Some(format!("{}({}) = {} > {}({}) = {} (not monotone: wrapped arithmetic?)", name, pl, x, name, l, y)),
                _ => {}
            }
        }
        prev = Some((l, r));
    }
    None
}

pub fn overflow_family(ctx: &Ctx) -> Stats {
    let all = encs::all();
    let mut st = par_run(ctx, all.len(), |part, st| {
        let enc = all[part];
        let algo = crate::model_dec::algo_for(enc);
        // decoder states: reached by feeding each atom / atom pair prefix without `last`
        let prefixes = hist::core_streams(algo, 4, false);
        for mode in BomMode::ALL {
            for p in prefixes.iter().chain(hist::bom_atoms().iter()) {
                let mut dec = mode.new_decoder(enc);
                let mut dst = [0u8; 64];
                let mut off = 0;
                let mut guard = 0;
                while guard < 16 {
                    guard += 1;
                    let r = fw::catch(|| dec.decode_to_utf8_without_replacement(&p[off..], &mut dst, false));
                    match r {
                        Ok((encoding_rs::DecoderResult::InputEmpty, rd, _)) => {
                            off += rd;
                            break;
                        }
                        Ok((_, rd, _)) => off += rd,
                        Err(_) => break,
                    }
                }
                st.evals += 3;
                if !p.is_empty() {
                    st.nontrivial_enum += 3;
                }
                let d = &dec;
                let checks: [(&str, Box<dyn Fn(usize) -> Option<usize> + '_>); 3] = [
                    ("max_utf8_buffer_length", Box::new(move |l| d.max_utf8_buffer_length(l))),
                    ("max_utf8_buffer_length_without_replacement", Box::new(move |l| d.max_utf8_buffer_length_without_replacement(l))),
                    ("max_utf16_buffer_length", Box::new(move |l| d.max_utf16_buffer_length(l))),
                ];
                for (name, f) in checks.iter() {
                    if let Some(m) = check_monotone(name, f.as_ref()) {
                        st.violations.push(Violation { msg: format!("{} decoder ({}) after prefix {}: {}", enc.name(), mode.name(), fw::hex(p), m), sig: "C07:overflow".into(), case: json!({"kind": "c07_overflow_dec", "encoding": encs::const_name(enc), "mode": mode.name(), "prefix_hex": fw::hex(p)}) });
                        return;
                    }
                }
            }
        }
        // encoder states: fresh, and ISO-2022-JP after a kanji / a yen sign
        for pre in ["", "\u{3042}", "\u{A5}"] {
            let mut e = enc.new_encoder();
            let mut dst = [0u8; 64];
            let _ = e.encode_from_utf8_without_replacement(pre, &mut dst, false);
            st.evals += 4;
            if !pre.is_empty() {
                st.nontrivial_enum += 4;
            }
            let er = &e;
            let checks: [(&str, Box<dyn Fn(usize) -> Option<usize> + '_>); 4] = [
                ("max_buffer_length_from_utf8_if_no_unmappables", Box::new(move |l| er.max_buffer_length_from_utf8_if_no_unmappables(l))),
                ("max_buffer_length_from_utf8_without_replacement", Box::new(move |l| er.max_buffer_length_from_utf8_without_replacement(l))),
                ("max_buffer_length_from_utf16_if_no_unmappables", Box::new(move |l| er.max_buffer_length_from_utf16_if_no_unmappables(l))),
                ("max_buffer_length_from_utf16_without_replacement", Box::new(move |l| er.max_buffer_length_from_utf16_without_replacement(l))),
            ];
            for (name, f) in checks.iter() {
                if let Some(m) = check_monotone(name, f.as_ref()) {
                    st.violations.push(Violation { msg: format!("{} encoder after {:?}: {}", enc.name(), pre, m), sig: "C07:overflow".into(), case: json!({"kind": "c07_overflow_enc", "encoding": encs::const_name(enc), "prefix": pre}) });
                    return;
                }
            }
        }
        st.sample(1, || json!({"encoding": enc.name(), "query_lengths": "0,1,2,3,16,1000,2^20,2^40,2^62 and usize::MAX/{1,2,3,4,5,6,8} +- 0..=4", "states": "after every atom / atom-pair / BOM look-alike prefix in all three BOM modes; encoders fresh and after U+3042 / U+00A5"}));
    });
    st.exhaustive.push("overflow clause: every max_* query x ~70 lengths around usize::MAX/{1,2,3,4,5,6,8} x every decoder state reachable by an atom / atom-pair / BOM look-alike prefix (3 BOM modes) and encoder states, all 40 encodings".into());
    st
}

pub fn run(ctx: &Ctx) -> i32 {
    let t0 = Instant::now();
    let mut st = overflow_family(ctx);
    if !fw::should_stop() {
        let mut e = encs::multibyte();
        e.extend(encs::single_byte_sample());
        let dc = DecCheck {
            verdict: &dech::verdict_c07,
            encs: e,
            modes: vec![BomMode::None, BomMode::Sniff, BomMode::Remove],
            sinks: vec![Sink::Utf8, Sink::Utf16],
            repls: vec![false, true],
            cap_patterns: &|s| dech::sample_query_caps(s),
            core_max_len: ctx.tier.pick(6, 8),
            triples: true,
            bom_prefixes: true,
            random_per_enc: ctx.n(4_000, 120_000),
            profile: Profile { max_tokens: ctx.tier.pick(10, 40), small_caps_weight: 200, queries: true, exact_queries: true, modes: &hist::ALL_MODES, sinks: &hist::ALL_SINKS, bom_prefix_weight: 64 },
            fills: vec![0xA5],
            mixed_sinks: false,
            mixed_all: true,
        };
        st.merge(dech::run_dec_check(ctx, &dc));
    }
    if !fw::should_stop() {
        let ec = EncCheck {
            verdict: &ench::verdict_c07,
            encs: ench::encoder_encodings(),
            srcs: vec![Src::Utf8, Src::Utf16],
            sinks: vec![ESink::Slice, ESink::Vec],
            repls: vec![false, true],
            cap_patterns: &|r| ench::query_caps(r),
            core_max_chars: ctx.tier.pick(2, 3),
            core_max_chars_2022: 3,
            random_per_enc: ctx.n(5_000, 120_000),
            profile: EProfile { max_chars: ctx.tier.pick(12, 64), small_caps_weight: 200, queries: true, exact_queries: true, mappable_only: false },
            mappable_only_when_repl: true,
        };
        st.merge(ench::run_enc_check(ctx, &ec));
    }
    fw::finish(ctx, st, RULE, &["the destination offered is exactly the query answer (also when that is below the general documented minimum, as an end-of-stream flush sized by max_*(0) is)", "for the if_no_unmappables queries the precondition (no unmappable character) is decided by the reference encoder model"], t0.elapsed().as_secs_f64()).exit
}

pub fn replay(case: &serde_json::Value) -> Option<Vec<Violation>> {
    match case.get("kind").and_then(|k| k.as_str()) {
        Some("enc_history") => ench::replay_with(case, &ench::verdict_c07),
        Some("dec_history") => dech::replay_with(case, &dech::verdict_c07),
        _ => {
            // overflow cases: re-run the whole (cheap, deterministic) family
            let ctx = Ctx { prop: "C07".into(), tier: fw::Tier::Quick, seed: 0, threads: 4, scale: 1.0 };
            let st = overflow_family(&ctx);
            Some(st.violations)
        }
    }
}
