//! C15 - mem conversions are exact and respect their partial-output contracts.
use super::memfam::{self, MemFamily};
use crate::fw::{self, Ctx};
use std::time::Instant;

pub const RULE: &str = "case = (mem function, source, destination length, source/destination alignment 0..15, destination fill); sources: lengths 0..=L with ASCII / 2- / 3- / 4-byte fillers and one planted unit of every class (valid characters of each length, Latin1 edge, every class of ill-formed UTF-8, surrogate arrangements) at every position, plus seeded random token streams; destination lengths from 0 to the sufficient size for the *_partial forms (clustered around the planted position) and the documented size (+0/1/17) for the others. Oracle = std-based reference conversions (from_utf8_lossy, decode_utf16 with U+FFFD, char::encode_utf8/16, byte<->char casts): exact return values and written prefix; *_partial = TextEncoder.encodeInto() semantics (as many whole characters as fit: exact read/written, which implies maximality and no split pair); without-replacement forms None iff invalid; copy_* stop at the first non-ASCII unit; decode_latin1/encode_latin1_lossy borrow iff ASCII-only and a borrow aliases the argument; convert_utf16_to_utf8_partial leaves bytes beyond `written` unmodified (documented). Non-trivial = source with a non-ASCII unit and, for *_partial, a destination smaller than the sufficient size; distinct = distinct case.";

pub fn run(ctx: &Ctx) -> i32 {
    let t0 = Instant::now();
    let fam = MemFamily {
        prop: "C15",
        fns: memfam::all_fns(),
        fills_mode: false,
        max_len: ctx.tier.pick(56, 160),
        aligns: if ctx.tier == fw::Tier::Thorough { (0..16).map(|i| (i, (i * 7 + 3) & 15)).collect() } else { vec![(0, 0), (1, 0), (0, 3), (15, 7)] },
        random_per_fn: ctx.n(20_000, 600_000),
        max_tokens: ctx.tier.pick(12, 40),
    };
    let st = memfam::run_mem_family(ctx, &fam);
    fw::finish(ctx, st, RULE, &["the standard library's lossy UTF-8 / UTF-16 conversions implement the WHATWG 'maximal subpart' replacement policy", "convert_utf8_to_latin1_lossy / convert_utf16_to_latin1_lossy / encode_latin1_lossy are only given input inside their documented domain (outside it the documentation promises memory safety only, which C06 checks)"], t0.elapsed().as_secs_f64()).exit
}

pub fn replay(case: &serde_json::Value) -> Option<Vec<fw::Violation>> {
    memfam::replay_mem(case, "C15", false)
}
