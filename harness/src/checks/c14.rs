//! C14 - validators return the exact length of the longest valid prefix.
use super::valfam::{self, ValFamily};
use crate::fw::{self, Ctx};
use crate::valchk::C14_FNS;
use std::time::Instant;

pub const RULE: &str = "case = (validator, slice, start alignment 0..15, UTF-8 path as built or scalar forced through the hook); slices of every length 0..=L carved out of a larger buffer, valid filler (ASCII, 2-, 3-, 4-byte mixes) with one (thorough: two) planted unit of every class at every position: every invalid UTF-8 class (C0/C1, F5-FF, lone continuation, truncated 2/3/4-byte forms, E0 80-9F, ED A0-BF, F0 80-8F, F4 90+, bad 2nd/3rd/4th byte), valid characters of each length incl. the Latin1 edge, ESC/SO/SI, surrogate arrangements; plus seeded random token streams. Oracle = std::str::from_utf8(..).valid_up_to() and naive index scans written from the doc sentence of each function. Non-trivial = defect at index > 0 or length >= 16; distinct = distinct (function, slice, alignment, path).";

pub fn run(ctx: &Ctx) -> i32 {
    let t0 = Instant::now();
    let thorough = ctx.tier == fw::Tier::Thorough;
    let mut st = fw::Stats::new();
    for force in [false, true] {
        encoding_rs::verif_hooks::set_force_scalar_utf8(force);
        let fam = ValFamily {
            fns: if force { vec![crate::valchk::VFn::Utf8ValidUpTo] } else { C14_FNS.to_vec() },
            max_len: ctx.tier.pick(160, 320),
            aligns: if thorough { (0..16).collect() } else { vec![0, 1, 7, 15] },
            two_defects: true,
            random_per_fn: ctx.n(40_000, 1_500_000),
            max_tokens: ctx.tier.pick(14, 40),
            force_scalar: force,
            extra_units8: vec![],
            extra_units16: vec![],
        };
        st.merge(valfam::run_val_family(ctx, &fam));
        if fw::should_stop() {
            break;
        }
    }
    encoding_rs::verif_hooks::set_force_scalar_utf8(false);
    st.notes.push("Encoding::utf8_valid_up_to is run twice: with the dispatch this CPU takes (simdutf8 AVX2 for >= 64 bytes) and with the built-in scalar validator forced for every length through the hsivonen_encoding_rs_verif hook".into());
    fw::finish(ctx, st, RULE, &["only the dispatch arms this CPU takes (AVX2 simdutf8, and the scalar loop via the hook) are executed; SSE4.2-only and NEON arms are unreachable here", "std::str::from_utf8 is correct"], t0.elapsed().as_secs_f64()).exit
}

pub fn replay(case: &serde_json::Value) -> Option<Vec<fw::Violation>> {
    valfam::replay_val(case)
}
