//! Engine for encoder-history properties (C04, C12 and the encoder parts of C06-C09, C18).

use crate::drive_dec::{BomMode, DecDriver, DecHistory, Sink};
use crate::drive_enc::{describe, EFaultKind, ERes, ESink, EncDriver, EncHistory, EncOutcome, Src, CAP_QUERY, CAP_QUERY_EXACT};
use crate::fw::{self, par_run, Ctx, Stats, Violation};
use crate::hist_enc::{self, EProfile};
use crate::model_enc::{self, enc_algo_for, EncAlgo};
use encoding_rs::*;
use std::collections::HashMap;

#[derive(Clone, Debug)]
pub struct ERef {
    pub bytes: Vec<u8>,
    pub unmappables: Vec<(usize, u32)>,
    pub had: bool,
    pub ok: bool,
    pub problem: String,
}

pub struct EScratch {
    pub drv: EncDriver,
    pub ddrv: DecDriver,
    cache: HashMap<(usize, bool, bool, u64), ERef>,
}

fn text_hash(t: &[u32]) -> u64 {
    let mut h = 99u64;
    for c in t {
        h = fw::mix(h, *c as u64);
    }
    h
}

impl EScratch {
    pub fn new() -> EScratch {
        EScratch { drv: EncDriver::new(), ddrv: DecDriver::new(), cache: HashMap::new() }
    }
    /// single-call ample-buffer run from the given source form on the given text
    pub fn reference(&mut self, enc: &'static Encoding, src: Src, repl: bool, text: &[u32]) -> ERef {
        let key = (crate::encs::index_of(enc), src == Src::Utf16, repl, text_hash(text));
        if let Some(r) = self.cache.get(&key) {
            return r.clone();
        }
        if self.cache.len() > 4096 {
            self.cache.clear();
        }
        let h = EncHistory::simple(enc, src, repl, text);
        let out = self.drv.run(&h);
        let ok = out.completed && out.faults.is_empty();
        let problem = if ok { String::new() } else { out.faults.first().map(|f| f.msg.clone()).unwrap_or_else(|| "did not complete".into()) };
        let r = ERef { bytes: out.out.clone(), unmappables: out.unmappables.clone(), had: out.had_unmappables, ok, problem };
        self.cache.insert(key, r.clone());
        r
    }
}

pub type Verdict = Option<(String, String)>;
pub type VerdictFn = dyn Fn(&EncHistory, &mut EScratch, &mut Stats, bool) -> Verdict + Sync;

pub struct EncCheck<'a> {
    pub verdict: &'a VerdictFn,
    pub encs: Vec<&'static Encoding>,
    pub srcs: Vec<Src>,
    pub sinks: Vec<ESink>,
    pub repls: Vec<bool>,
    pub cap_patterns: &'a (dyn Fn(bool) -> Vec<Vec<usize>> + Sync),
    /// max characters of the enumerated texts (all sequences over the class alphabet)
    pub core_max_chars: usize,
    /// larger bound for ISO-2022-JP (state transitions)
    pub core_max_chars_2022: usize,
    pub random_per_enc: u64,
    pub profile: EProfile,
    pub mappable_only_when_repl: bool,
}

pub fn encoder_encodings() -> Vec<&'static Encoding> {
    vec![BIG5, EUC_JP, EUC_KR, GBK, GB18030, ISO_2022_JP, SHIFT_JIS, UTF_8, UTF_16LE, WINDOWS_1252, WINDOWS_1255, KOI8_U, ISO_8859_6, X_USER_DEFINED, REPLACEMENT]
}

fn nontrivial_mark(st: &mut Stats, enumerated: bool, h: &EncHistory) {
    if enumerated {
        st.nontrivial_distinct();
    } else {
        st.nontrivial_hash(h.hash());
    }
}

fn violation_for(h: &EncHistory, check: &EncCheck, msg: String, sig: String) -> Violation {
    let min = fw::shrink_greedy(
        h.clone(),
        |x: &EncHistory| x.shrink_candidates(),
        |x: &EncHistory| {
            let mut sc = EScratch::new();
            let mut st = Stats::new();
            (check.verdict)(x, &mut sc, &mut st, true).map_or(false, |(_, sig)| fw::known_open_id(&sig).is_none())
        },
    );
    let mut sc = EScratch::new();
    let mut st = Stats::new();
    let (msg, sig) = (check.verdict)(&min, &mut sc, &mut st, true).unwrap_or((msg, sig));
    let out = sc.drv.run(&min);
    let mut case = min.to_json();
    case["transcript"] = out.transcript_json();
    case["output_hex"] = serde_json::json!(fw::hex(&out.out));
    Violation { msg: format!("{}: {}", describe(&min), msg), sig, case }
}

pub fn run_enc_check(ctx: &Ctx, check: &EncCheck) -> Stats {
    let mut total = Stats::new();
    const SLICES: usize = 8;
    let n_enc = check.encs.len();
    let st = par_run(ctx, n_enc * SLICES, |part, st| {
        let enc = check.encs[part / SLICES];
        let slice = part % SLICES;
        let algo = enc_algo_for(enc);
        let alpha = hist_enc::alphabet(enc);
        let maxc = if algo == EncAlgo::Iso2022Jp { check.core_max_chars_2022 } else { check.core_max_chars };
        // all texts of 0..=maxc characters over the alphabet (+ lone surrogates for UTF-16)
        let mut texts: Vec<Vec<u32>> = vec![vec![]];
        let mut frontier: Vec<Vec<u32>> = vec![vec![]];
        let mut alpha16 = alpha.clone();
        alpha16.extend_from_slice(&[0xD800, 0xDC00]);
        for _ in 0..maxc {
            let mut next = Vec::new();
            for t in &frontier {
                for &c in &alpha16 {
                    let mut v = t.clone();
                    v.push(c);
                    next.push(v);
                }
            }
            texts.extend(next.iter().cloned());
            frontier = next;
        }
        let mut sc = EScratch::new();
        for (ti, text) in texts.iter().enumerate() {
            if ti % SLICES != slice {
                continue;
            }
            if fw::should_stop() {
                return;
            }
            let has_sur = text.iter().any(|c| crate::drive_enc::is_sur(*c));
            for &src in &check.srcs {
                if has_sur && src == Src::Utf8 {
                    continue;
                }
                for &repl in &check.repls {
                    if repl && check.mappable_only_when_repl && text.iter().any(|c| crate::drive_enc::is_sur(*c) || !model_enc::mappable(algo, *c)) {
                        continue;
                    }
                    let pats = (check.cap_patterns)(repl);
                    for &sink in &check.sinks {
                        if sink == ESink::Vec && src == Src::Utf16 {
                            continue;
                        }
                        let mut probe = EncHistory::simple(enc, src, repl, text);
                        probe.normalize();
                        let cut_sets = hist_enc::cut_sets(probe.text.len());
                        for cuts in &cut_sets {
                            for last_on_empty in [false, true] {
                                for (pi, caps) in pats.iter().enumerate() {
                                    let mut h = probe.clone();
                                    h.sink = sink;
                                    h.cuts = cuts.clone();
                                    h.last_on_empty = last_on_empty;
                                    h.caps = caps.clone();
                                    h.fill = [0xA5, 0x00, 0xFF][pi % 3];
                                    h.align = (ti + pi) & 15;
                                    st.evals += 1;
                                    if let Some((msg, sig)) = (check.verdict)(&h, &mut sc, st, true) {
                                        if let Some(id) = fw::known_open_id(&sig) {
                                            st.known_hit(id);
                                        } else {
                                            st.violations.push(violation_for(&h, check, msg, sig));
                                            return;
                                        }
                                    }
                                    if st.samples.is_empty() && h.text.len() >= 2 && !h.cuts.is_empty() && !h.caps.is_empty() && h.text.iter().any(|c| *c >= 0x80) {
                                        let o = sc.drv.run(&h);
                                        let mut j = h.to_json();
                                        j["transcript"] = o.transcript_json();
                                        j["output_hex"] = serde_json::json!(fw::hex(&o.out));
                                        st.samples.push(j);
                                    }
                                }
                            }
                        }
                    }
                }
            }
        }
    });
    total.merge(st);
    total.exhaustive.push(format!(
        "per encoder: all texts of 0..={} characters ({} for ISO-2022-JP) over its class alphabet (+ lone high/low surrogates for UTF-16 sources) x all cut sets at character boundaries (incl. empty chunks) x last on data/empty call x capacity patterns x source forms x sinks x replacement modes",
        check.core_max_chars, check.core_max_chars_2022
    ));
    if fw::should_stop() {
        return total;
    }
    // ---- stride family: an ASCII run whose length straddles the 16-unit strides of the encoders'
    // ASCII fast paths, then one character of each class, with capacities around the run length
    let st = par_run(ctx, n_enc, |part, st| {
        let enc = check.encs[part];
        let algo = enc_algo_for(enc);
        let mut alpha = hist_enc::alphabet(enc);
        alpha.extend_from_slice(&[0xD800, 0xDC00]);
        let mut sc = EScratch::new();
        for l in [7usize, 15, 16, 17, 31, 32, 33, 48] {
            for &x in &alpha {
                if fw::should_stop() {
                    return;
                }
                let mut text: Vec<u32> = (0..l).map(|i| 0x61 + (i % 26) as u32).collect();
                text.push(x);
                text.push(0x62);
                for &src in &check.srcs {
                    if crate::drive_enc::is_sur(x) && src == Src::Utf8 {
                        continue;
                    }
                    for &repl in &check.repls {
                        if repl && check.mappable_only_when_repl && (crate::drive_enc::is_sur(x) || !model_enc::mappable(algo, x)) {
                            continue;
                        }
                        let m = if repl { 14 } else { 4 };
                        for delta in 0..=8usize {
                            let cap = (l + delta).saturating_sub(2).max(m);
                            for caps in [vec![cap], vec![cap, 64], vec![cap + if repl { 10 } else { 0 }]] {
                                for cuts in [vec![], vec![l], vec![l + 1]] {
                                    for &sink in &check.sinks {
                                        if sink == ESink::Vec && src == Src::Utf16 {
                                            continue;
                                        }
                                        let mut h = EncHistory::simple(enc, src, repl, &text);
                                        h.sink = sink;
                                        h.caps = caps.clone();
                                        h.cuts = cuts.clone();
                                        h.align = (l + delta) & 15;
                                        st.evals += 1;
                                        st.class("ascii-run-then-character-at-the-output-limit");
                                        if let Some((msg, sig)) = (check.verdict)(&h, &mut sc, st, true) {
                                            if let Some(id) = fw::known_open_id(&sig) {
                                                st.known_hit(id);
                                            } else {
                                                st.violations.push(violation_for(&h, check, msg, sig));
                                                return;
                                            }
                                        }
                                    }
                                }
                            }
                        }
                    }
                }
            }
        }
    });
    total.merge(st);
    total.exhaustive.push("stride family: ASCII run of 7/15/16/17/31/32/33/48 characters + each alphabet character + 'b' x capacities run length-2..+6 x cuts {none, before, after the character} x sources x sinks x modes".into());
    if fw::should_stop() {
        return total;
    }
    // ---- numeric-character-reference family: the scalars on either side of every change in the
    // number of decimal digits (10^k - 1, 10^k, 10^k + 1) and of every UTF-8 / UTF-16 length class,
    // alone, between ASCII and doubled, so each digit-count rung of the reference writer is taken
    // by its first and last value in every encoder, source form and sink
    let st = par_run(ctx, n_enc, |part, st| {
        let enc = check.encs[part];
        let algo = enc_algo_for(enc);
        let mut sc = EScratch::new();
        let mut bounds: Vec<u32> = vec![0x80, 0x7FF, 0x800, 0xD7FF, 0xE000, 0xFFFF, 0x10000, 0x10FFFE, 0x10FFFF];
        let mut p = 100u32;
        while p <= 1_000_000 {
            bounds.extend_from_slice(&[p - 1, p, p + 1]);
            p *= 10;
        }
        for &x in &bounds {
            if fw::should_stop() {
                return;
            }
            for text in [vec![x], vec![0x61, x, 0x62], vec![x, x], vec![0x3042, x, 0x3042]] {
                for &src in &check.srcs {
                    for &repl in &check.repls {
                        if repl && check.mappable_only_when_repl && text.iter().any(|c| !model_enc::mappable(algo, *c)) {
                            continue;
                        }
                        let m = if repl { 14 } else { 4 };
                        for caps in [vec![], vec![m], vec![m + 1, 64], vec![24]] {
                            for &sink in &check.sinks {
                                if sink == ESink::Vec && src == Src::Utf16 {
                                    continue;
                                }
                                let mut h = EncHistory::simple(enc, src, repl, &text);
                                h.sink = sink;
                                h.caps = caps.clone();
                                st.evals += 1;
                                st.class("decimal-digit-count-boundary-scalar");
                                if let Some((msg, sig)) = (check.verdict)(&h, &mut sc, st, true) {
                                    if let Some(id) = fw::known_open_id(&sig) {
                                        st.known_hit(id);
                                    } else {
                                        st.violations.push(violation_for(&h, check, msg, sig));
                                        return;
                                    }
                                }
                            }
                        }
                    }
                }
            }
        }
    });
    total.merge(st);
    total.exhaustive.push("numeric-character-reference family: 10^k-1, 10^k, 10^k+1 (k = 2..=6) and the UTF-8/UTF-16 length-class boundary scalars x {alone, between ASCII, doubled, between kana} x sources x sinks x modes x 4 capacity patterns".into());
    if fw::should_stop() {
        return total;
    }
    // ---- uniform-run family: 15..=33 copies of one character (a whole stride of non-ASCII units)
    // with output capacities below and around a stride
    let st = par_run(ctx, n_enc * 4, |part, st| {
        let enc = check.encs[part / 4];
        let lane = part % 4;
        let algo = enc_algo_for(enc);
        let mut alpha: Vec<u32> = hist_enc::alphabet(enc).into_iter().filter(|c| *c >= 0x80).collect();
        alpha.extend_from_slice(&[0xD800, 0xDC00]);
        let mut sc = EScratch::new();
        for (xi, &x) in alpha.iter().enumerate() {
            if xi % 4 != lane {
                continue;
            }
            for p in [0usize, 3] {
                for k in [15usize, 16, 17, 32, 33] {
                    if fw::should_stop() {
                        return;
                    }
                    let mut text: Vec<u32> = (0..p).map(|i| 0x61 + i as u32).collect();
                    // back to back, or each copy followed by 1 or 3 ASCII letters (see the decoder family)
                    let gap = [0usize, 1, 3][(k + p) % 3];
                    for _ in 0..k {
                        text.push(x);
                        for g in 0..gap {
                            text.push(0x62 + g as u32);
                        }
                    }
                    text.push(0x7A);
                    for &src in &check.srcs {
                        if crate::drive_enc::is_sur(x) && src == Src::Utf8 {
                            continue;
                        }
                        for &repl in &check.repls {
                            if repl && check.mappable_only_when_repl && (crate::drive_enc::is_sur(x) || !model_enc::mappable(algo, x)) {
                                continue;
                            }
                            let m = if repl { 14 } else { 4 };
                            for caps in [vec![m], vec![m + 1], vec![m + 3], vec![15], vec![16], vec![17], vec![25], vec![26], vec![47], vec![m, 33]] {
                                if caps[0] < m {
                                    continue;
                                }
                                for &sink in &check.sinks {
                                    if sink == ESink::Vec && src == Src::Utf16 {
                                        continue;
                                    }
                                    let mut h = EncHistory::simple(enc, src, repl, &text);
                                    h.sink = sink;
                                    h.caps = caps.clone();
                                    h.cuts = if k == 16 { vec![p] } else { vec![] };
                                    h.align = (k + p) & 15;
                                    st.evals += 1;
                                    st.class("uniform-run-of-one-character");
                                    if let Some((msg, sig)) = (check.verdict)(&h, &mut sc, st, true) {
                                        if let Some(id) = fw::known_open_id(&sig) {
                                            st.known_hit(id);
                                        } else {
                                            st.violations.push(violation_for(&h, check, msg, sig));
                                            return;
                                        }
                                    }
                                }
                            }
                        }
                    }
                }
            }
        }
    });
    total.merge(st);
    total.exhaustive.push("uniform-run family: 15/16/17/32/33 copies of each non-ASCII alphabet character (UTF-16: also lone surrogates; back to back, or each followed by 1 or 3 ASCII letters) after 0 or 3 ASCII characters x sources x sinks x modes x capacities {minimum, +1, +3, 15, 16, 17, 25, 26, 47, minimum then 33}".into());
    if fw::should_stop() {
        return total;
    }
    // ---- block-boundary family: a long ASCII text ending 0..=3 characters before a power-of-two
    // offset, then one alphabet character (or a run of nine of it), then a tail
    let thorough = ctx.tier == fw::Tier::Thorough;
    let blocks: &[usize] = if thorough { &[256, 512, 1024, 2048, 4096, 8192, 16384, 65536] } else { &[256, 1024, 4096] };
    let st = par_run(ctx, n_enc * blocks.len(), |part, st| {
        let enc = check.encs[part / blocks.len()];
        let block = blocks[part % blocks.len()];
        let algo = enc_algo_for(enc);
        let alpha: Vec<u32> = hist_enc::alphabet(enc).into_iter().filter(|c| *c >= 0x80).collect();
        let want = if thorough { 10 } else { 5 };
        let stepa = (alpha.len() / want).max(1);
        let mut sc = EScratch::new();
        for &x in alpha.iter().step_by(stepa).take(want) {
            for j in 0..=3usize {
                for reps in [1usize, 9] {
                    if fw::should_stop() {
                        return;
                    }
                    let mut text: Vec<u32> = (0..block - j).map(|i| 0x20 + (i % 90) as u32).collect();
                    for _ in 0..reps {
                        text.push(x);
                    }
                    text.extend_from_slice(&[0x74, 0x61, 0x69, 0x6C]);
                    for &src in &check.srcs {
                        for &repl in &check.repls {
                            if repl && check.mappable_only_when_repl && !model_enc::mappable(algo, x) {
                                continue;
                            }
                            for caps in [vec![], vec![block / 2 + 3], vec![block + 1]] {
                                for &sink in &check.sinks {
                                    if sink == ESink::Vec && src == Src::Utf16 {
                                        continue;
                                    }
                                    let mut h = EncHistory::simple(enc, src, repl, &text);
                                    h.sink = sink;
                                    h.caps = caps.clone();
                                    h.align = j;
                                    st.evals += 1;
                                    st.class("character-straddling-a-power-of-two-offset");
                                    if let Some((msg, sig)) = (check.verdict)(&h, &mut sc, st, true) {
                                        if let Some(id) = fw::known_open_id(&sig) {
                                            st.known_hit(id);
                                        } else {
                                            st.violations.push(violation_for(&h, check, msg, sig));
                                            return;
                                        }
                                    }
                                }
                            }
                        }
                    }
                }
            }
        }
    });
    total.merge(st);
    total.exhaustive.push(format!("block-boundary family: ASCII text ending 0..=3 characters before offset {:?}, then each of ~5 non-ASCII alphabet characters (once, or nine times), then a tail x sources x sinks x modes x capacities {{ample, half a block, block + 1}}", blocks));
    if fw::should_stop() {
        return total;
    }
    let parts_per_enc = 2usize;
    let per_part = (check.random_per_enc / parts_per_enc as u64).max(1);
    let st = par_run(ctx, n_enc * parts_per_enc, |part, st| {
        let enc = check.encs[part / parts_per_enc];
        let strat = hist_enc::history(enc, check.profile);
        let sc = std::cell::RefCell::new(EScratch::new());
        fw::run_random(ctx, 2000 + part as u64, per_part, &strat, st, |h, st| {
            let mut sc = sc.borrow_mut();
            st.class("random-history");
            if h.text.len() > 16 {
                st.class("random-history-text-longer-than-16");
            }
            if h.text.len() >= 256 {
                st.class("random-history-text-of-256-characters-or-more");
            }
            match (check.verdict)(h, &mut sc, st, false) {
                None => {
                    if st.samples.is_empty() && h.text.iter().any(|c| *c >= 0x80) && !h.cuts.is_empty() {
                        let o = sc.drv.run(h);
                        let mut j = h.to_json();
                        j["transcript"] = o.transcript_json();
                        j["output_hex"] = serde_json::json!(fw::hex(&o.out));
                        j["generated"] = serde_json::json!("random");
                        st.samples.push(j);
                    }
                    vec![]
                }
                Some((msg, sig)) => vec![Violation { msg: format!("{}: {}", describe(h), msg), sig, case: h.to_json() }],
            }
        });
        if let Some(v) = st.violations.pop() {
            match EncHistory::from_json(&v.case) {
                Some(h) => st.violations.push(violation_for(&h, check, v.msg.clone(), v.sig.clone())),
                None => st.violations.push(v),
            }
        }
    });
    total.merge(st);
    total
}

pub fn replay_with(case: &serde_json::Value, verdict: &VerdictFn) -> Option<Vec<Violation>> {
    let h = EncHistory::from_json(case)?;
    let mut sc = EScratch::new();
    let mut st = Stats::new();
    Some(match verdict(&h, &mut sc, &mut st, true) {
        None => vec![],
        Some((msg, sig)) => vec![Violation { msg, sig, case: case.clone() }],
    })
}

pub fn classify_common(h: &EncHistory, out: &EncOutcome, st: &mut Stats) {
    if out.output_full_count() > 0 {
        st.class("history-with-OutputFull");
    }
    if !h.cuts.is_empty() {
        st.class("history-with-cuts");
    }
    if h.last_on_empty {
        st.class("last-on-empty-final-call");
    }
    if h.src == Src::Utf16 {
        st.class("utf16-source");
        if h.has_lone_surrogate() {
            st.class("utf16-source-with-unpaired-surrogate");
        }
        if h.text.iter().any(|c| *c >= 0x10000) {
            st.class("utf16-source-with-surrogate-pair");
        }
    }
    if h.sink == ESink::Vec {
        st.class("vec-sink");
    }
    if out.had_unmappables {
        st.class("history-with-unmappable");
    }
}

fn describe_fault(out: &EncOutcome, kinds: &[EFaultKind]) -> Option<String> {
    out.first_fault(kinds).map(|f| format!("call #{}: {}", f.call_index, f.msg))
}

fn incomplete_reason(out: &EncOutcome) -> String {
    out.faults.first().map(|f| format!("call #{}: {}", f.call_index, f.msg)).unwrap_or_else(|| "driver stopped".into())
}

/// is the ISO-2022-JP byte stream outside the ASCII state at its end?
pub fn iso2022jp_pending(bytes: &[u8]) -> bool {
    let mut pending = false;
    let mut i = 0;
    while i + 2 < bytes.len() + 0 {
        if bytes[i] == 0x1B {
            pending = !(bytes[i + 1] == 0x28 && bytes[i + 2] == 0x42);
            i += 3;
        } else {
            i += 1;
        }
    }
    pending
}

// ------------------------------------------------------------------------------------------
// C04: chunked == single call; UTF-8 source == UTF-16 source

pub fn verdict_c04(h: &EncHistory, sc: &mut EScratch, st: &mut Stats, enumerated: bool) -> Verdict {
    let out = sc.drv.run(h);
    classify_common(h, &out, st);
    let of = out.output_full_count();
    let cut_near_non_ascii = h.cuts.iter().any(|c| (*c > 0 && h.text.get(*c - 1).map(|x| *x >= 0x80).unwrap_or(false)) || h.text.get(*c).map(|x| *x >= 0x80).unwrap_or(false));
    if of > 0 || cut_near_non_ascii {
        nontrivial_mark(st, enumerated, h);
    }
    // "pair at the output limit": an OutputFull directly before an astral character
    if h.src == Src::Utf16 {
        for c in &out.calls {
            if c.res == ERes::OutputFull {
                let ci = c.src_off_chars;
                // next unread char
                let next = h.text.iter().enumerate().find(|(i, _)| *i >= ci).map(|(_, x)| *x);
                let _ = next;
            }
        }
        if of > 0 && h.text.iter().any(|c| *c >= 0x10000) {
            st.class("utf16-surrogate-pair-and-OutputFull");
        }
    }
    if let Some(m) = describe_fault(&out, &[EFaultKind::Panic]) {
        return Some((m, "C04:panic".into()));
    }
    if !out.completed {
        return Some((format!("history did not complete: {}", incomplete_reason(&out)), "C04:incomplete".into()));
    }
    let r = sc.reference(h.enc, h.src, h.repl, &h.text);
    if !r.ok {
        return Some((format!("single-call reference run failed: {}", r.problem), "C04:reference".into()));
    }
    if out.out != r.bytes {
        return Some((format!("bytes differ from the single-call result: chunked {} single {}", fw::hex(&out.out), fw::hex(&r.bytes)), "C04:bytes".into()));
    }
    if !h.repl && out.unmappables != r.unmappables {
        return Some((format!("unmappable reports differ: chunked {:X?} single {:X?}", out.unmappables, r.unmappables), "C04:unmappables".into()));
    }
    if out.had_unmappables != r.had {
        return Some((format!("had_unmappables differs: chunked {} single {}", out.had_unmappables, r.had), "C04:had".into()));
    }
    // the other source form, fed the logical text
    let other = if h.src == Src::Utf8 { Src::Utf16 } else { Src::Utf8 };
    let logical = h.logical();
    let r2 = sc.reference(h.enc, other, h.repl, &logical);
    if r2.ok {
        if r2.bytes != r.bytes {
            return Some((format!("UTF-8 and UTF-16 sources give different bytes: {} {} vs {} {}", if h.src == Src::Utf8 { "UTF-8" } else { "UTF-16" }, fw::hex(&r.bytes), if other == Src::Utf8 { "UTF-8" } else { "UTF-16" }, fw::hex(&r2.bytes)), "C04:forms".into()));
        }
        if !h.repl && r2.unmappables != r.unmappables {
            return Some((format!("UTF-8 and UTF-16 sources report different unmappables: {:X?} vs {:X?}", r.unmappables, r2.unmappables), "C04:forms-unmappables".into()));
        }
    }
    None
}

// ------------------------------------------------------------------------------------------
// C06 (encoder part)

pub fn verdict_c06(h: &EncHistory, sc: &mut EScratch, st: &mut Stats, enumerated: bool) -> Verdict {
    let out = sc.drv.run(h);
    classify_common(h, &out, st);
    if h.text.iter().any(|c| *c >= 0x80) || h.text.len() % 16 != 0 {
        nontrivial_mark(st, enumerated, h);
    }
    if let Some(m) = describe_fault(&out, &[EFaultKind::Panic, EFaultKind::Bounds]) {
        return Some((m, "C06:enc-bounds".into()));
    }
    None
}

// ------------------------------------------------------------------------------------------
// C07 (encoder part)

pub fn verdict_c07(h: &EncHistory, sc: &mut EScratch, st: &mut Stats, enumerated: bool) -> Verdict {
    let algo = enc_algo_for(h.enc);
    if h.repl && h.text.iter().any(|c| crate::drive_enc::is_sur(*c) || !model_enc::mappable(algo, *c)) {
        // the if_no_unmappables queries promise nothing for such input
        st.class("skipped-unmappable-text-for-if_no_unmappables-query");
        return None;
    }
    let out = sc.drv.run(h);
    classify_common(h, &out, st);
    let mut nontrivial = false;
    for (i, c) in out.calls.iter().enumerate() {
        if c.cap_from_query {
            st.class("query-then-call");
            if i > 0 && out.calls[i - 1].pending_after {
                st.class("query-with-encoder-in-non-ASCII-state");
                nontrivial = true;
            }
            if i > 0 {
                nontrivial = true;
            }
        }
    }
    if nontrivial {
        nontrivial_mark(st, enumerated, h);
    }
    if let Some(m) = describe_fault(&out, &[EFaultKind::MaxQuery]) {
        return Some((m, "C07:enc-outputfull".into()));
    }
    None
}

// ------------------------------------------------------------------------------------------
// C08 (encoder part)

pub fn verdict_c08(h: &EncHistory, sc: &mut EScratch, st: &mut Stats, enumerated: bool) -> Verdict {
    let out = sc.drv.run(h);
    classify_common(h, &out, st);
    for w in out.calls.windows(2) {
        if w[0].res == ERes::OutputFull && w[1].res == ERes::OutputFull {
            st.class("two-consecutive-OutputFull");
            break;
        }
    }
    if out.output_full_count() >= 2 {
        nontrivial_mark(st, enumerated, h);
    }
    if let Some(m) = describe_fault(&out, &[EFaultKind::Progress]) {
        return Some((m, "C08:enc-progress".into()));
    }
    None
}

// ------------------------------------------------------------------------------------------
// C09 (encoder part): replacement == manual procedure on a twin with identical buffers

pub fn verdict_c09(h: &EncHistory, sc: &mut EScratch, st: &mut Stats, enumerated: bool) -> Verdict {
    let mut hr = h.clone();
    hr.repl = true;
    for c in hr.caps.iter_mut() {
        if *c != CAP_QUERY && *c < 14 {
            *c += 10;
        }
    }
    let out = sc.drv.run(&hr);
    classify_common(&hr, &out, st);
    if !out.completed {
        return Some((format!("with-replacement history did not complete: {}", incomplete_reason(&out)), "C09:enc-incomplete".into()));
    }
    if out.had_unmappables {
        nontrivial_mark(st, enumerated, h);
    }
    // manual procedure on a raw-mode twin (unbounded output), fed the same text: bytes must be identical
    let raw = sc.reference(hr.enc, hr.src, false, &hr.text);
    if !raw.ok {
        return Some((format!("without-replacement reference run failed: {}", raw.problem), "C09:enc-reference".into()));
    }
    if raw.bytes != out.out {
        return Some((format!("bytes with replacement {} differ from the manual procedure (Unmappable -> append '&#' decimal ';') {}", fw::hex(&out.out), fw::hex(&raw.bytes)), "C09:enc-bytes".into()));
    }
    // per-call flag: true exactly when an unmappable character lies in the input range the call consumed
    let m = crate::drive_enc::materialise(&hr);
    for (ci, c) in out.calls.iter().enumerate() {
        let a = c.src_off_units;
        let b = a + c.read;
        let expect = raw.unmappables.iter().any(|(idx, _)| {
            let s = m.starts[*idx];
            s >= a && s < b
        });
        if c.flag != expect {
            return Some((format!("call #{}: had_unmappables = {} but {} unmappable character(s) lie in the input it consumed", ci, c.flag, if expect { "some" } else { "no" }), "C09:enc-flag".into()));
        }
    }
    None
}

// ------------------------------------------------------------------------------------------
// C12: output is valid target-encoding text that decodes to the (folded) input

fn decode_all(sc: &mut EScratch, enc: &'static Encoding, bytes: &[u8]) -> (Option<Vec<u32>>, bool) {
    let h = DecHistory::simple(enc, BomMode::None, Sink::Utf8, false, bytes);
    let out = sc.ddrv.run(&h);
    (out.scalars(Sink::Utf8), !out.errors.is_empty() || !out.completed)
}

pub fn verdict_c12(h: &EncHistory, sc: &mut EScratch, st: &mut Stats, enumerated: bool) -> Verdict {
    let out = sc.drv.run(h);
    classify_common(h, &out, st);
    if h.text.iter().any(|c| *c >= 0x80) && out.calls.len() >= 2 {
        nontrivial_mark(st, enumerated, h);
    }
    let oenc = h.enc.output_encoding();
    let algo = enc_algo_for(h.enc);
    let is2022 = algo == EncAlgo::Iso2022Jp;
    // after every call: accumulated bytes decode without error; has_pending_state matches the bytes
    let mut prev_len = usize::MAX;
    for (ci, c) in out.calls.iter().enumerate() {
        let acc = &out.out[..c.out_len_after];
        if c.out_len_after != prev_len {
            prev_len = c.out_len_after;
            let (_, err) = decode_all(sc, oenc, acc);
            if err {
                return Some((format!("after call #{} the bytes produced so far ({}) are not accepted by the {} decoder", ci, fw::hex(acc), oenc.name()), "C12:prefix-invalid".into()));
            }
        }
        let expect_pending = if is2022 { iso2022jp_pending(acc) } else { false };
        if c.pending_after != expect_pending {
            return Some((format!("after call #{} has_pending_state() = {} but the bytes produced so far ({}) leave the stream {} the ASCII state", ci, c.pending_after, fw::hex(acc), if expect_pending { "outside" } else { "in" }), "C12:pending".into()));
        }
        if is2022 && c.pending_after {
            st.class("iso-2022-jp-call-ending-outside-ASCII-state");
        }
    }
    if !out.completed {
        // the history ended early (no progress with an undersized buffer, or a fault that C06/C08
        // judge): the per-call invariants above were checked on the calls that were made
        return None;
    }
    if is2022 && iso2022jp_pending(&out.out) {
        return Some((format!("after the final call the ISO-2022-JP stream {} has not returned to the ASCII state", fw::hex(&out.out)), "C12:final-state".into()));
    }
    // round trip
    let unm: Vec<(usize, u32)> = if h.repl { sc.reference(h.enc, h.src, false, &h.text).unmappables } else { out.unmappables.clone() };
    let logical = h.logical();
    let mut expect: Vec<u32> = Vec::with_capacity(logical.len());
    let mut ui = 0;
    for (i, &c) in logical.iter().enumerate() {
        if ui < unm.len() && unm[ui].0 == i {
            for ch in format!("&#{};", unm[ui].1).chars() {
                expect.push(ch as u32);
            }
            ui += 1;
        } else {
            expect.push(model_enc::fold(algo, c).unwrap_or(c));
        }
    }
    let (got, err) = decode_all(sc, oenc, &out.out);
    if err {
        return Some((format!("complete output {} is not accepted by the {} decoder", fw::hex(&out.out), oenc.name()), "C12:invalid".into()));
    }
    if got.as_ref() != Some(&expect) {
        return Some((format!("decoding the output {} gives [{}], expected the input with NCRs and the Standard's folds [{}]", fw::hex(&out.out), fw::hex32(got.as_ref().unwrap_or(&vec![])), fw::hex32(&expect)), "C12:roundtrip".into()));
    }
    None
}

// ------------------------------------------------------------------------------------------
// C18 (encoder part)

pub fn verdict_c18(h: &EncHistory, sc: &mut EScratch, st: &mut Stats, enumerated: bool) -> Verdict {
    let fills = [0x00u8, 0xFF, 0xA5];
    let mut first: Option<EncOutcome> = None;
    for f in fills {
        let mut hh = h.clone();
        hh.fill = f;
        let out = sc.drv.run(&hh);
        match &first {
            None => {
                classify_common(&hh, &out, st);
                if out.calls.iter().any(|c| c.written > 0) {
                    nontrivial_mark(st, enumerated, h);
                }
                first = Some(out);
            }
            Some(a) => {
                if a.calls != out.calls {
                    let i = a.calls.iter().zip(out.calls.iter()).position(|(x, y)| x != y).unwrap_or(a.calls.len().min(out.calls.len()));
                    return Some((format!("return values depend on the destination's previous contents: fill 0x00 call #{} = {:?}; fill {:#04x} = {:?}", i, a.calls.get(i), f, out.calls.get(i)), "C18:enc-transcript".into()));
                }
                if a.out != out.out {
                    return Some((format!("written output depends on the destination's previous contents (fill 0x00 vs {:#04x}): {} vs {}", f, fw::hex(&a.out), fw::hex(&out.out)), "C18:enc-output".into()));
                }
            }
        }
    }
    None
}

pub fn query_caps(repl: bool) -> Vec<Vec<usize>> {
    let m = if repl { 14 } else { 4 };
    let q = CAP_QUERY_EXACT;
    vec![vec![q], vec![m, q], vec![q, m], vec![m + 1, m, q]]
}
