//! Engine for decoder-history properties (C02, C05-C10, C18): bounded-exhaustive core +
//! random histories, a per-property verdict function, shrinking and replay.

use crate::drive_dec::{BomMode, DecDriver, DecHistory, DecOutcome, FaultKind, Res, Sink, CAP_QUERY_EXACT};
use crate::fw::{self, par_run, Ctx, Stats, Violation};
use crate::hist::{self, Profile};
use crate::model_dec::{algo_for, Algo};
use encoding_rs::*;
use serde_json::json;
use std::collections::HashMap;

#[derive(Clone, Debug)]
pub struct RefResult {
    pub scalars: Option<Vec<u32>>,
    pub errors: Vec<(usize, usize)>,
    pub had_errors: bool,
    pub final_enc: Option<&'static Encoding>,
    pub ok: bool,
    pub problem: String,
}

pub struct Scratch {
    pub drv: DecDriver,
    cache: HashMap<(usize, u8, u8, bool, u64), RefResult>,
    inside_cache: Option<(u64, Vec<bool>)>,
}

impl Scratch {
    pub fn new() -> Scratch {
        Scratch { drv: DecDriver::new(), cache: HashMap::new(), inside_cache: None }
    }

    /// single-call, ample-buffer run of the same stream (the C02 reference)
    pub fn reference(&mut self, enc: &'static Encoding, mode: BomMode, sink: Sink, repl: bool, stream: &[u8]) -> RefResult {
        let sink = if sink.is_utf16() { Sink::Utf16 } else { Sink::Utf8 };
        let key = (crate::encs::index_of(enc), mode as u8, sink as u8, repl, fw::fnv(stream));
        if let Some(r) = self.cache.get(&key) {
            return r.clone();
        }
        if self.cache.len() > 4096 {
            self.cache.clear();
        }
        let h = DecHistory::simple(enc, mode, sink, repl, stream);
        let out = self.drv.run(&h);
        let mut problem = String::new();
        let ok = out.completed && out.first_fault(&[FaultKind::Panic, FaultKind::Bounds, FaultKind::Valid, FaultKind::Range, FaultKind::Progress]).is_none();
        if !ok {
            problem = out.faults.first().map(|f| f.msg.clone()).unwrap_or_else(|| "did not complete".into());
        }
        let r = RefResult { scalars: out.scalars(sink), errors: out.errors.clone(), had_errors: out.had_errors, final_enc: out.final_enc, ok, problem };
        self.cache.insert(key, r.clone());
        r
    }

    /// positions c such that a cut at c falls strictly inside a sequence
    pub fn inside(&mut self, algo: Algo, stream: &[u8]) -> &Vec<bool> {
        let k = fw::fnv(stream);
        let hit = matches!(&self.inside_cache, Some((kk, _)) if *kk == k);
        if !hit {
            let mut v = vec![false; stream.len() + 1];
            if stream.len() <= 64 {
                for c in 1..stream.len() {
                    v[c] = hist::cut_inside_sequence(algo, stream, c);
                }
            }
            self.inside_cache = Some((k, v));
        }
        &self.inside_cache.as_ref().unwrap().1
    }
}

/// (message, signature)
pub type Verdict = Option<(String, String)>;
pub type VerdictFn = dyn Fn(&DecHistory, &mut Scratch, &mut Stats, bool) -> Verdict + Sync;

pub struct DecCheck<'a> {
    pub verdict: &'a VerdictFn,
    pub encs: Vec<&'static Encoding>,
    pub modes: Vec<BomMode>,
    pub sinks: Vec<Sink>,
    pub repls: Vec<bool>,
    pub cap_patterns: &'a (dyn Fn(Sink) -> Vec<Vec<usize>> + Sync),
    pub core_max_len: usize,
    pub triples: bool,
    /// extra leading atoms (BOMs and look-alikes) prepended to core streams in sniff/remove modes
    pub bom_prefixes: bool,
    pub random_per_enc: u64,
    pub profile: Profile,
    pub fills: Vec<u8>,
    /// also enumerate histories that switch between the output methods call by call
    pub mixed_sinks: bool,
    /// add, for every enumerated history, variants that alternate UTF-8/UTF-16 output and
    /// with-/without-replacement methods call by call (C07: a query in a state left by a
    /// different method)
    pub mixed_all: bool,
}

fn nontrivial_mark(st: &mut Stats, enumerated: bool, h: &DecHistory) {
    if enumerated {
        st.nontrivial_distinct();
    } else {
        st.nontrivial_hash(h.hash());
    }
}

fn violation_for(h: &DecHistory, check: &DecCheck, msg: String, sig: String) -> Violation {
    // shrink while the verdict keeps failing (any message)
    let min = fw::shrink_greedy(
        h.clone(),
        |x: &DecHistory| x.shrink_candidates(),
        |x: &DecHistory| {
            let mut sc = Scratch::new();
            let mut st = Stats::new();
            (check.verdict)(x, &mut sc, &mut st, true).map_or(false, |(_, sig)| fw::known_open_id(&sig).is_none())
        },
    );
    let mut sc = Scratch::new();
    let mut st = Stats::new();
    let (msg, sig) = (check.verdict)(&min, &mut sc, &mut st, true).unwrap_or((msg, sig));
    let out = sc.drv.run(&min);
    let mut case = min.to_json();
    case["transcript"] = out.transcript_json();
    Violation { msg: format!("{} [{} {} {}{}] stream {} cuts {:?}: {}", min.enc.name(), min.mode.name(), min.sink.name(), if min.repl { "with replacement" } else { "without replacement" }, if min.last_on_empty { ", last on empty call" } else { "" }, fw::hex(&min.stream), min.cuts, msg), sig, case }
}

pub fn run_dec_check(ctx: &Ctx, check: &DecCheck) -> Stats {
    let mut total = Stats::new();
    // ---- bounded-exhaustive core: part = (encoding, slice of its core streams)
    const SLICES: usize = 8;
    let n_enc = check.encs.len();
    let st = par_run(ctx, n_enc * SLICES, |part, st| {
        let enc = check.encs[part / SLICES];
        let slice = part % SLICES;
        let algo = algo_for(enc);
        let mut streams = hist::core_streams(algo, check.core_max_len, check.triples);
        if check.bom_prefixes {
            let base = hist::core_streams(algo, 3, false);
            for b in hist::bom_atoms() {
                for s in &base {
                    let mut v = b.clone();
                    v.extend_from_slice(s);
                    if v.len() <= check.core_max_len + 1 {
                        streams.push(v);
                    }
                }
            }
            streams.sort();
            streams.dedup();
        }
        let mut sc = Scratch::new();
        for (si, stream) in streams.iter().enumerate() {
            if si % SLICES != slice {
                continue;
            }
            if fw::should_stop() {
                return;
            }
            let cut_sets = hist::cut_sets(stream.len());
            for &mode in &check.modes {
                for &sink in &check.sinks {
                    let pats = (check.cap_patterns)(sink);
                    for &repl in &check.repls {
                        for cuts in &cut_sets {
                            for last_on_empty in [false, true] {
                                for (pi, caps) in pats.iter().enumerate() {
                                    let fill = check.fills[(pi + cuts.len()) % check.fills.len()];
                                    let pure = DecHistory { enc, mode, sink, repl, stream: stream.clone(), cuts: cuts.clone(), last_on_empty, caps: caps.clone(), fill, align: (si + pi) & 15, sinks_per_call: vec![], repls_per_call: vec![] };
                                    let mut variants = vec![pure];
                                    if check.mixed_sinks && (pi + cuts.len()) % 3 == 0 {
                                        // the same history switching between the output methods call by call
                                        let mut m = variants[0].clone();
                                        m.sinks_per_call = vec![[Sink::Utf8, Sink::Utf16, Sink::Str, Sink::String][(si + pi) & 3], sink, [Sink::Utf16, Sink::Utf8, Sink::String][pi % 3]];
                                        variants.push(m);
                                    }
                                    if check.mixed_all && stream.len() <= 5 && cuts.len() <= 1 && !last_on_empty {
                                        for (sp, rp) in [(vec![Sink::Utf8, Sink::Utf16], vec![]), (vec![Sink::Utf16, Sink::Utf8], vec![]), (vec![], vec![false, true]), (vec![], vec![true, false]), (vec![Sink::Utf8, Sink::Utf16], vec![true, true, false])] {
                                            let mut m = variants[0].clone();
                                            m.sinks_per_call = sp;
                                            m.repls_per_call = rp;
                                            variants.push(m);
                                        }
                                    }
                                    for h in &variants {
                                        st.evals += 1;
                                        if let Some((msg, sig)) = (check.verdict)(h, &mut sc, st, true) {
                                            if let Some(id) = fw::known_open_id(&sig) {
                                                st.known_hit(id);
                                            } else {
                                                st.violations.push(violation_for(h, check, msg, sig));
                                                return;
                                            }
                                        }
                                    }
                                    let h = variants.last().unwrap();
                                    if st.samples.is_empty() && h.stream.len() >= 3 && !h.cuts.is_empty() && !h.caps.is_empty() && crate::gen::has_non_ascii(&h.stream) {
                                        let mut j = h.to_json();
                                        j["transcript"] = sc.drv.run(h).transcript_json();
                                        st.samples.push(j);
                                    }
                                }
                            }
                        }
                    }
                }
            }
        }
    });
    total.merge(st);
    total.exhaustive.push(format!(
        "per encoding: all concatenations of 1..={} representative atoms up to {} bytes{} x all cut sets (incl. empty chunks) x last on data/empty call x capacity patterns x sinks x replacement modes",
        if check.triples { 3 } else { 2 },
        check.core_max_len,
        if check.bom_prefixes { " (+ BOM / look-alike prefixes)" } else { "" }
    ));
    if fw::should_stop() {
        return total;
    }
    // ---- stride family: an ASCII run whose length straddles the 16-byte strides of the decoders'
    // ASCII fast paths, then one atom, with capacities around the run length
    let st = par_run(ctx, n_enc, |part, st| {
        let enc = check.encs[part];
        let algo = algo_for(enc);
        let is16 = matches!(algo, Algo::Utf16(_));
        let atoms = hist::atoms(algo);
        let mut sc = Scratch::new();
        for l in [7usize, 15, 16, 17, 31, 32, 33, 48] {
            for a in &atoms {
                if fw::should_stop() {
                    return;
                }
                let mut stream: Vec<u8> = Vec::new();
                for i in 0..l {
                    let c = b'a' + (i % 26) as u8;
                    match algo {
                        Algo::Utf16(true) => {
                            stream.push(0);
                            stream.push(c);
                        }
                        Algo::Utf16(false) => {
                            stream.push(c);
                            stream.push(0);
                        }
                        _ => stream.push(c),
                    }
                }
                let run_bytes = stream.len();
                stream.extend_from_slice(a);
                if is16 {
                    stream.extend_from_slice(if algo == Algo::Utf16(true) { b"\x00b" } else { b"b\x00" });
                } else {
                    stream.push(b'b');
                }
                for &sink in &check.sinks {
                    for &repl in &check.repls {
                        for delta in 0..=8usize {
                            let cap = (l + delta).saturating_sub(2).max(sink.min_cap());
                            for caps in [vec![cap], vec![cap, 64]] {
                                for cuts in [vec![], vec![run_bytes], vec![run_bytes + 1]] {
                                    let h = DecHistory { enc, mode: check.modes[0], sink, repl, stream: stream.clone(), cuts, last_on_empty: delta & 1 == 1, caps: caps.clone(), fill: check.fills[delta % check.fills.len()], align: (l + delta) & 15, sinks_per_call: vec![], repls_per_call: vec![] };
                                    st.evals += 1;
                                    st.class("ascii-run-then-sequence-at-the-output-limit");
                                    if let Some((msg, sig)) = (check.verdict)(&h, &mut sc, st, true) {
                                        if let Some(id) = fw::known_open_id(&sig) {
                                            st.known_hit(id);
                                        } else {
                                            st.violations.push(violation_for(&h, check, msg, sig));
                                            return;
                                        }
                                    }
                                }
                            }
                        }
                    }
                }
            }
        }
    });
    total.merge(st);
    total.exhaustive.push("stride family: ASCII run of 7/15/16/17/31/32/33/48 characters + each atom + 'b' x capacities run length-2..+6 x cuts {none, before, inside the atom} x sinks x modes".into());
    if fw::should_stop() {
        return total;
    }
    // ---- uniform-run family: 15..=33 copies of one atom (a whole stride of non-ASCII units, which a
    // vector or table path may treat as a block) with output capacities below and around a stride
    let st = par_run(ctx, n_enc * 4, |part, st| {
        let enc = check.encs[part / 4];
        let lane = part % 4;
        let algo = algo_for(enc);
        let is16 = matches!(algo, Algo::Utf16(_));
        let atoms: Vec<Vec<u8>> = hist::atoms(algo).into_iter().filter(|a| a.iter().any(|b| *b >= 0x80 || *b == 0x1B)).collect();
        let mut sc = Scratch::new();
        for (ai, a) in atoms.iter().enumerate() {
            if ai % 4 != lane {
                continue;
            }
            for p in [0usize, 3] {
                for k in [15usize, 16, 17, 32, 33] {
                    if fw::should_stop() {
                        return;
                    }
                    let mut stream: Vec<u8> = Vec::new();
                    for i in 0..p {
                        let c = b'a' + i as u8;
                        match algo {
                            Algo::Utf16(true) => stream.extend_from_slice(&[0, c]),
                            Algo::Utf16(false) => stream.extend_from_slice(&[c, 0]),
                            _ => stream.push(c),
                        }
                    }
                    // k % 3 selects the spacing: copies back to back, or each followed by 1 or 3 ASCII
                    // letters (a short word after every special unit, over and over: heuristics that
                    // count consecutive bail-outs of a fast path only wake up on such text)
                    let gap = [0usize, 1, 3][(k + p) % 3];
                    for _ in 0..k {
                        stream.extend_from_slice(a);
                        for g in 0..gap {
                            let c = b'b' + g as u8;
                            match algo {
                                Algo::Utf16(true) => stream.extend_from_slice(&[0, c]),
                                Algo::Utf16(false) => stream.extend_from_slice(&[c, 0]),
                                _ => stream.push(c),
                            }
                        }
                    }
                    stream.extend_from_slice(if is16 { if algo == Algo::Utf16(true) { b"\x00z" } else { b"z\x00" } } else { b"z" });
                    for &sink in &check.sinks {
                        for &repl in &check.repls {
                            let m = sink.min_cap();
                            for caps in [vec![m], vec![m + 1], vec![m + 3], vec![15], vec![16], vec![17], vec![24], vec![47], vec![m, 33]] {
                                let h = DecHistory { enc, mode: check.modes[0], sink, repl, stream: stream.clone(), cuts: if k == 16 { vec![p] } else { vec![] }, last_on_empty: k & 1 == 1, caps, fill: check.fills[k % check.fills.len()], align: (k + p) & 15, sinks_per_call: vec![], repls_per_call: vec![] };
                                st.evals += 1;
                                st.class("uniform-run-of-one-atom");
                                if let Some((msg, sig)) = (check.verdict)(&h, &mut sc, st, true) {
                                    if let Some(id) = fw::known_open_id(&sig) {
                                        st.known_hit(id);
                                    } else {
                                        st.violations.push(violation_for(&h, check, msg, sig));
                                        return;
                                    }
                                }
                            }
                        }
                    }
                }
            }
        }
    });
    total.merge(st);
    total.exhaustive.push("uniform-run family: 15/16/17/32/33 copies of each non-ASCII atom (back to back, or each followed by 1 or 3 ASCII letters) after 0 or 3 ASCII units x sinks x modes x capacities {minimum, +1, +3, 15, 16, 17, 24, 47, minimum then 33}".into());
    if fw::should_stop() {
        return total;
    }
    // ---- BOM-switch family: a BOM followed by k = 0..=12 units of worst-case payload IN THE BOM'S
    // encoding (what a sniffing decoder of any nominal encoding becomes), cut before / inside /
    // after the BOM or not at all - length estimates and space checks for the switched decoder
    if check.bom_prefixes && check.modes.iter().any(|m| *m != BomMode::None) {
        let st = par_run(ctx, n_enc * 3, |part, st| {
            let enc = check.encs[part / 3];
            let which = part % 3;
            let (bom, payloads): (&[u8], Vec<Vec<u8>>) = match which {
                0 => (b"\xEF\xBB\xBF", vec![b"a".to_vec(), "\u{E9}".as_bytes().to_vec(), "\u{4E2D}".as_bytes().to_vec(), "\u{1F600}".as_bytes().to_vec(), vec![0xFF], vec![0xE4, 0xB8]]),
                1 => (b"\xFF\xFE", vec![vec![0x61, 0x00], vec![0xFF, 0x07], vec![0x00, 0x08], vec![0xFF, 0xFF], vec![0x3D, 0xD8, 0x00, 0xDE], vec![0x00, 0xD8], vec![0x00, 0xDC]]),
                _ => (b"\xFE\xFF", vec![vec![0x00, 0x61], vec![0x07, 0xFF], vec![0x08, 0x00], vec![0xFF, 0xFF], vec![0xD8, 0x3D, 0xDE, 0x00], vec![0xD8, 0x00], vec![0xDC, 0x00]]),
            };
            let mut sc = Scratch::new();
            for p in &payloads {
                for k in 0..=12usize {
                    if fw::should_stop() {
                        return;
                    }
                    for odd in [false, true] {
                        let mut stream = bom.to_vec();
                        for _ in 0..k {
                            stream.extend_from_slice(p);
                        }
                        if odd {
                            // a trailing partial unit / lead byte
                            stream.push(p[0]);
                        }
                        for &mode in &check.modes {
                            if mode == BomMode::None {
                                continue;
                            }
                            for &sink in &check.sinks {
                                for &repl in &check.repls {
                                    for caps in (check.cap_patterns)(sink).into_iter().take(3) {
                                        for cuts in [vec![], vec![1], vec![bom.len()], vec![bom.len() + 1], vec![0, 2]] {
                                            let h = DecHistory { enc, mode, sink, repl, stream: stream.clone(), cuts, last_on_empty: k & 1 == 1, caps: caps.clone(), fill: check.fills[k % check.fills.len()], align: k & 15, sinks_per_call: vec![], repls_per_call: vec![] };
                                            st.evals += 1;
                                            st.class("BOM-then-payload-in-the-BOM's-encoding");
                                            if let Some((msg, sig)) = (check.verdict)(&h, &mut sc, st, true) {
                                                if let Some(id) = fw::known_open_id(&sig) {
                                                    st.known_hit(id);
                                                } else {
                                                    st.violations.push(violation_for(&h, check, msg, sig));
                                                    return;
                                                }
                                            }
                                        }
                                    }
                                }
                            }
                        }
                    }
                }
            }
        });
        total.merge(st);
        total.exhaustive.push("BOM-switch family: each of the three BOMs + 0..=12 copies of each worst-case unit of the BOM's encoding (+ optional trailing partial unit) x sniff/remove modes x sinks x replacement x first three capacity patterns x cuts {none, inside, after, after+1, empty+inside}".into());
        if fw::should_stop() {
            return total;
        }
    }
    // ---- block-boundary family: a long ASCII run ending 0..=4 units before a power-of-two offset,
    // then one atom (a sequence straddling the end of an internal block), then a short tail
    let thorough = ctx.tier == fw::Tier::Thorough;
    let blocks: &[usize] = if thorough { &[256, 512, 1024, 2048, 4096, 8192, 16384, 65536] } else { &[256, 1024, 4096, 16384] };
    let st = par_run(ctx, n_enc * blocks.len(), |part, st| {
        let enc = check.encs[part / blocks.len()];
        let block = blocks[part % blocks.len()];
        let algo = algo_for(enc);
        let is16 = matches!(algo, Algo::Utf16(_));
        let atoms: Vec<Vec<u8>> = hist::atoms(algo).into_iter().filter(|a| a.iter().any(|b| *b >= 0x80 || *b == 0x1B)).collect();
        let want = if thorough { 10 } else { 5 };
        let stepa = (atoms.len() / want).max(1);
        let mut sc = Scratch::new();
        for a in atoms.iter().step_by(stepa).take(want) {
            for j in 0..=4usize {
                if fw::should_stop() {
                    return;
                }
                let units = block - j;
                let mut stream: Vec<u8> = Vec::with_capacity(2 * block + 32);
                for i in 0..(if is16 { units / 2 } else { units }) {
                    let c = b' ' + (i % 90) as u8;
                    match algo {
                        Algo::Utf16(true) => stream.extend_from_slice(&[0, c]),
                        Algo::Utf16(false) => stream.extend_from_slice(&[c, 0]),
                        _ => stream.push(c),
                    }
                }
                // the atom once, or three times (several errors in one long call: the with- and the
                // without-replacement length estimates differ by more than the slack)
                for _ in 0..(if j % 2 == 0 { 1 } else { 3 }) {
                    stream.extend_from_slice(a);
                }
                stream.extend_from_slice(if is16 { if algo == Algo::Utf16(true) { b"\x00t\x00a\x00i\x00l" } else { b"t\x00a\x00i\x00l\x00" } } else { b"tail" });
                let mut sinks = check.sinks.clone();
                if !sinks.contains(&Sink::String) {
                    // a String with more than a page of spare capacity is a receiver of its own
                    sinks.push(Sink::String);
                }
                for &sink in &sinks {
                    for &repl in &check.repls {
                        let mut cap_list = vec![vec![], vec![block / 2 + 3], vec![block + 1]];
                        if let Some(first) = (check.cap_patterns)(sink).into_iter().next() {
                            if first.iter().any(|c| *c >= crate::drive_dec::CAP_QUERY_EXACT) {
                                // checks whose patterns ask the length queries (C07): the whole long call sized by the query
                                cap_list.push(first);
                            }
                        }
                        for caps in cap_list {
                            let h = DecHistory { enc, mode: check.modes[0], sink, repl, stream: stream.clone(), cuts: vec![], last_on_empty: j & 1 == 1, caps, fill: check.fills[j % check.fills.len()], align: j, sinks_per_call: vec![], repls_per_call: vec![] };
                            st.evals += 1;
                            st.class("sequence-straddling-a-power-of-two-offset");
                            if let Some((msg, sig)) = (check.verdict)(&h, &mut sc, st, true) {
                                if let Some(id) = fw::known_open_id(&sig) {
                                    st.known_hit(id);
                                } else {
                                    st.violations.push(violation_for(&h, check, msg, sig));
                                    return;
                                }
                            }
                        }
                    }
                }
            }
        }
    });
    total.merge(st);
    total.exhaustive.push(format!("block-boundary family: ASCII run ending 0..=4 units before offset {:?}, then each of ~5 non-ASCII atoms, then a tail x sinks x modes x capacities {{ample, half a block, block + 1}}", blocks));
    if fw::should_stop() {
        return total;
    }
    // ---- random histories
    let parts_per_enc = 2usize;
    let per_part = (check.random_per_enc / parts_per_enc as u64).max(1);
    let st = par_run(ctx, n_enc * parts_per_enc, |part, st| {
        let enc = check.encs[part / parts_per_enc];
        let strat = hist::history(enc, check.profile);
        let sc = std::cell::RefCell::new(Scratch::new());
        fw::run_random(ctx, 1000 + part as u64, per_part, &strat, st, |h, st| {
            let mut sc = sc.borrow_mut();
            st.class("random-history");
            if h.stream.len() > 64 {
                st.class("random-history-stream-longer-than-64");
            }
            if h.stream.len() >= 512 {
                st.class("random-history-stream-of-512-bytes-or-more");
            }
            match (check.verdict)(h, &mut sc, st, false) {
                None => {
                    if st.samples.is_empty() && crate::gen::has_non_ascii(&h.stream) && !h.cuts.is_empty() {
                        let mut j = h.to_json();
                        j["transcript"] = sc.drv.run(h).transcript_json();
                        j["generated"] = serde_json::json!("random");
                        st.samples.push(j);
                    }
                    vec![]
                }
                Some((msg, sig)) => {
                    let mut case = h.to_json();
                    let out = sc.drv.run(h);
                    case["transcript"] = out.transcript_json();
                    vec![Violation { msg: format!("{} [{} {} {}] stream {} cuts {:?} caps {:?}: {}", h.enc.name(), h.mode.name(), h.sink.name(), if h.repl { "with replacement" } else { "without replacement" }, fw::hex(&h.stream), h.cuts, h.caps, msg), sig, case }]
                }
            }
        });
        // polish the proptest-shrunk case with the domain shrinker
        if let Some(v) = st.violations.pop() {
            match DecHistory::from_json(&v.case) {
                Some(h) => st.violations.push(violation_for(&h, check, v.msg.clone(), v.sig.clone())),
                None => st.violations.push(v),
            }
        }
    });
    total.merge(st);
    total
}

pub fn replay_with(case: &serde_json::Value, verdict: &VerdictFn) -> Option<Vec<Violation>> {
    let h = DecHistory::from_json(case)?;
    let mut sc = Scratch::new();
    let mut st = Stats::new();
    Some(match verdict(&h, &mut sc, &mut st, true) {
        None => vec![],
        Some((msg, sig)) => vec![Violation { msg, sig, case: case.clone() }],
    })
}

// ------------------------------------------------------------------------------------------
// shared helpers for verdicts

pub fn classify_common(h: &DecHistory, out: &DecOutcome, st: &mut Stats) {
    let of = out.output_full_count();
    if of > 0 {
        st.class("history-with-OutputFull");
    }
    if h.cuts.len() > 0 {
        st.class("history-with-cuts");
    }
    if h.last_on_empty {
        st.class("last-on-empty-final-call");
    }
    let mut prev = None;
    for c in &h.cuts {
        if Some(*c) == prev || *c == 0 || *c == h.stream.len() {
            st.class("history-with-empty-chunk");
            break;
        }
        prev = Some(*c);
    }
}

pub fn describe_fault(out: &DecOutcome, kinds: &[FaultKind]) -> Option<String> {
    out.first_fault(kinds).map(|f| format!("call #{}: {}", f.call_index, f.msg))
}

pub fn incomplete_reason(out: &DecOutcome) -> String {
    out.faults.first().map(|f| format!("call #{}: {}", f.call_index, f.msg)).unwrap_or_else(|| "driver stopped".into())
}

// ------------------------------------------------------------------------------------------
// C02 verdict: chunked == single call; UTF-8 and UTF-16 forms agree

pub fn verdict_c02(h: &DecHistory, sc: &mut Scratch, st: &mut Stats, enumerated: bool) -> Verdict {
    let out = sc.drv.run(h);
    if out.aborted_undersized {
        st.class("call-below-the-documented-minimum-panicked-(history-without-verdict)");
        return None;
    }
    let algo = algo_for(h.enc);
    // statistics / non-triviality
    classify_common(h, &out, st);
    let mut inside = false;
    {
        let ins = sc.inside(algo, &h.stream);
        for c in &h.cuts {
            if *c < ins.len() && ins[*c] {
                inside = true;
            }
        }
    }
    if h.mode != BomMode::None && h.cuts.iter().any(|c| *c >= 1 && *c <= 2 && *c < h.stream.len()) && matches!(h.stream.first(), Some(0xEF) | Some(0xFE) | Some(0xFF)) {
        inside = true;
    }
    if inside {
        st.class("cut-inside-sequence");
    }
    let of = out.output_full_count();
    if inside && of > 0 {
        st.class("cut-inside-sequence-and-OutputFull");
    }
    if inside || of > 0 {
        nontrivial_mark(st, enumerated, h);
    }
    if let Some(m) = describe_fault(&out, &[FaultKind::Panic, FaultKind::Range]) {
        return Some((m, "C02:fault".into()));
    }
    if !out.completed {
        return Some((format!("history did not complete: {}", incomplete_reason(&out)), "C02:incomplete".into()));
    }
    let r = sc.reference(h.enc, h.mode, h.sink, h.repl, &h.stream);
    if !r.ok {
        return Some((format!("single-call reference run failed: {}", r.problem), "C02:reference".into()));
    }
    let got = out.scalars_of(h);
    if got.is_none() {
        return Some(("concatenated output is not well-formed".into(), "C02:illformed".into()));
    }
    if h.is_mixed() {
        st.class("mixed-output-or-replacement-methods");
    }
    if got != r.scalars {
        return Some((format!("text differs from the single-call result: chunked [{}] single [{}]", fw::hex32(got.as_ref().unwrap()), fw::hex32(r.scalars.as_ref().unwrap_or(&vec![]))), "C02:text".into()));
    }
    if out.had_errors != r.had_errors {
        return Some((format!("had_errors differs: chunked {} single {}", out.had_errors, r.had_errors), "C02:had_errors".into()));
    }
    if !h.repl && h.repls_per_call.is_empty() && out.errors != r.errors {
        return Some((format!("absolute malformed reports differ: chunked {:?} (raw {:?}) single {:?}", out.errors, out.raw_malformed, r.errors), "C02:errors".into()));
    }
    if out.final_enc.map(|e| e.name()) != r.final_enc.map(|e| e.name()) {
        return Some((format!("encoding() after the stream differs: chunked {:?} single {:?}", out.final_enc.map(|e| e.name()), r.final_enc.map(|e| e.name())), "C02:encoding".into()));
    }
    // the two output forms denote the same scalar sequence
    let other = if h.sink.is_utf16() { Sink::Utf8 } else { Sink::Utf16 };
    let r2 = sc.reference(h.enc, h.mode, other, h.repl, &h.stream);
    if r2.ok && r2.scalars != r.scalars {
        return Some((format!("UTF-8 and UTF-16 output forms denote different text: {:?} vs {:?}", r.scalars, r2.scalars), "C02:forms".into()));
    }
    if r2.ok && !h.repl && r2.errors != r.errors {
        return Some((format!("UTF-8 and UTF-16 routes report different malformed sequences: {:?} vs {:?}", r.errors, r2.errors), "C02:forms-errors".into()));
    }
    None
}

// ------------------------------------------------------------------------------------------
// C05 verdict (decoder part): written prefixes and whole str/String destinations valid

pub fn verdict_c05(h: &DecHistory, sc: &mut Scratch, st: &mut Stats, enumerated: bool) -> Verdict {
    let out = sc.drv.run(h);
    if out.aborted_undersized {
        st.class("call-below-the-documented-minimum-panicked-(history-without-verdict)");
        return None;
    }
    classify_common(h, &out, st);
    let spare = out.calls.iter().any(|c| c.written < c.dst_len);
    if spare && (h.fill & 3) != 0 && matches!(h.sink, Sink::Str | Sink::String) {
        st.class("str-destination-with-multibyte-filler-beyond-written");
        nontrivial_mark(st, enumerated, h);
    } else if spare && out.calls.iter().any(|c| c.written > 0) && !matches!(h.sink, Sink::Str | Sink::String) {
        st.class("slice-destination-written-prefix-validated");
        if crate::gen::has_non_ascii(&h.stream) {
            nontrivial_mark(st, enumerated, h);
        }
    }
    if let Some(m) = describe_fault(&out, &[FaultKind::Valid]) {
        return Some((m, "C05:valid".into()));
    }
    if out.completed && out.scalars_of(h).is_none() {
        return Some(("accumulated output is not well-formed".into(), "C05:accumulated".into()));
    }
    None
}

// ------------------------------------------------------------------------------------------
// C06 verdict (decoder part): bounds / contract / panics

pub fn verdict_c06(h: &DecHistory, sc: &mut Scratch, st: &mut Stats, enumerated: bool) -> Verdict {
    let out = sc.drv.run(h);
    if out.aborted_undersized {
        st.class("call-below-the-documented-minimum-panicked-(history-without-verdict)");
        return None;
    }
    classify_common(h, &out, st);
    if crate::gen::has_non_ascii(&h.stream) || h.stream.len() % 16 != 0 {
        nontrivial_mark(st, enumerated, h);
    }
    if let Some(m) = describe_fault(&out, &[FaultKind::Panic, FaultKind::Bounds]) {
        let sig = if m.contains("Output buffer must have been too small") { "C06:panic-bom-replay" } else { "C06:bounds" };
        return Some((m, sig.into()));
    }
    None
}

// ------------------------------------------------------------------------------------------
// C07 verdict (decoder part): max_* queries are sufficient

pub fn verdict_c07(h: &DecHistory, sc: &mut Scratch, st: &mut Stats, enumerated: bool) -> Verdict {
    let out = sc.drv.run(h);
    classify_common(h, &out, st);
    let mut nontrivial = false;
    for (i, c) in out.calls.iter().enumerate() {
        if c.cap_from_query {
            st.class("query-then-call");
            if i > 0 && c.src_off > 0 {
                nontrivial = true;
            }
        }
    }
    if nontrivial {
        st.class("query-in-non-initial-state");
        nontrivial_mark(st, enumerated, h);
    }
    if let Some(m) = describe_fault(&out, &[FaultKind::MaxQuery]) {
        return Some((m, "C07:outputfull".into()));
    }
    None
}

// ------------------------------------------------------------------------------------------
// C08 verdict (decoder part): progress and linear termination

pub fn verdict_c08(h: &DecHistory, sc: &mut Scratch, st: &mut Stats, enumerated: bool) -> Verdict {
    let out = sc.drv.run(h);
    if out.aborted_undersized {
        st.class("call-below-the-documented-minimum-panicked-(history-without-verdict)");
        return None;
    }
    classify_common(h, &out, st);
    let mut consecutive = false;
    for w in out.calls.windows(2) {
        if w[0].res == Res::OutputFull && w[1].res == Res::OutputFull {
            consecutive = true;
        }
    }
    if consecutive {
        st.class("two-consecutive-OutputFull");
    }
    if out.output_full_count() >= 2 {
        nontrivial_mark(st, enumerated, h);
    }
    if let Some(m) = describe_fault(&out, &[FaultKind::Progress]) {
        return Some((m, "C08:progress".into()));
    }
    None
}

// ------------------------------------------------------------------------------------------
// C09 verdict (decoder part): replacement mode == documented manual procedure on a twin

pub fn verdict_c09(h: &DecHistory, sc: &mut Scratch, st: &mut Stats, enumerated: bool) -> Verdict {
    let mut hr = h.clone();
    hr.repl = true;
    hr.sinks_per_call.clear();
    hr.repls_per_call.clear();
    // the &mut str and String variants are with-replacement methods too: they are driven as they
    // are, and the twin runs decode_to_utf8_without_replacement into a buffer of the same size
    let out = sc.drv.run(&hr);
    classify_common(&hr, &out, st);
    if hr.caps.iter().any(|c| (crate::drive_dec::CAP_UNDER_BASE..crate::drive_dec::CAP_UNDER_BASE + 8).contains(c)) {
        // Histories that contain a destination below the documented minimum: such a call may panic
        // (history discarded) or make no progress, and the twin cannot be given "the same buffer"
        // meaningfully; what the property still says is that the with-replacement TEXT and the OR
        // of the flags equal the manual procedure's - compared with a manual run in ample buffers.
        if out.aborted_undersized {
            st.class("call-below-the-documented-minimum-panicked-(history-without-verdict)");
            return None;
        }
        if let Some(m) = describe_fault(&out, &[FaultKind::Panic, FaultKind::Range]) {
            return Some((m, "C09:fault".into()));
        }
        if !out.completed {
            return None;
        }
        let r = sc.reference(hr.enc, hr.mode, hr.sink, false, &hr.stream);
        if !r.ok {
            return Some((format!("manual-procedure reference run failed: {}", r.problem), "C09:reference".into()));
        }
        nontrivial_mark(st, enumerated, h);
        if out.scalars(hr.sink) != r.scalars {
            return Some((format!("text with replacement [{}] differs from the manual procedure [{}] (the history contains a call with a destination below the documented minimum, which returned normally)", fw::hex32(out.scalars(hr.sink).as_ref().unwrap_or(&vec![])), fw::hex32(r.scalars.as_ref().unwrap_or(&vec![]))), "C09:total".into()));
        }
        if out.had_errors != r.had_errors {
            return Some((format!("OR of had_errors = {} but the manual procedure saw {} error(s)", out.had_errors, r.errors.len()), "C09:or".into()));
        }
        return None;
    }
    if !out.completed {
        return Some((format!("with-replacement history did not complete: {}", incomplete_reason(&out)), "C09:incomplete".into()));
    }
    // twin: the manual procedure with the same per-call buffers
    let mut twin = hr.mode.new_decoder(hr.enc);
    let utf16 = hr.sink.is_utf16();
    let fffd_len = if utf16 { 1 } else { 3 };
    let mut t8: Vec<u8> = Vec::new();
    let mut t16: Vec<u16> = Vec::new();
    let mut in_sync = true;
    let mut any_error = false;
    let mut off8 = 0usize; // offset into out.out8/out16 for per-call comparison
    for (ci, call) in out.calls.iter().enumerate() {
        let src = &hr.stream[call.src_off..call.src_off + call.src_len];
        let mut d8 = vec![0u8; if utf16 { 0 } else { call.dst_len }];
        let mut d16 = vec![0u16; if utf16 { call.dst_len } else { 0 }];
        let (mut tr, mut tw, mut had) = (0usize, 0usize, false);
        let res;
        let mut guard = 0;
        loop {
            guard += 1;
            if guard > 10 * (src.len() + 4) {
                return Some((format!("manual procedure on the twin did not terminate within call #{}", ci), "C09:twin-loop".into()));
            }
            let r = fw::catch(|| {
                if utf16 {
                    twin.decode_to_utf16_without_replacement(&src[tr..], &mut d16[tw..], call.last)
                } else {
                    twin.decode_to_utf8_without_replacement(&src[tr..], &mut d8[tw..], call.last)
                }
            });
            let (r, rd, wr) = match r {
                Ok(x) => x,
                Err(p) => return Some((format!("twin without-replacement call panicked: {}", p), "C09:twin-panic".into())),
            };
            tr += rd;
            tw += wr;
            match r {
                DecoderResult::InputEmpty => {
                    res = Res::InputEmpty;
                    break;
                }
                DecoderResult::OutputFull => {
                    res = Res::OutputFull;
                    break;
                }
                DecoderResult::Malformed(..) => {
                    had = true;
                    any_error = true;
                    if call.dst_len - tw < fffd_len {
                        // no room inside the same buffer: the runs split differently from here on
                        in_sync = false;
                        if utf16 {
                            t16.extend_from_slice(&d16[..tw]);
                            t16.push(0xFFFD);
                        } else {
                            t8.extend_from_slice(&d8[..tw]);
                            t8.extend_from_slice("\u{FFFD}".as_bytes());
                        }
                        return Some((format!("call #{}: without-replacement call reported Malformed leaving {} unit(s) of room, less than one U+FFFD", ci, call.dst_len - tw), "C09:no-room".into()));
                    }
                    if utf16 {
                        d16[tw] = 0xFFFD;
                        tw += 1;
                    } else {
                        d8[tw..tw + 3].copy_from_slice("\u{FFFD}".as_bytes());
                        tw += 3;
                    }
                }
            }
        }
        if utf16 {
            t16.extend_from_slice(&d16[..tw]);
        } else {
            t8.extend_from_slice(&d8[..tw]);
        }
        if in_sync && (res, tr, tw) != (call.res, call.read, call.written) {
            // The two runs split the stream differently from here on.  The property speaks about
            // the text and the booleans, not about where a with-replacement call stops, so this
            // is not a violation by itself: fall back to comparing the whole output and the OR of
            // the flags with an independent manual run over the whole stream.
            st.class("with-replacement-call-splits-differently-from-the-manual-procedure");
            let r = sc.reference(hr.enc, hr.mode, hr.sink, false, &hr.stream);
            if !r.ok {
                return Some((format!("manual-procedure reference run failed: {}", r.problem), "C09:reference".into()));
            }
            if out.scalars(hr.sink) != r.scalars {
                return Some((format!("text with replacement [{}] differs from the manual procedure [{}] (first difference in how call #{} returns: ({:?}, read {}, written {}) vs ({:?}, {}, {}))", fw::hex32(out.scalars(hr.sink).as_ref().unwrap_or(&vec![])), fw::hex32(r.scalars.as_ref().unwrap_or(&vec![])), ci, call.res, call.read, call.written, res, tr, tw), "C09:total".into()));
            }
            if out.had_errors != r.had_errors {
                return Some((format!("OR of had_errors = {} but the manual procedure saw {} error(s)", out.had_errors, r.errors.len()), "C09:or".into()));
            }
            return None;
        }
        if in_sync {
            if call.flag != had {
                return Some((format!("call #{}: had_errors = {} but the manual procedure substituted {} U+FFFD in this call", ci, call.flag, if had { "at least one" } else { "no" }), "C09:flag".into()));
            }
            let same = if utf16 { out.out16.get(off8..off8 + tw) == Some(&d16[..tw]) } else { out.out8.get(off8..off8 + tw) == Some(&d8[..tw]) };
            if !same {
                return Some((format!("call #{}: output of the call differs from the manual procedure", ci), "C09:output".into()));
            }
            off8 += tw;
        }
    }
    if any_error {
        st.class("history-with-malformed-sequence");
        nontrivial_mark(st, enumerated, h);
    }
    let same_total = if utf16 { t16 == out.out16 } else { t8 == out.out8 };
    if !same_total {
        return Some(("concatenated output with replacement differs from the manual procedure".into(), "C09:total".into()));
    }
    if out.had_errors != any_error {
        return Some((format!("OR of had_errors = {} but the manual procedure saw {} error(s)", out.had_errors, if any_error { "some" } else { "no" }), "C09:or".into()));
    }
    None
}

// ------------------------------------------------------------------------------------------
// C10 verdict: BOM sniffing / removal / no-BOM, by a metamorphic relation

pub fn expected_bom(enc: &'static Encoding, mode: BomMode, s: &[u8]) -> (&'static Encoding, usize) {
    match mode {
        BomMode::None => (enc, 0),
        BomMode::Sniff => {
            if s.starts_with(b"\xEF\xBB\xBF") {
                (UTF_8, 3)
            } else if s.starts_with(b"\xFE\xFF") {
                (UTF_16BE, 2)
            } else if s.starts_with(b"\xFF\xFE") {
                (UTF_16LE, 2)
            } else {
                (enc, 0)
            }
        }
        BomMode::Remove => {
            if enc == UTF_8 && s.starts_with(b"\xEF\xBB\xBF") {
                (enc, 3)
            } else if enc == UTF_16BE && s.starts_with(b"\xFE\xFF") {
                (enc, 2)
            } else if enc == UTF_16LE && s.starts_with(b"\xFF\xFE") {
                (enc, 2)
            } else {
                (enc, 0)
            }
        }
    }
}

pub fn verdict_c10(h: &DecHistory, sc: &mut Scratch, st: &mut Stats, enumerated: bool) -> Verdict {
    let out = sc.drv.run(h);
    if out.aborted_undersized {
        st.class("call-below-the-documented-minimum-panicked-(history-without-verdict)");
        return None;
    }
    classify_common(h, &out, st);
    let bomish = matches!(h.stream.first(), Some(0xEF) | Some(0xFE) | Some(0xFF));
    let cut_in_first3 = h.cuts.iter().any(|c| *c >= 1 && *c <= 2 && *c < h.stream.len());
    let (enc2, bomlen) = expected_bom(h.enc, h.mode, &h.stream);
    if bomish {
        st.class("stream-starts-with-BOM-or-look-alike");
        if bomlen > 0 {
            st.class("stream-starts-with-effective-BOM");
        }
        if cut_in_first3 {
            st.class("cut-inside-first-three-bytes");
            nontrivial_mark(st, enumerated, h);
        }
    }
    if let Some(m) = describe_fault(&out, &[FaultKind::Panic, FaultKind::Range]) {
        let sig = if m.contains("Output buffer must have been too small") { "C10:panic-bom-replay" } else { "C10:fault" };
        return Some((m, sig.into()));
    }
    if !out.completed {
        return Some((format!("history did not complete: {}", incomplete_reason(&out)), "C10:incomplete".into()));
    }
    let r = sc.reference(enc2, BomMode::None, h.sink, h.repl, &h.stream[bomlen..]);
    if !r.ok {
        return Some((format!("no-BOM reference run failed: {}", r.problem), "C10:reference".into()));
    }
    let got = out.scalars_of(h);
    if got != r.scalars {
        return Some((format!("text differs from a no-BOM {} decoder on the stream minus its {}-byte BOM: got [{}] expected [{}]", enc2.name(), bomlen, fw::hex32(got.as_ref().unwrap_or(&vec![])), fw::hex32(r.scalars.as_ref().unwrap_or(&vec![]))), "C10:text".into()));
    }
    if out.had_errors != r.had_errors {
        return Some((format!("had_errors {} but expected {}", out.had_errors, r.had_errors), "C10:had_errors".into()));
    }
    if !h.repl && h.repls_per_call.is_empty() {
        let shifted: Vec<(usize, usize)> = r.errors.iter().map(|(s, l)| (s + bomlen, *l)).collect();
        if out.errors != shifted {
            return Some((format!("absolute malformed reports {:?} (raw {:?}) differ from expected {:?}", out.errors, out.raw_malformed, shifted), "C10:errors".into()));
        }
    }
    if out.final_enc.map(|e| e.name()) != Some(enc2.name()) {
        return Some((format!("encoding() after the stream is {:?}, expected {}", out.final_enc.map(|e| e.name()), enc2.name()), "C10:encoding".into()));
    }
    None
}

// ------------------------------------------------------------------------------------------
// C18 verdict (decoder part): results independent of the destination's previous contents

pub fn verdict_c18(h: &DecHistory, sc: &mut Scratch, st: &mut Stats, enumerated: bool) -> Verdict {
    let fills: [u8; 3] = if matches!(h.sink, Sink::Str | Sink::String) { [0, 2, 3] } else { [0x00, 0xFF, 0xA5] };
    let mut first: Option<DecOutcome> = None;
    for f in fills {
        let mut hh = h.clone();
        hh.fill = f;
        let out = sc.drv.run(&hh);
        match &first {
            None => {
                classify_common(&hh, &out, st);
                if out.calls.iter().any(|c| c.written > 0) {
                    nontrivial_mark(st, enumerated, h);
                }
                first = Some(out);
            }
            Some(a) => {
                if a.calls != out.calls {
                    let i = a.calls.iter().zip(out.calls.iter()).position(|(x, y)| x != y).unwrap_or(a.calls.len().min(out.calls.len()));
                    return Some((format!("return values depend on the destination's previous contents: with fill {:#04x} call #{} is {:?}, with fill {:#04x} it is {:?}", fills[0], i, a.calls.get(i), f, out.calls.get(i)), "C18:transcript".into()));
                }
                if a.out8 != out.out8 || a.out16 != out.out16 {
                    return Some((format!("written output depends on the destination's previous contents (fill {:#04x} vs {:#04x})", fills[0], f), "C18:output".into()));
                }
            }
        }
    }
    None
}

pub fn sample_query_caps(sink: Sink) -> Vec<Vec<usize>> {
    let m = sink.min_cap();
    let q = CAP_QUERY_EXACT;
    vec![vec![q], vec![m, q], vec![q, m], vec![m + 1, m, q], vec![8, q, q]]
}

pub fn _unused() -> serde_json::Value {
    json!(null)
}
