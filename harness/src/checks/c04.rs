//! C04 - encoder results do not depend on chunking or on UTF-8 vs UTF-16 input form.
use super::ench::{self, EncCheck};
use crate::drive_enc::{ESink, Src};
use crate::fw::{self, Ctx};
use crate::hist_enc::{self, EProfile};
use std::time::Instant;

pub const RULE: &str = "case = encoder history (encoding, source form, slice/Vec sink, replacement on/off, text, cut set at character boundaries incl. empty chunks, last on data or on an extra empty call, capacity sequence >= 4 bytes raw / >= 14 bytes with replacement, fill, alignment) run through the documented caller loop (raw mode appends '&#N;' itself); oracle = bytes, unmappable (char index, char) reports and had_unmappables of the single-call ample-buffer run, and byte-for-byte agreement between the UTF-8-sourced and UTF-16-sourced runs of the same logical text (unpaired surrogate = U+FFFD). Core is bounded-exhaustive (all texts up to 2 (3 for ISO-2022-JP) characters over the class alphabet + lone surrogates x all cut sets x capacity patterns), the rest seeded random. Non-trivial = at least one OutputFull or a cut adjacent to a non-ASCII character; distinct = distinct history.";

fn check<'a>(ctx: &Ctx) -> EncCheck<'a> {
    EncCheck {
        verdict: &ench::verdict_c04,
        encs: ench::encoder_encodings(),
        srcs: vec![Src::Utf8, Src::Utf16],
        sinks: vec![ESink::Slice, ESink::Vec],
        repls: vec![false, true],
        cap_patterns: &|r| hist_enc::cap_patterns(r, false),
        core_max_chars: 2,
        core_max_chars_2022: ctx.tier.pick(2, 3),
        random_per_enc: ctx.n(6_000, 200_000),
        profile: EProfile { max_chars: ctx.tier.pick(12, 64), small_caps_weight: 140, queries: false, exact_queries: false, mappable_only: false },
        mappable_only_when_repl: false,
    }
}

pub fn run(ctx: &Ctx) -> i32 {
    let t0 = Instant::now();
    let c = check(ctx);
    let st = ench::run_enc_check(ctx, &c);
    fw::finish(ctx, st, RULE, &["the single-call result is tied to the Standard by C03; C04 itself is model-free", "documented caller obligations are respected by construction (cuts never split a surrogate pair; capacities >= 4 / >= 14)"], t0.elapsed().as_secs_f64()).exit
}

pub fn replay(case: &serde_json::Value) -> Option<Vec<fw::Violation>> {
    ench::replay_with(case, &ench::verdict_c04)
}
