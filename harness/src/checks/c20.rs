//! C20 - Encoding metadata predicates tell the truth about actual conversion behaviour.
use crate::encs;
use crate::fw::{self, par_run, Ctx, Stats, Violation};
use encoding_rs::*;
use serde_json::{json, Value};
use std::collections::hash_map::DefaultHasher;
use std::hash::{Hash, Hasher};
use std::time::Instant;

pub const RULE: &str = "case = (encoding, predicate): each predicate is recomputed from the behaviour of the same build over a finite, completely enumerated space - all byte strings of length <= 2 through the decoder (UTF-16 output length, ASCII bytes -> ASCII scalars) and every scalar value through the encoder (unmappable?, one byte per mappable character?, ASCII -> same single byte; ASCII bytes / characters next to every kind of non-ASCII sequence / character of the encoding in the same buffer; for can_encode_everything every scalar also from UTF-16 into a destination of exactly the queried size) - and compared with is_ascii_compatible(), is_single_byte(), can_encode_everything(); output_encoding() == new_encoder().encoding() == the encoding encode() reports, idempotent; == and Hash agree with instance identity on all 40 x 40 pairs; for_label(name()) is the same instance. Non-trivial = every (encoding, predicate, witness sweep) counts; evaluations counts the conversions executed. The short-string space is finite and enumerated completely; in addition the ASCII / single-byte claims are re-measured on longer inputs (ASCII run of 0..=70 + each atom / alphabet character + an ASCII tail of digits and trail-range letters) pushed through output buffers shorter than the input, because 'every byte string' includes those and the fast paths only engage there; compared are the ASCII scalars in order (the reference model says which input bytes are stand-alone ASCII), the number of code units for single-byte encodings, and for the encoder that the output begins with the ASCII run and ends with the ASCII tail - not how the non-ASCII sequence itself converts (C01/C03).";

fn hash_of(e: &'static Encoding) -> u64 {
    let mut h = DefaultHasher::new();
    e.hash(&mut h);
    h.finish()
}

fn check_encoding(enc: &'static Encoding, st: &mut Stats) -> Option<String> {
    // ---- decoder side: all strings of length <= 2
    let mut ascii_dec_ok = true;
    let mut utf16_len_equals_byte_len = true;
    let mut witness_len: Option<Vec<u8>> = None;
    let mut buf = [0u16; 16];
    for a in 0..=256usize {
        for b in 0..=256usize {
            let mut v: Vec<u8> = Vec::new();
            if a < 256 {
                v.push(a as u8);
            }
            if b < 256 {
                if a == 256 {
                    continue;
                }
                v.push(b as u8);
            }
            let mut d = enc.new_decoder_without_bom_handling();
            let (_, _, written, _) = d.decode_to_utf16(&v, &mut buf, true);
            st.evals += 1;
            if written != v.len() && utf16_len_equals_byte_len {
                utf16_len_equals_byte_len = false;
                witness_len = Some(v.clone());
            }
            if v.iter().all(|x| *x < 0x80) {
                let ok = written == v.len() && buf[..written].iter().zip(v.iter()).all(|(u, x)| *u == *x as u16);
                if !ok {
                    ascii_dec_ok = false;
                }
            }
        }
    }
    // ---- encoder side: every scalar
    let mut ascii_enc_ok = true;
    let mut any_unmappable: Option<u32> = None;
    let mut one_byte_per_mappable = true;
    let mut witness_multi: Option<u32> = None;
    let mut dst = [0u8; 32];
    for cp in 0..0x110000u32 {
        let c = match char::from_u32(cp) {
            Some(c) => c,
            None => continue,
        };
        let mut s = [0u8; 4];
        let s = c.encode_utf8(&mut s);
        let mut e = enc.new_encoder();
        let (r, _, w) = e.encode_from_utf8_without_replacement(s, &mut dst, true);
        st.evals += 1;
        match r {
            EncoderResult::Unmappable(_) => {
                if any_unmappable.is_none() {
                    any_unmappable = Some(cp);
                }
                if cp < 0x80 {
                    ascii_enc_ok = false;
                }
            }
            EncoderResult::InputEmpty => {
                if w != 1 && one_byte_per_mappable {
                    one_byte_per_mappable = false;
                    witness_multi = Some(cp);
                }
                if cp < 0x80 && !(w == 1 && dst[0] == cp as u8) {
                    ascii_enc_ok = false;
                }
            }
            EncoderResult::OutputFull => return Some("single scalar did not fit a 32-byte buffer".into()),
        }
    }
    // ---- ASCII in context: after / before a multi-byte (or high-byte) character, in the same buffer
    let algo = crate::model_dec::algo_for(enc);
    let mut ascii_ctx_witness: Option<String> = None;
    if ascii_dec_ok && ascii_enc_ok {
        let mut drv = crate::drive_dec::DecDriver::new();
        let mut dec = |bytes: &[u8]| -> Option<Vec<u32>> {
            let h = crate::drive_dec::DecHistory::simple(enc, crate::drive_dec::BomMode::None, crate::drive_dec::Sink::Utf16, true, bytes);
            let o = drv.run(&h);
            if o.completed && !o.had_errors {
                o.scalars(crate::drive_dec::Sink::Utf16)
            } else {
                None
            }
        };
        for a in crate::hist::atoms(algo) {
            let base = match dec(&a) {
                Some(b) if !b.is_empty() && a.iter().any(|x| *x >= 0x80) => b,
                _ => continue, // only complete, error-free non-ASCII atoms
            };
            for b in 0..0x80u8 {
                st.evals += 2;
                let mut v = a.clone();
                v.push(b);
                let mut want = base.clone();
                want.push(b as u32);
                let mut w = vec![b];
                w.extend_from_slice(&a);
                let mut want2 = vec![b as u32];
                want2.extend_from_slice(&base);
                if dec(&v) != Some(want) || dec(&w) != Some(want2) {
                    ascii_ctx_witness = Some(format!("byte {:02X} next to the sequence {} does not decode to U+{:04X}", b, fw::hex(&a), b));
                    break;
                }
            }
            if ascii_ctx_witness.is_some() {
                break;
            }
        }
        if ascii_ctx_witness.is_none() {
            let mut edrv = crate::drive_enc::EncDriver::new();
            let mut encode = |text: &[u32], src: crate::drive_enc::Src| -> Option<Vec<u8>> {
                let h = crate::drive_enc::EncHistory::simple(enc, src, false, text);
                let o = edrv.run(&h);
                if o.completed && o.unmappables.is_empty() {
                    Some(o.out)
                } else {
                    None
                }
            };
            'outer: for x in crate::hist_enc::alphabet(enc) {
                if x < 0x80 {
                    continue;
                }
                for src in [crate::drive_enc::Src::Utf8, crate::drive_enc::Src::Utf16] {
                    let base = match encode(&[x], src) {
                        Some(b) => b,
                        None => continue,
                    };
                    for a in 0..0x80u32 {
                        st.evals += 2;
                        let mut want = base.clone();
                        want.push(a as u8);
                        let mut want2 = vec![a as u8];
                        want2.extend_from_slice(&base);
                        if encode(&[x, a], src) != Some(want) || encode(&[a, x], src) != Some(want2) {
                            ascii_ctx_witness = Some(format!("U+{:04X} next to U+{:04X} does not encode to the single byte {:02X}", a, x, a));
                            break 'outer;
                        }
                    }
                }
            }
        }
    }
    if let Some(w) = &ascii_ctx_witness {
        if enc.is_ascii_compatible() {
            return Some(format!("is_ascii_compatible() = true but {}", w));
        }
    }
    // ---- the same two claims on long inputs through output buffers shorter than the input (the
    // caller loop re-pushes after OutputFull): ASCII bytes that are not part of a multi-byte
    // sequence still decode to themselves (the reference model says which those are), a
    // single-byte encoding still yields one UTF-16 unit per byte, ASCII text still encodes to itself
    if enc.is_ascii_compatible() || enc.is_single_byte() {
        use crate::drive_dec::{BomMode, DecDriver, DecHistory, Sink};
        let mut drv = DecDriver::new();
        let atoms = crate::hist::atoms(algo);
        let digits: &[u8] = b"0123456789@AZ[az{~ \x00\x7F";
        for a in &atoms {
            for l in (0..=70usize).step_by(if a.iter().any(|b| *b >= 0x80) { 1 } else { 9 }) {
                let mut v: Vec<u8> = (0..l).map(|i| b' ' + (i % 90) as u8).collect();
                v.extend_from_slice(a);
                v.extend_from_slice(digits);
                let want: Vec<u32> = crate::model_dec::with_replacement(&crate::model_dec::decode(algo, &v));
                for (sink, caps) in [(Sink::Utf8, [4usize, 5, 7, 16, 17, 64]), (Sink::Utf16, [2usize, 3, 7, 16, 17, 64])] {
                    for cap in caps {
                        st.evals += 1;
                        let mut h = DecHistory::simple(enc, BomMode::None, sink, true, &v);
                        h.caps = vec![cap];
                        let o = drv.run(&h);
                        let got = if o.completed { o.scalars(sink) } else { None };
                        // what the two predicates speak about: the ASCII scalars (in order) and the number of
                        // code units; how the non-ASCII sequence itself decodes is C01's business
                        let ascii_of = |v: &Vec<u32>| v.iter().cloned().filter(|c| *c < 0x80).collect::<Vec<u32>>();
                        let units_of = |v: &Vec<u32>| v.iter().map(|c| if *c >= 0x10000 { 2 } else { 1 }).sum::<usize>();
                        let same = match &got {
                            Some(g) => ascii_of(g) == ascii_of(&want) && (!enc.is_single_byte() || units_of(g) == v.len()),
                            None => false,
                        };
                        if !same {
                            let what = format!("decoding {} through a {}-unit {} buffer gives {:X?}, the Standard {:X?}", fw::hex(&v), cap, sink.name(), got, want);
                            if enc.is_single_byte() && got.as_ref().map(|g| g.len()) != Some(v.len()) {
                                return Some(format!("is_single_byte() = true but {} bytes do not decode to {} code units: {}", v.len(), v.len(), what));
                            }
                            return Some(format!("is_ascii_compatible() = {} / is_single_byte() = {} but ASCII bytes around the sequence {} do not survive: {}", enc.is_ascii_compatible(), enc.is_single_byte(), fw::hex(a), what));
                        }
                    }
                }
            }
        }
        // every ASCII byte DIRECTLY after each atom (0x3A after a gb18030 lead is a neighbour of the
        // four-byte digits), in one piece and with the input cut right after the atom
        for a in &atoms {
            if !a.iter().any(|b| *b >= 0x80) {
                continue;
            }
            for l in [0usize, 13] {
                for b in 0..0x80u8 {
                    let mut v: Vec<u8> = (0..l).map(|i| b' ' + (i % 90) as u8).collect();
                    v.extend_from_slice(a);
                    let cut = v.len();
                    v.push(b);
                    v.extend_from_slice(b"\x81\x30ok");
                    let want: Vec<u32> = crate::model_dec::with_replacement(&crate::model_dec::decode(algo, &v));
                    for (sink, cap) in [(Sink::Utf8, 0usize), (Sink::Utf16, 0), (Sink::Utf8, 5), (Sink::Utf16, 3)] {
                        for cuts in [vec![], vec![cut], vec![cut - 1]] {
                            st.evals += 1;
                            let mut h = DecHistory::simple(enc, BomMode::None, sink, true, &v);
                            if cap > 0 {
                                h.caps = vec![cap];
                            }
                            h.cuts = cuts;
                            let o = drv.run(&h);
                            let got = if o.completed { o.scalars(sink) } else { None };
                            let ascii_of = |v: &Vec<u32>| v.iter().cloned().filter(|c| *c < 0x80).collect::<Vec<u32>>();
                            if got.as_ref().map(|g| ascii_of(g)) != Some(ascii_of(&want)) {
                                return Some(format!("is_ascii_compatible() = {} / is_single_byte() = {} but the ASCII byte {:02X} directly after the sequence {} does not survive: decoding {} (cuts {:?}, {}-unit {} buffer) gives {:X?}, the Standard {:X?}", enc.is_ascii_compatible(), enc.is_single_byte(), b, fw::hex(a), fw::hex(&v), h.cuts, cap, sink.name(), got, want));
                            }
                        }
                    }
                }
            }
        }
        if enc.is_ascii_compatible() {
            let mut edrv = crate::drive_enc::EncDriver::new();
            let ealgo = crate::model_enc::enc_algo_for(enc);
            for x in crate::hist_enc::alphabet(enc) {
                if x < 0x80 || crate::drive_enc::is_sur(x) {
                    continue;
                }
                for l in 0..=70usize {
                    let mut text: Vec<u32> = (0..l).map(|i| 0x20 + (i % 90) as u32).collect();
                    text.push(x);
                    text.extend(digits.iter().map(|b| *b as u32));
                    let want = crate::model_enc::encode(ealgo, &text, true).bytes;
                    if l % 8 == 3 {
                        // UTF-16 only: an unpaired surrogate between the character and the ASCII tail
                        for sur in [0xD800u32, 0xDBFF, 0xDC00] {
                            let mut t2: Vec<u32> = text[..l + 1].to_vec();
                            t2.push(sur);
                            t2.extend(digits.iter().map(|b| *b as u32));
                            for cap in [0usize, 17] {
                                st.evals += 1;
                                let mut h = crate::drive_enc::EncHistory::simple(enc, crate::drive_enc::Src::Utf16, true, &t2);
                                if cap > 0 {
                                    h.caps = vec![cap];
                                }
                                let o = edrv.run(&h);
                                if !o.completed || !o.out.ends_with(digits) {
                                    return Some(format!("is_ascii_compatible() = true but the ASCII characters after U+{:04X} and an unpaired surrogate U+{:04X} (UTF-16 source) do not encode to themselves: text [{}] gives {}", x, sur, fw::hex32(&t2), fw::hex(&o.out)));
                                }
                            }
                        }
                    }
                    for src in [crate::drive_enc::Src::Utf8, crate::drive_enc::Src::Utf16] {
                        for cap in [14usize, 15, 17, 24, 64] {
                            st.evals += 1;
                            let mut h = crate::drive_enc::EncHistory::simple(enc, src, true, &text);
                            h.caps = vec![cap];
                            let o = edrv.run(&h);
                            // the ASCII characters must come out as themselves: the output starts with the
                            // ASCII run and ends with the ASCII tail (how U+x itself encodes is C03's business)
                            let run_bytes: Vec<u8> = text[..l].iter().map(|c| *c as u8).collect();
                            let ok = o.completed && o.out.starts_with(&run_bytes) && o.out.ends_with(digits) && (o.out.len() >= want.len().min(l + digits.len()));
                            if !ok {
                                return Some(format!("is_ascii_compatible() = true but ASCII characters around U+{:04X} do not encode to themselves: text [{}] through a {}-byte buffer gives {}, the Standard {}", x, fw::hex32(&text), cap, fw::hex(&o.out), fw::hex(&want)));
                            }
                        }
                    }
                }
            }
        }
    }
    // ---- the same question asked of the one-shot methods: do the 128 ASCII bytes come back as the
    // 128 ASCII characters?  The answer must be the predicate's, through every entry point (the
    // replacement encoding and UTF-16 must not let ASCII through, ISO-2022-JP trips over SO/SI/ESC).
    {
        let all_ascii: Vec<u8> = (0..0x80u8).collect();
        let as_text: String = all_ascii.iter().map(|b| *b as char).collect();
        let r = fw::catch(|| {
            let a = enc.decode(&all_ascii).0.into_owned();
            let b = enc.decode_with_bom_removal(&all_ascii).0.into_owned();
            let c = enc.decode_without_bom_handling(&all_ascii).0.into_owned();
            let d = enc.decode_without_bom_handling_and_without_replacement(&all_ascii).map(|x| x.into_owned());
            [Some(a), Some(b), Some(c), d]
        });
        match r {
            Err(p) => return Some(format!("a one-shot decode method panicked on the 128 ASCII bytes: {}", p)),
            Ok(outs) => {
                for (i, o) in outs.iter().enumerate() {
                    st.evals += 1;
                    let through = o.as_deref() == Some(as_text.as_str());
                    if through != enc.is_ascii_compatible() {
                        return Some(format!("is_ascii_compatible() = {} but {} {} the 128 ASCII bytes as the 128 ASCII characters", enc.is_ascii_compatible(), ["decode", "decode_with_bom_removal", "decode_without_bom_handling", "decode_without_bom_handling_and_without_replacement"][i], if through { "returns" } else { "does not return" }));
                    }
                }
            }
        }
        if enc.is_ascii_compatible() {
            // ASCII among many malformed bytes (the one-shot methods grow their output on the way)
            for k in 0..=48usize {
                let mut v = vec![0xFFu8, b'a'];
                v.extend(std::iter::repeat(0xFFu8).take(k));
                v.push(b'z');
                st.evals += 1;
                let r = fw::catch(|| enc.decode_without_bom_handling(&v).0.into_owned());
                match r {
                    Err(p) => return Some(format!("decode_without_bom_handling panicked on {}: {}", fw::hex(&v), p)),
                    Ok(t) => {
                        let ascii: String = t.chars().filter(|c| (*c as u32) < 0x80).collect();
                        if ascii != "az" {
                            return Some(format!("is_ascii_compatible() = true but the two ASCII bytes of {} come out of decode_without_bom_handling as {:?}", fw::hex(&v), ascii));
                        }
                    }
                }
            }
        }
    }
    // ---- can_encode_everything: every scalar must come out as itself also from UTF-16 with a
    // destination of exactly the queried worst case (no silent substitution)
    if enc.can_encode_everything() && any_unmappable.is_none() {
        let oe = enc.output_encoding();
        for cp in 0..0x110000u32 {
            let c = match char::from_u32(cp) {
                Some(c) => c,
                None => continue,
            };
            let mut u = [0u16; 2];
            let u = c.encode_utf16(&mut u);
            let mut e = enc.new_encoder();
            let need = e.max_buffer_length_from_utf16_without_replacement(u.len()).unwrap_or(16);
            let mut d = vec![0u8; need];
            let (r, rd, w) = e.encode_from_utf16_without_replacement(u, &mut d, true);
            st.evals += 1;
            let mut b8 = [0u8; 4];
            let want = c.encode_utf8(&mut b8).as_bytes();
            if r != EncoderResult::InputEmpty || rd != u.len() || (oe == UTF_8 && &d[..w] != want) {
                return Some(format!("can_encode_everything() = true but U+{:04X} from UTF-16 into a {}-byte destination gives {:?} read {} bytes {}", cp, need, r, rd, fw::hex(&d[..w.min(need)])));
            }
        }
    }
    st.nontrivial_enum += 5;
    let behav_ascii = ascii_dec_ok && ascii_enc_ok;
    if enc.is_ascii_compatible() != behav_ascii {
        return Some(format!("is_ascii_compatible() = {} but behaviour says {} (ASCII bytes decode to themselves: {}, ASCII characters encode to themselves: {})", enc.is_ascii_compatible(), behav_ascii, ascii_dec_ok, ascii_enc_ok));
    }
    let behav_single = utf16_len_equals_byte_len && one_byte_per_mappable;
    if enc.is_single_byte() != behav_single {
        return Some(format!("is_single_byte() = {} but behaviour says {} (UTF-16 length equals byte length for all strings <= 2 bytes: {} witness {:?}; one byte per mappable scalar: {} witness {:X?})", enc.is_single_byte(), behav_single, utf16_len_equals_byte_len, witness_len.map(|w| fw::hex(&w)), one_byte_per_mappable, witness_multi));
    }
    if enc.can_encode_everything() != any_unmappable.is_none() {
        return Some(format!("can_encode_everything() = {} but the first unmappable scalar of its encoder is {:X?}", enc.can_encode_everything(), any_unmappable));
    }
    // ---- output encoding
    let oe = enc.output_encoding();
    if !std::ptr::eq(oe.output_encoding(), oe) {
        return Some("output_encoding() is not idempotent".into());
    }
    if !std::ptr::eq(enc.new_encoder().encoding(), oe) {
        return Some(format!("new_encoder().encoding() is {} but output_encoding() is {}", enc.new_encoder().encoding().name(), oe.name()));
    }
    for text in ["", "a", "\u{E9}\u{3042}\u{1F600}"] {
        let (_, used, _) = enc.encode(text);
        if !std::ptr::eq(used, oe) {
            return Some(format!("encode({:?}) reports {} but output_encoding() is {}", text, used.name(), oe.name()));
        }
    }
    let expect_out = crate::model_enc::output_encoding_name(enc);
    if oe.name() != expect_out {
        return Some(format!("output_encoding() is {} but the Standard's 'get an output encoding' gives {}", oe.name(), expect_out));
    }
    None
}

pub fn run(ctx: &Ctx) -> i32 {
    let t0 = Instant::now();
    let all = encs::all();
    let mut st = par_run(ctx, all.len(), |i, st| {
        let enc = all[i];
        if let Some(m) = check_encoding(enc, st) {
            st.violations.push(Violation { msg: format!("{}: {}", enc.name(), m), sig: "C20:predicate".into(), case: json!({"kind": "c20", "encoding": encs::const_name(enc)}) });
            return;
        }
        st.sample(2, || json!({"encoding": enc.name(), "is_ascii_compatible": enc.is_ascii_compatible(), "is_single_byte": enc.is_single_byte(), "can_encode_everything": enc.can_encode_everything(), "output_encoding": enc.output_encoding().name()}));
    });
    // identity, equality, hashing, names
    let mut s2 = Stats::new();
    'outer: for (i, a) in all.iter().enumerate() {
        for (j, b) in all.iter().enumerate() {
            s2.evals += 1;
            s2.nontrivial_enum += 1;
            let same = i == j;
            if (*a == *b) != same {
                s2.violations.push(Violation { msg: format!("{} == {} is {}", a.name(), b.name(), *a == *b), sig: "C20:eq".into(), case: json!({"kind": "c20_pairs"}) });
                break 'outer;
            }
            if (hash_of(a) == hash_of(b)) != same {
                s2.violations.push(Violation { msg: format!("hash({}) {} hash({})", a.name(), if same { "!=" } else { "==" }, b.name()), sig: "C20:hash".into(), case: json!({"kind": "c20_pairs"}) });
                break 'outer;
            }
        }
        match Encoding::for_label(a.name().as_bytes()) {
            Some(x) if std::ptr::eq(x, *a) => {}
            other => {
                s2.violations.push(Violation { msg: format!("for_label({}) = {:?}", a.name(), other.map(|x| x.name())), sig: "C20:name".into(), case: json!({"kind": "c20_pairs"}) });
                break;
            }
        }
        if a.name() != encs::NAMES[i] {
            s2.violations.push(Violation { msg: format!("name() = {} expected {}", a.name(), encs::NAMES[i]), sig: "C20:name".into(), case: json!({"kind": "c20_pairs"}) });
            break;
        }
    }
    st.merge(s2);
    st.exhaustive.push("40 encodings x all byte strings of length <= 2 (decoder) x all scalar values (encoder); all 40 x 40 pairs for == / Hash".into());
    st.exhaustive.push("ASCII-compatible / single-byte encodings: ASCII run of 0..=70 bytes + each atom + 17 ASCII bytes (digits, trail-range letters, NUL, DEL) decoded through 4/5/7/16/17/64-byte UTF-8 and 2/3/7/16/17/64-unit UTF-16 buffers; ASCII run + each alphabet character + the same ASCII tail encoded from UTF-8 and UTF-16 through 14/15/17/24/64-byte buffers - compared with the Standard".into());
    fw::finish(ctx, st, RULE, &["'every byte string' for is_single_byte is judged on all strings of length <= 2 (a stateless or two-byte-prefix decoder cannot differ beyond that; ISO-2022-JP, UTF-8, gb18030 are already separated by a witness of length <= 2)"], t0.elapsed().as_secs_f64()).exit
}

pub fn replay(case: &Value) -> Option<Vec<Violation>> {
    let mut st = Stats::new();
    if case.get("kind")?.as_str()? == "c20" {
        let enc = encs::by_const(case.get("encoding")?.as_str()?)?;
        return Some(match check_encoding(enc, &mut st) {
            None => vec![],
            Some(m) => vec![Violation { msg: m, sig: "C20:predicate".into(), case: case.clone() }],
        });
    }
    None
}
