//! C09 - replacement modes equal the documented manual error-recovery procedure.
use super::dech::{self, DecCheck};
use super::ench::{self, EncCheck};
use crate::drive_dec::{BomMode, Sink};
use crate::drive_enc::{ESink, Src};
use crate::encs;
use crate::fw::{self, Ctx};
use crate::hist::{self, Profile};
use crate::hist_enc::{self, EProfile};
use std::time::Instant;

pub const RULE: &str = "case = decoder / encoder history run WITH replacement; oracle = the documented manual procedure implemented by the harness on a twin converter using only the *_without_replacement methods: decoders - for every call of the history the twin is driven over the same source slice into a buffer of the same size, appending U+FFFD itself after each Malformed, and (result, read, written), the written units and had_errors ('this call substituted at least one U+FFFD') must be identical call by call, as must the concatenated output; encoders - the manual run appends '&#' decimal ';' itself, concatenated bytes must be identical and had_unmappables of a call must equal 'an unmappable character lies in the input range this call consumed'. Non-trivial = history with at least one malformed sequence / unmappable character; distinct = distinct history.";

pub fn run(ctx: &Ctx) -> i32 {
    let t0 = Instant::now();
    let mut e = encs::multibyte();
    e.extend(encs::single_byte_sample());
    let dc = DecCheck {
        verdict: &dech::verdict_c09,
        encs: e,
        modes: vec![BomMode::None, BomMode::Sniff],
        sinks: vec![Sink::Utf8, Sink::Utf16],
        repls: vec![true],
        cap_patterns: &|s| hist::cap_patterns(s, false),
        core_max_len: ctx.tier.pick(6, 8),
        triples: ctx.tier == fw::Tier::Thorough,
        bom_prefixes: true,
        random_per_enc: ctx.n(3_000, 100_000),
        profile: Profile { max_tokens: ctx.tier.pick(10, 40), small_caps_weight: 128, queries: false, modes: &hist::ALL_MODES, sinks: &[Sink::Utf8, Sink::Utf16], bom_prefix_weight: 48 },
        fills: vec![0xA5],
    };
    let mut st = dech::run_dec_check(ctx, &dc);
    if !fw::should_stop() {
        let ec = EncCheck {
            verdict: &ench::verdict_c09,
            encs: ench::encoder_encodings(),
            srcs: vec![Src::Utf8, Src::Utf16],
            sinks: vec![ESink::Slice],
            repls: vec![true],
            cap_patterns: &|r| hist_enc::cap_patterns(r, false),
            core_max_chars: ctx.tier.pick(2, 3),
            core_max_chars_2022: 3,
            random_per_enc: ctx.n(4_000, 100_000),
            profile: EProfile { max_chars: ctx.tier.pick(12, 64), small_caps_weight: 128, queries: false, mappable_only: false },
            mappable_only_when_repl: false,
        };
        st.merge(ench::run_enc_check(ctx, &ec));
    }
    fw::finish(ctx, st, RULE, &["the without-replacement methods are tied to the Standard by C01/C03; C09 only relates the two modes", "per-call comparison is exact because the twin is given identical buffers"], t0.elapsed().as_secs_f64()).exit
}

pub fn replay(case: &serde_json::Value) -> Option<Vec<fw::Violation>> {
    if case.get("kind").and_then(|k| k.as_str()) == Some("enc_history") {
        ench::replay_with(case, &ench::verdict_c09)
    } else {
        dech::replay_with(case, &dech::verdict_c09)
    }
}
