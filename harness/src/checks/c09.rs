//! C09 - replacement modes equal the documented manual error-recovery procedure.
use super::dech::{self, DecCheck};
use super::ench::{self, EncCheck};
use crate::drive_dec::{BomMode, Sink};
use crate::drive_enc::{ESink, Src};
use crate::encs;
use crate::fw::{self, Ctx};
use crate::hist::{self, Profile};
use crate::hist_enc::{self, EProfile};
use std::time::Instant;

pub const RULE: &str = "case = decoder / encoder history run WITH replacement; oracle = the documented manual procedure implemented by the harness on a twin converter using only the *_without_replacement methods: decoders - for every call of the history the twin is driven over the same source slice into a buffer of the same size, appending U+FFFD itself after each Malformed, and (result, read, written), the written units and had_errors ('this call substituted at least one U+FFFD') must be identical call by call, as must the concatenated output; encoders - the manual run appends '&#' decimal ';' itself, concatenated bytes must be identical and had_unmappables of a call must equal 'an unmappable character lies in the input range this call consumed'. The one-shot with-replacement methods (Encoding::decode_without_bom_handling, Encoding::encode) are compared with the same manual procedure on error-heavy inputs that force their buffer-regrowth path. Non-trivial = history / input with at least one malformed sequence / unmappable character; distinct = distinct history.";

/// The one-shot with-replacement methods against the manual procedure run on the streaming
/// without-replacement converter (whole input, one call, ample buffer).
fn one_shot_family(ctx: &Ctx) -> fw::Stats {
    use crate::drive_dec::{DecDriver, DecHistory};
    use crate::drive_enc::{EncDriver, EncHistory};
    use proptest::prelude::*;
    use serde_json::json;
    let all = encs::all();
    fw::par_run(ctx, all.len(), |part, st| {
        let enc = all[part];
        let algo = crate::model_dec::algo_for(enc);
        // error-heavy heads force the regrowth path of the one-shot decoders
        let strat = (crate::gen::stream(algo, ctx.tier.pick(10, 30)), 0usize..40, 0usize..120, any::<u8>()).prop_map(|(body, errs, clean, eb)| {
            let mut v = Vec::new();
            let e = [0xFFu8, 0x80, 0xFE, 0x81][(eb & 3) as usize];
            for _ in 0..errs {
                v.push(e);
            }
            v.extend_from_slice(&body);
            for i in 0..clean {
                v.push(b'a' + (i % 26) as u8);
            }
            v
        });
        let drv = std::cell::RefCell::new(DecDriver::new());
        fw::run_random(ctx, 3100 + part as u64, ctx.n(2_500, 60_000), &strat, st, |bytes, st| {
            st.class("one-shot-decode-vs-manual-procedure");
            let h = DecHistory::simple(enc, BomMode::None, Sink::Utf8, false, bytes);
            let out = drv.borrow_mut().run(&h);
            if !out.completed {
                return vec![];
            }
            if !out.errors.is_empty() {
                st.nontrivial_hash(fw::mix(fw::fnv(bytes), 7000 + part as u64));
            }
            let r = {
                let d = crate::guard::Desc { what: "Encoding::decode_without_bom_handling (one-shot)", encoding: enc.name(), data: bytes.as_ptr(), len: bytes.len() };
                let _g = crate::guard::enter(&d);
                fw::catch(|| {
                    let (c, had) = enc.decode_without_bom_handling(bytes);
                    (c.into_owned(), had)
                })
            };
            let bad = match r {
                Err(p) => Some(format!("decode_without_bom_handling panicked: {}", p)),
                Ok((text, had)) => {
                    if text.as_bytes() != &out.out8[..] {
                        Some(format!("decode_without_bom_handling text {} differs from the manual procedure {}", fw::hex(text.as_bytes()), fw::hex(&out.out8)))
                    } else if had != !out.errors.is_empty() {
                        Some(format!("decode_without_bom_handling had_errors = {} but the manual procedure substituted {} U+FFFD", had, out.errors.len()))
                    } else {
                        None
                    }
                }
            };
            match bad {
                None => vec![],
                Some(m) => vec![fw::Violation { msg: format!("{} input {}: {}", enc.name(), fw::hex(bytes), m), sig: "C09:one-shot-decode".into(), case: json!({"kind": "c09_one_shot_decode", "encoding": encs::const_name(enc), "input_hex": fw::hex(bytes)}) }],
            }
        });
        if !st.violations.is_empty() {
            return;
        }
        let ealgo = crate::model_enc::enc_algo_for(enc);
        let strat = proptest::collection::vec((any::<u8>(), any::<u32>()), 0..ctx.tier.pick(60usize, 300usize)).prop_map(move |chars| chars.iter().map(|(k, x)| crate::hist_enc::text_char(ealgo, false, if k % 3 == 0 { 7 } else { *k }, *x)).collect::<Vec<u32>>());
        let edrv = std::cell::RefCell::new(EncDriver::new());
        fw::run_random(ctx, 3200 + part as u64, ctx.n(2_500, 60_000), &strat, st, |text, st| {
            st.class("one-shot-encode-vs-manual-procedure");
            let h = EncHistory::simple(enc, Src::Utf8, false, text);
            let out = edrv.borrow_mut().run(&h);
            if !out.completed {
                return vec![];
            }
            if !out.unmappables.is_empty() {
                st.nontrivial_hash(fw::mix(h.hash(), 9000 + part as u64));
            }
            let s: String = h.text.iter().map(|c| char::from_u32(*c).unwrap_or('\u{FFFD}')).collect();
            let r = {
                let d = crate::guard::Desc { what: "Encoding::encode (one-shot), input is the text as UTF-8", encoding: enc.name(), data: s.as_ptr(), len: s.len() };
                let _g = crate::guard::enter(&d);
                fw::catch(|| {
                    let (c, _, had) = enc.encode(&s);
                    (c.into_owned(), had)
                })
            };
            let bad = match r {
                Err(p) => Some(format!("Encoding::encode panicked: {}", p)),
                Ok((bytes, had)) => {
                    if bytes != out.out {
                        Some(format!("Encoding::encode bytes {} differ from the manual procedure {}", fw::hex(&bytes), fw::hex(&out.out)))
                    } else if had != !out.unmappables.is_empty() {
                        Some(format!("Encoding::encode had_unmappables = {} but the manual procedure wrote {} NCR(s)", had, out.unmappables.len()))
                    } else {
                        None
                    }
                }
            };
            match bad {
                None => vec![],
                Some(m) => vec![fw::Violation { msg: format!("{} text [{}]: {}", enc.name(), fw::hex32(&h.text), m), sig: "C09:one-shot-encode".into(), case: json!({"kind": "c09_one_shot_encode", "encoding": encs::const_name(enc), "text_code_points_hex": fw::hex32(&h.text)}) }],
            }
        });
    })
}

pub fn run(ctx: &Ctx) -> i32 {
    let t0 = Instant::now();
    let mut e = encs::multibyte();
    e.extend(encs::single_byte_sample());
    let dc = DecCheck {
        verdict: &dech::verdict_c09,
        encs: e,
        modes: vec![BomMode::None, BomMode::Sniff],
        sinks: vec![Sink::Utf8, Sink::Utf16, Sink::Str, Sink::String],
        repls: vec![true],
        cap_patterns: &|s| {
            let mut v = hist::cap_patterns(s, false);
            // a destination below the minimum (0 or 2 units), then the minimum: see verdict_c09
            v.push(vec![crate::drive_dec::cap_under(0), s.min_cap()]);
            v.push(vec![crate::drive_dec::cap_under(2), s.min_cap() + 1]);
            v
        },
        core_max_len: ctx.tier.pick(6, 8),
        triples: ctx.tier == fw::Tier::Thorough,
        bom_prefixes: true,
        random_per_enc: ctx.n(3_000, 100_000),
        profile: Profile { max_tokens: ctx.tier.pick(10, 40), small_caps_weight: 128, queries: false, exact_queries: false, modes: &hist::ALL_MODES, sinks: &hist::ALL_SINKS, bom_prefix_weight: 48 },
        fills: vec![0xA5],
        mixed_sinks: false,
        mixed_all: false,
    };
    let mut st = dech::run_dec_check(ctx, &dc);
    if !fw::should_stop() {
        let ec = EncCheck {
            verdict: &ench::verdict_c09,
            encs: ench::encoder_encodings(),
            srcs: vec![Src::Utf8, Src::Utf16],
            sinks: vec![ESink::Slice, ESink::Vec],
            repls: vec![true],
            cap_patterns: &|r| hist_enc::cap_patterns(r, false),
            core_max_chars: ctx.tier.pick(2, 3),
            core_max_chars_2022: 3,
            random_per_enc: ctx.n(4_000, 100_000),
            profile: EProfile { max_chars: ctx.tier.pick(12, 64), small_caps_weight: 128, queries: false, exact_queries: false, mappable_only: false },
            mappable_only_when_repl: false,
        };
        st.merge(ench::run_enc_check(ctx, &ec));
    }
    if !fw::should_stop() {
        st.merge(one_shot_family(ctx));
    }
    fw::finish(ctx, st, RULE, &["the without-replacement methods are tied to the Standard by C01/C03; C09 only relates the two modes", "per-call comparison is exact because the twin is given identical buffers"], t0.elapsed().as_secs_f64()).exit
}

pub fn replay(case: &serde_json::Value) -> Option<Vec<fw::Violation>> {
    let kind = case.get("kind").and_then(|k| k.as_str()).unwrap_or("");
    if kind.starts_with("c09_one_shot") {
        // cheap and deterministic: re-run through the C11 oracle, which subsumes this comparison
        let enc = encs::by_const(case.get("encoding")?.as_str()?)?;
        if kind == "c09_one_shot_decode" {
            let b = fw::unhex(case.get("input_hex")?.as_str()?);
            let (c, had) = enc.decode_without_bom_handling(&b);
            let h = crate::drive_dec::DecHistory::simple(enc, BomMode::None, Sink::Utf8, false, &b);
            let out = crate::drive_dec::DecDriver::new().run(&h);
            let ok = c.as_bytes() == &out.out8[..] && had == !out.errors.is_empty();
            return Some(if ok { vec![] } else { vec![fw::Violation { msg: "one-shot decode differs from the manual procedure".into(), sig: "C09:one-shot-decode".into(), case: case.clone() }] });
        } else {
            let t = fw::unhex32(case.get("text_code_points_hex")?.as_str()?);
            let h = crate::drive_enc::EncHistory::simple(enc, Src::Utf8, false, &t);
            let out = crate::drive_enc::EncDriver::new().run(&h);
            let s: String = h.text.iter().map(|c| char::from_u32(*c).unwrap_or('\u{FFFD}')).collect();
            let (c, _, had) = enc.encode(&s);
            let ok = c.as_ref() == &out.out[..] && had == !out.unmappables.is_empty();
            return Some(if ok { vec![] } else { vec![fw::Violation { msg: "one-shot encode differs from the manual procedure".into(), sig: "C09:one-shot-encode".into(), case: case.clone() }] });
        }
    }
    if case.get("kind").and_then(|k| k.as_str()) == Some("enc_history") {
        ench::replay_with(case, &ench::verdict_c09)
    } else {
        dech::replay_with(case, &dech::verdict_c09)
    }
}
