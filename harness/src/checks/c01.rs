//! C01 - decoding conforms to the Encoding Standard for every complete byte stream.
//! Oracle: the reference decoders of model_dec.rs on frozen WHATWG index data.

use crate::drive_dec::{BomMode, DecDriver, DecHistory, FaultKind, Sink};
use crate::encs;
use crate::fw::{self, hex, par_run, Ctx, Stats, Violation};
use crate::gen;
use crate::model_dec::{self, Algo, Ev};
use encoding_rs::*;
use serde_json::{json, Value};
use std::time::Instant;

pub const RULE: &str = "case = (encoding, complete byte stream) decoded in one call through four routes (raw->UTF-8, raw->UTF-16, replacement->UTF-8, replacement->UTF-16; no BOM handling) and compared with the reference decoder of the Encoding Standard on frozen WHATWG index data: scalar sequence, one U+FFFD per error, had_errors, absolute (start,len) of every Malformed, documented ranges of (len, after). Enumerated sub-spaces are complete; random streams come from a per-decoder token grammar. Non-trivial = stream contains at least one non-ASCII (or ESC/SO/SI) byte; distinct = distinct (encoding, bytes), counted by construction for enumerations and by content hash for random streams.";

fn case_json(enc: &'static Encoding, bytes: &[u8]) -> Value {
    json!({"kind": "c01", "encoding": encs::const_name(enc), "bytes_hex": hex(bytes)})
}

/// Returns a description of the first disagreement, if any.
pub fn check_bytes(enc: &'static Encoding, algo: Algo, bytes: &[u8], drv: &mut DecDriver) -> Option<String> {
    let ev = model_dec::decode(algo, bytes);
    let want_scalars = model_dec::with_replacement(&ev);
    let want_errors = model_dec::errors(&ev);
    for sink in [Sink::Utf8, Sink::Utf16] {
        for repl in [false, true] {
            let h = DecHistory::simple(enc, BomMode::None, sink, repl, bytes);
            let out = drv.run(&h);
            let route = format!("{}{}", if repl { "with replacement -> " } else { "without replacement -> " }, sink.name());
            if let Some(f) = out.first_fault(&[FaultKind::Panic, FaultKind::Range, FaultKind::Valid, FaultKind::Bounds]) {
                return Some(format!("[{}] {}", route, f.msg));
            }
            if !out.completed {
                return Some(format!("[{}] stream did not complete: {:?}", route, out.faults.first().map(|f| f.msg.clone())));
            }
            let got = match out.scalars(sink) {
                Some(s) => s,
                None => return Some(format!("[{}] output is not well-formed", route)),
            };
            if got != want_scalars {
                return Some(format!("[{}] scalars differ: crate [{}] Standard [{}]", route, fw::hex32(&got), fw::hex32(&want_scalars)));
            }
            if repl {
                if out.had_errors != !want_errors.is_empty() {
                    return Some(format!("[{}] had_errors = {} but the Standard's decoder reports {} error(s)", route, out.had_errors, want_errors.len()));
                }
            } else if out.errors != want_errors {
                return Some(format!("[{}] malformed-sequence reports differ: crate (start,len) {:?} raw (len,after) {:?}; Standard {:?}", route, out.errors, out.raw_malformed, want_errors));
            }
        }
    }
    // the complete stream through an output buffer that is shorter than the input (the caller loop
    // re-pushes after every OutputFull): same oracle.  Capacities vary with the length so that
    // all residues modulo the 16-unit stride occur.
    if (bytes.len() >= 6 && (bytes.len() + bytes[1] as usize + bytes[bytes.len() - 2] as usize) % 3 == 0) || (3..6).contains(&bytes.len()) {
        let n = bytes.len();
        // one of four variants per stream (selected by content), to keep the cost at one extra run
        let variants = [(Sink::Utf8, false, Sink::Utf8.min_cap() + (n * 7 + 3) % 29), (Sink::Utf16, true, Sink::Utf16.min_cap() + (n * 5 + 1) % 31), (Sink::Utf8, true, 17 + n % 47), (Sink::Utf16, false, 17 + (n * 3) % 47)];
        let pickv = (n + bytes[n / 2] as usize + bytes[n - 1] as usize) % 4;
        for (sink, repl, cap) in [variants[pickv]] {
            let mut h = DecHistory::simple(enc, BomMode::None, sink, repl, bytes);
            h.caps = vec![cap];
            // and the input in two pieces, cut at an odd offset (inside a UTF-16 code unit, usually inside a sequence)
            h.cuts = vec![((n * 3 / 7) | 1).min(n)];
            let out = drv.run(&h);
            let route = format!("{} -> {} through a {}-unit output buffer, input cut at {}", if repl { "with replacement" } else { "without replacement" }, sink.name(), cap, h.cuts[0]);
            if let Some(f) = out.first_fault(&[FaultKind::Panic, FaultKind::Range, FaultKind::Valid, FaultKind::Bounds]) {
                return Some(format!("[{}] {}", route, f.msg));
            }
            if !out.completed {
                return Some(format!("[{}] stream did not complete: {:?}", route, out.faults.first().map(|f| f.msg.clone())));
            }
            let got = match out.scalars(sink) {
                Some(s) => s,
                None => return Some(format!("[{}] output is not well-formed", route)),
            };
            if got != want_scalars {
                return Some(format!("[{}] scalars differ: crate [{}] Standard [{}]", route, fw::hex32(&got), fw::hex32(&want_scalars)));
            }
            if repl {
                if out.had_errors != !want_errors.is_empty() {
                    return Some(format!("[{}] had_errors = {} but the Standard's decoder reports {} error(s)", route, out.had_errors, want_errors.len()));
                }
            } else if out.errors != want_errors {
                return Some(format!("[{}] malformed-sequence reports differ: crate (start,len) {:?}; Standard {:?}", route, out.errors, want_errors));
            }
        }
    }
    if algo == Algo::Utf8 {
        // second, independent oracle for UTF-8
        let lossy = String::from_utf8_lossy(bytes);
        let want: Vec<u32> = lossy.chars().map(|c| c as u32).collect();
        if want != want_scalars {
            return Some(format!("reference model disagrees with std from_utf8_lossy: model [{}] std [{}]", fw::hex32(&want_scalars), fw::hex32(&want)));
        }
    }
    None
}

fn record(enc: &'static Encoding, algo: Algo, bytes: &[u8], drv: &mut DecDriver, st: &mut Stats, enumerated: bool, class: &str) {
    st.evals += 1;
    st.class(class);
    if gen::has_non_ascii(bytes) {
        if enumerated {
            st.nontrivial_distinct();
        } else {
            st.nontrivial_hash(fw::mix(fw::fnv(bytes), encs::index_of(enc) as u64));
        }
    }
    if let Some(msg) = check_bytes(enc, algo, bytes, drv) {
        let min = shrink(enc, algo, bytes);
        let msg2 = check_bytes(enc, algo, &min, drv).unwrap_or(msg);
        st.violations.push(Violation { msg: format!("{} bytes {}: {}", enc.name(), hex(&min), msg2), sig: format!("C01:{}", enc.name()), case: case_json(enc, &min) });
    }
}

fn shrink(enc: &'static Encoding, algo: Algo, bytes: &[u8]) -> Vec<u8> {
    fw::shrink_greedy(
        bytes.to_vec(),
        |b: &Vec<u8>| {
            let mut c = Vec::new();
            if b.len() > 4 {
                c.push(b[..b.len() / 2].to_vec());
                c.push(b[b.len() / 2..].to_vec());
            }
            for i in 0..b.len() {
                let mut x = b.clone();
                x.remove(i);
                c.push(x);
            }
            for i in 0..b.len() {
                if b[i] != b'a' {
                    let mut x = b.clone();
                    x[i] = b'a';
                    c.push(x);
                }
            }
            c
        },
        |b: &Vec<u8>| {
            let mut d = DecDriver::new();
            check_bytes(enc, algo, b, &mut d).is_some()
        },
    )
}

pub fn replay(case: &Value) -> Option<Vec<Violation>> {
    let enc = encs::by_const(case.get("encoding")?.as_str()?)?;
    let bytes = fw::unhex(case.get("bytes_hex")?.as_str()?);
    let mut drv = DecDriver::new();
    let algo = model_dec::algo_for(enc);
    Some(match check_bytes(enc, algo, &bytes, &mut drv) {
        None => vec![],
        Some(msg) => vec![Violation { msg, sig: format!("C01:{}", enc.name()), case: case.clone() }],
    })
}

fn sample(st: &mut Stats, enc: &'static Encoding, algo: Algo, bytes: &[u8]) {
    st.sample(3, || {
        let ev = model_dec::decode(algo, bytes);
        json!({"encoding": enc.name(), "bytes_hex": hex(bytes), "standard_events": ev.iter().map(|e| match e { Ev::Ch(c) => format!("U+{:04X}", c), Ev::Err(s, l) => format!("error@{}+{}", s, l) }).collect::<Vec<_>>()})
    });
}

pub fn run(ctx: &Ctx) -> i32 {
    let t0 = Instant::now();
    let all = encs::all();
    let mut total = Stats::new();

    // (a) all strings of length 0, 1, 2 for each encoding: part = (encoding, first byte)
    let st = par_run(ctx, 40 * 257, |part, st| {
        let enc = all[part / 257];
        let algo = model_dec::algo_for(enc);
        let mut drv = DecDriver::new();
        let f = part % 257;
        if f == 256 {
            record(enc, algo, &[], &mut drv, st, true, "len0");
            for b in 0..=255u8 {
                record(enc, algo, &[b], &mut drv, st, true, "len1");
            }
            return;
        }
        for b in 0..=255u8 {
            let bytes = [f as u8, b];
            record(enc, algo, &bytes, &mut drv, st, true, "len2");
            if f == 0x81 && b == 0x40 {
                sample(st, enc, algo, &bytes);
            }
        }
    });
    total.merge(st);
    total.exhaustive.push("all byte strings of length 0..=2 for each of the 40 encodings".into());

    if !fw::should_stop() {
        let st = structured(ctx);
        total.merge(st);
    }
    if !fw::should_stop() {
        let st = random_streams(ctx);
        total.merge(st);
    }
    let wall = t0.elapsed().as_secs_f64();
    fw::finish(
        ctx,
        total,
        RULE,
        &[
            "the frozen index data in /verif/data (reconstructed from WHATWG-generated test data, CPython's gb18030 ranges, a reviewed single-byte snapshot) is the Standard's",
            "my transcription of the Standard's decoder algorithms is faithful; the two ISO-2022-JP error attributions are the crate's documented ones",
        ],
        wall,
    )
    .exit
}

/// Structured 3/4-byte families.
fn structured(ctx: &Ctx) -> Stats {
    let thorough = ctx.tier == fw::Tier::Thorough;
    let mut total = Stats::new();
    let t_fam = Instant::now();
    // EUC-JP: all 8F xx yy ; lead trail class
    let st = par_run(ctx, 256, |x, st| {
        let mut drv = DecDriver::new();
        let algo = Algo::EucJp;
        for y in 0..=255u8 {
            record(EUC_JP, algo, &[0x8F, x as u8, y], &mut drv, st, true, "eucjp-8F-xx-yy");
        }
        if x >= 0x80 {
            for t in gen::TRAIL_CLASSES {
                for c in gen::TRAIL_CLASSES {
                    record(EUC_JP, algo, &[x as u8, t, c], &mut drv, st, true, "eucjp-lead-trail-class");
                    record(EUC_JP, algo, &[0x8F, x as u8, t, c], &mut drv, st, true, "eucjp-8F-lead-trail-class");
                }
            }
        }
    });
    total.merge(st);
    if std::env::var("VERIF_TIMING").is_ok() { eprintln!("[timing] C01 structured family 1 done at {:.1}s", t_fam.elapsed().as_secs_f64()); }
    total.exhaustive.push("EUC-JP: all 8F xx yy".into());
    if fw::should_stop() {
        return total;
    }
    // lead + trail + class byte for the two-byte CJK decoders (every lead, every trail, class third)
    let two_byte: [&'static Encoding; 5] = [BIG5, EUC_KR, SHIFT_JIS, GBK, GB18030];
    let st = par_run(ctx, two_byte.len() * 128, |part, st| {
        let enc = two_byte[part / 128];
        let algo = model_dec::algo_for(enc);
        let lead = 0x80 + (part % 128) as u8;
        let mut drv = DecDriver::new();
        for t in 0..=255u8 {
            for c in [0x41u8, 0x30, 0x80, 0x81, 0xFF] {
                record(enc, algo, &[lead, t, c], &mut drv, st, true, "cjk-lead-trail-class");
            }
        }
    });
    total.merge(st);
    if std::env::var("VERIF_TIMING").is_ok() { eprintln!("[timing] C01 structured family 2 done at {:.1}s", t_fam.elapsed().as_secs_f64()); }
    if fw::should_stop() {
        return total;
    }
    // gb18030 / GBK four-byte space
    let gbs: [&'static Encoding; 2] = [GB18030, GBK];
    let st = par_run(ctx, 2 * 126, |part, st| {
        let enc = gbs[part / 126];
        let algo = Algo::Gb18030;
        let b1 = 0x81 + (part % 126) as u8;
        let mut drv = DecDriver::new();
        // complete well-formed four-byte space (thorough) or a stride-sampled + edge subset (quick)
        for b2 in 0x30..=0x39u8 {
            for b3 in 0x81..=0xFEu8 {
                for b4 in 0x30..=0x39u8 {
                    let p = (b1 as u32 - 0x81) * 12600 + (b2 as u32 - 0x30) * 1260 + (b3 as u32 - 0x81) * 10 + (b4 as u32 - 0x30);
                    let in_bmp_or_edge = p < 39500 || (188900..189100).contains(&p) || (1237500..1237650).contains(&p);
                    if thorough || in_bmp_or_edge || p % 97 == 0 {
                        record(enc, algo, &[b1, b2, b3, b4], &mut drv, st, true, "gb-four-byte");
                    }
                }
            }
            // 3-byte prefix x class byte, 2-byte prefix x class byte
            for b3 in [0x81u8, 0xA0, 0xFE, 0x80, 0xFF, 0x30, 0x41] {
                for c in gen::TRAIL_CLASSES {
                    record(enc, algo, &[b1, b2, b3, c], &mut drv, st, true, "gb-prefix3-class");
                    record(enc, algo, &[b1, b2, b3, c, 0x41], &mut drv, st, true, "gb-prefix3-class");
                }
            }
        }
    });
    total.merge(st);
    if std::env::var("VERIF_TIMING").is_ok() { eprintln!("[timing] C01 structured family 3 done at {:.1}s", t_fam.elapsed().as_secs_f64()); }
    if thorough {
        total.exhaustive.push("gb18030 and GBK: complete well-formed four-byte space (126x10x126x10)".into());
    } else {
        total.exhaustive.push("gb18030 and GBK: all four-byte pointers < 39500 (the whole BMP ranges table) and around 189000 / 1237575".into());
    }
    if fw::should_stop() {
        return total;
    }
    // UTF-8: 3-byte strings (all in thorough; lead >= C0 x all second x class third in quick), 4-byte with lead F0-F7
    let st = par_run(ctx, 256, |b1, st| {
        let b1 = b1 as u8;
        let mut drv = DecDriver::new();
        let algo = Algo::Utf8;
        let thirds: Vec<u8> = if thorough { (0..=255u8).collect() } else { vec![0x00, 0x41, 0x7F, 0x80, 0x8F, 0x90, 0x9F, 0xA0, 0xBF, 0xC0, 0xC2, 0xE0, 0xED, 0xF0, 0xF4, 0xF5, 0xFF] };
        if thorough || b1 >= 0xC0 || b1 == 0x41 || b1 == 0x80 {
            for b2 in 0..=255u8 {
                for &b3 in &thirds {
                    record(UTF_8, algo, &[b1, b2, b3], &mut drv, st, true, "utf8-3byte");
                }
            }
        }
        if (0xF0..=0xF7).contains(&b1) {
            for b2 in 0..=255u8 {
                for b3 in [0x41u8, 0x7F, 0x80, 0x8F, 0x90, 0xBF, 0xC0, 0xE0, 0xFF] {
                    for b4 in [0x41u8, 0x7F, 0x80, 0xBF, 0xC0, 0xF0, 0xFF] {
                        record(UTF_8, algo, &[b1, b2, b3, b4], &mut drv, st, true, "utf8-4byte");
                    }
                }
            }
        }
    });
    total.merge(st);
    if std::env::var("VERIF_TIMING").is_ok() { eprintln!("[timing] C01 structured family 4 done at {:.1}s", t_fam.elapsed().as_secs_f64()); }
    if thorough {
        total.exhaustive.push("UTF-8: every 3-byte string".into());
    }
    if fw::should_stop() {
        return total;
    }
    // ISO-2022-JP: all strings of length <= 5 (quick: <= 4 plus length 5 starting with ESC) over an escape alphabet
    const ALPHA: [u8; 14] = [0x1B, 0x24, 0x28, 0x40, 0x42, 0x4A, 0x49, 0x41, 0x21, 0x5C, 0x7E, 0x0E, 0x80, 0x0A];
    let st = par_run(ctx, 14 * 14, |part, st| {
        let mut drv = DecDriver::new();
        let algo = Algo::Iso2022Jp;
        let a0 = ALPHA[part / 14];
        let a1 = ALPHA[part % 14];
        record(ISO_2022_JP, algo, &[a0, a1], &mut drv, st, true, "2022-alpha");
        for &a2 in &ALPHA {
            record(ISO_2022_JP, algo, &[a0, a1, a2], &mut drv, st, true, "2022-alpha");
            for &a3 in &ALPHA {
                record(ISO_2022_JP, algo, &[a0, a1, a2, a3], &mut drv, st, true, "2022-alpha");
                for &a4 in &ALPHA {
                    record(ISO_2022_JP, algo, &[a0, a1, a2, a3, a4], &mut drv, st, true, "2022-alpha");
                    if thorough && a0 == 0x1B {
                        for &a5 in &ALPHA {
                            record(ISO_2022_JP, algo, &[a0, a1, a2, a3, a4, a5], &mut drv, st, true, "2022-alpha6");
                        }
                    }
                }
            }
        }
    });
    total.merge(st);
    if std::env::var("VERIF_TIMING").is_ok() { eprintln!("[timing] C01 structured family 5 done at {:.1}s", t_fam.elapsed().as_secs_f64()); }
    total.exhaustive.push("ISO-2022-JP: all strings of length 2..=5 over the 14-byte alphabet {1B 24 28 40 42 4A 49 41 21 5C 7E 0E 80 0A}".into());
    if fw::should_stop() {
        return total;
    }
    // ISO-2022-JP: every sequence of up to 4 (thorough: 5) atoms - whole escapes, escape prefixes,
    // a two-byte character, error bytes - because the decoder's flags (output flag, pending
    // prepended byte) only matter three or four tokens later
    {
        let atoms: Vec<Vec<u8>> = crate::hist::atoms(Algo::Iso2022Jp);
        let na = atoms.len();
        let depth = if thorough { 5 } else { 4 };
        let st = par_run(ctx, na * na, |part, st| {
            let mut drv = DecDriver::new();
            let mut v: Vec<u8> = Vec::with_capacity(32);
            let mut idx = vec![0usize; depth];
            let total = (na + 1).pow((depth - 2) as u32);
            for rest in 0..total {
                // sequences [a0, a1, x2.., x(depth-1)] and all their prefixes of length >= 2
                let mut r = rest;
                for d in 2..depth {
                    idx[d] = r % (na + 1);
                    r /= na + 1;
                }
                if r != 0 {
                    continue;
                }
                idx[0] = part / na;
                idx[1] = part % na;
                v.clear();
                let mut ended = false;
                let mut ok = true;
                for d in 0..depth {
                    if idx[d] == na {
                        ended = true;
                        continue;
                    }
                    if ended {
                        ok = false; // an atom after the terminator: not a canonical encoding of a shorter sequence
                        break;
                    }
                    v.extend_from_slice(&atoms[idx[d]]);
                }
                if !ok {
                    continue;
                }
                record(ISO_2022_JP, Algo::Iso2022Jp, &v, &mut drv, st, true, "2022-atom-sequences");
                if fw::should_stop() {
                    return;
                }
            }
        });
        total.merge(st);
        total.exhaustive.push(format!("ISO-2022-JP: every sequence of 2..={} of the {} atoms (5 escapes, ESC, ESC $, ESC (, a two-byte character, 5C, 0E, 80, 21, 7F, ASCII)", depth, na));
        if fw::should_stop() {
            return total;
        }
    }
    // ISO-2022-JP: in each output state all (margin-extended) lead/trail pairs
    let escs: [&[u8]; 5] = [b"\x1B(B", b"\x1B(J", b"\x1B(I", b"\x1B$@", b"\x1B$B"];
    let st = par_run(ctx, 5 * 98, |part, st| {
        let mut drv = DecDriver::new();
        let esc = escs[part / 98];
        let lead = 0x1F + (part % 98) as u8;
        for trail in 0x1F..=0x80u8 {
            let mut v = esc.to_vec();
            v.push(lead);
            v.push(trail);
            record(ISO_2022_JP, Algo::Iso2022Jp, &v, &mut drv, st, true, "2022-state-pairs");
            v.extend_from_slice(b"\x1B(B");
            record(ISO_2022_JP, Algo::Iso2022Jp, &v, &mut drv, st, true, "2022-state-pairs");
        }
    });
    total.merge(st);
    if std::env::var("VERIF_TIMING").is_ok() { eprintln!("[timing] C01 structured family 6 done at {:.1}s", t_fam.elapsed().as_secs_f64()); }
    total.exhaustive.push("ISO-2022-JP: after each of the five escapes, all byte pairs 1F..=80 x 1F..=80".into());
    if fw::should_stop() {
        return total;
    }
    // UTF-16: strings of 1..=3 code units over surrogate-class units with 0-1 trailing bytes
    const UNITS: [u16; 18] = [0x0000, 0x0041, 0x00E9, 0xD7FF, 0xD800, 0xD801, 0xDBFF, 0xDC00, 0xDC01, 0xDFFF, 0xE000, 0xFEFF, 0xFFFE, 0xFFFD, 0x007F, 0x0080, 0x07FF, 0x0800];
    let st = par_run(ctx, 2 * 18, |part, st| {
        let be = part / 18 == 0;
        let enc = if be { UTF_16BE } else { UTF_16LE };
        let algo = Algo::Utf16(be);
        let mut drv = DecDriver::new();
        let push = |v: &mut Vec<u8>, u: u16| {
            if be {
                v.push((u >> 8) as u8);
                v.push(u as u8);
            } else {
                v.push(u as u8);
                v.push((u >> 8) as u8);
            }
        };
        let u0 = UNITS[part % 18];
        for &u1 in &UNITS {
            for &u2 in &UNITS {
                for n in 1..=3 {
                    for trailing in [None, Some(0x00u8), Some(0xD8), Some(0xDC), Some(0x41)] {
                        let mut v = Vec::new();
                        push(&mut v, u0);
                        if n >= 2 {
                            push(&mut v, u1);
                        }
                        if n >= 3 {
                            push(&mut v, u2);
                        }
                        if let Some(t) = trailing {
                            v.push(t);
                        }
                        if n < 3 && u2 != UNITS[0] {
                            continue;
                        }
                        if n < 2 && u1 != UNITS[0] {
                            continue;
                        }
                        record(enc, algo, &v, &mut drv, st, true, "utf16-units");
                    }
                }
            }
        }
    });
    total.merge(st);
    if std::env::var("VERIF_TIMING").is_ok() { eprintln!("[timing] C01 structured family 7 done at {:.1}s", t_fam.elapsed().as_secs_f64()); }
    total.exhaustive.push("UTF-16LE/BE: all strings of 1..=3 code units over 18 surrogate-class and UTF-8-length-boundary units, with 0 or 1 trailing byte".into());
    if fw::should_stop() {
        return total;
    }
    // two sequences inside a long ASCII run: the first at every offset 0..=33, the second at every
    // distance 1..=40 (and 47/48/49, 63/64/65) after it, with tails of several lengths - the fast
    // paths re-enter after the first sequence at a new phase relative to the 16-byte strides
    let all = encs::all();
    let st = par_run(ctx, all.len() * 2, |part, st| {
        let enc = all[part / 2];
        let half = part % 2;
        let algo = model_dec::algo_for(enc);
        let is16 = matches!(algo, Algo::Utf16(_));
        let atoms: Vec<Vec<u8>> = crate::hist::atoms(algo).into_iter().filter(|a| a.iter().any(|b| *b >= 0x80 || *b == 0x1B)).collect();
        let want = if thorough { 8 } else { 4 };
        let stepa = (atoms.len() / want).max(1);
        let atoms: Vec<Vec<u8>> = atoms.into_iter().step_by(stepa).take(want).collect();
        let mut drv = DecDriver::new();
        let mut dists: Vec<usize> = (1..=40).collect();
        dists.extend_from_slice(&[47, 48, 49, 63, 64, 65, 127, 128, 129]);
        for (xi, x) in atoms.iter().enumerate() {
            for (yi, y) in atoms.iter().enumerate() {
                if (xi + yi) % 2 != half {
                    continue;
                }
                for p in 0..=33usize {
                    if fw::should_stop() {
                        return;
                    }
                    for &d in &dists {
                        for tail in [0usize, 3, 16, 35] {
                            let mut v: Vec<u8> = Vec::with_capacity(p + d + tail + 16);
                            let unit = |v: &mut Vec<u8>, i: usize| {
                                let c = b'a' + (i % 26) as u8;
                                match algo {
                                    Algo::Utf16(true) => {
                                        v.push(0);
                                        v.push(c);
                                    }
                                    Algo::Utf16(false) => {
                                        v.push(c);
                                        v.push(0);
                                    }
                                    _ => v.push(c),
                                }
                            };
                            for i in 0..p {
                                unit(&mut v, i);
                            }
                            v.extend_from_slice(x);
                            for i in 0..d.saturating_sub(if is16 { 1 } else { x.len() }) {
                                unit(&mut v, i);
                            }
                            v.extend_from_slice(y);
                            for i in 0..tail {
                                unit(&mut v, i);
                            }
                            record(enc, algo, &v, &mut drv, st, true, "two-sequences-in-long-ascii");
                        }
                    }
                }
            }
        }
    });
    total.merge(st);
    if std::env::var("VERIF_TIMING").is_ok() { eprintln!("[timing] C01 structured family 8 done at {:.1}s", t_fam.elapsed().as_secs_f64()); }
    if !fw::should_stop() {
        // uniform runs: k copies of one unit (and k copies of unit + ASCII) between ASCII runs - a
        // vector kernel decides per 8 / 16 lanes, so "all lanes special in the same way" is a
        // case of its own (e.g. eight U+3000 in UTF-16BE, whose bytes also read as Basic Latin
        // when the swap is forgotten)
        const ULANES: usize = 6;
        let st = par_run(ctx, all.len() * ULANES, |part, st| {
            let enc = all[part / ULANES];
            let ulane = part % ULANES;
            let algo = model_dec::algo_for(enc);
            let mut units: Vec<Vec<u8>> = crate::hist::atoms(algo).into_iter().filter(|a| a.iter().any(|b| *b >= 0x80 || *b == 0x1B)).collect();
            if let Algo::Utf16(be) = algo {
                units.clear();
                for u in [0x0100u16, 0x3000, 0x4E00, 0x7F00, 0x2000, 0x0080, 0x00FF, 0xFF00, 0xFFFD, 0xD800, 0xDC00, 0x0061, 0x6100, 0xD83D, 0xDE00] {
                    units.push(if be { vec![(u >> 8) as u8, u as u8] } else { vec![u as u8, (u >> 8) as u8] });
                }
                units.push(if be { vec![0xD8, 0x3D, 0xDE, 0x00] } else { vec![0x3D, 0xD8, 0x00, 0xDE] });
            }
            let ascii = |v: &mut Vec<u8>, n: usize| {
                for i in 0..n {
                    let c = b'a' + (i % 26) as u8;
                    match algo {
                        Algo::Utf16(true) => v.extend_from_slice(&[0, c]),
                        Algo::Utf16(false) => v.extend_from_slice(&[c, 0]),
                        _ => v.push(c),
                    }
                }
            };
            let mut drv = DecDriver::new();
            for (xi, x) in units.iter().enumerate() {
                if xi % ULANES != ulane {
                    continue;
                }
                if fw::should_stop() {
                    return;
                }
                for p in [0usize, 1, 8, 15, 16] {
                    for k in [2usize, 7, 8, 9, 15, 16, 17, 32, 33] {
                        for t in [0usize, 1, 17] {
                            for alt in [false, true] {
                                let mut v = Vec::with_capacity(256);
                                ascii(&mut v, p);
                                for _ in 0..k {
                                    v.extend_from_slice(x);
                                    if alt {
                                        ascii(&mut v, 1);
                                    }
                                }
                                ascii(&mut v, t);
                                record(enc, algo, &v, &mut drv, st, true, "uniform-run-of-one-unit");
                            }
                        }
                    }
                }
            }
        });
        total.merge(st);
    if std::env::var("VERIF_TIMING").is_ok() { eprintln!("[timing] C01 structured family 9 done at {:.1}s", t_fam.elapsed().as_secs_f64()); }
        total.exhaustive.push("per encoding: runs of 2..=33 copies of one non-ASCII atom (UTF-16: 16 units incl. U+XX00 forms), plain and interleaved with ASCII, after 0/1/8/15/16 and before 0/1/17 ASCII units".into());
    }
    total.exhaustive.push("per encoding: two non-ASCII atoms inside an ASCII run - first at every offset 0..=33, second at every distance 1..=40, 47..49, 63..65, 127..129 - with tails of 0/3/16/35 units".into());
    total
}

fn random_streams(ctx: &Ctx) -> Stats {
    use proptest::strategy::Strategy;
    let all = encs::all();
    let per_enc = ctx.n(2_000, 100_000);
    let parts_per_enc = ctx.tier.pick(1, 8) as usize;
    let mut total = par_run(ctx, all.len() * parts_per_enc, |part, st| {
        let enc = all[part / parts_per_enc];
        let algo = model_dec::algo_for(enc);
        let max_tokens = ctx.tier.pick(12, 40);
        let strat = gen::stream(algo, max_tokens);
        let strat = strat.prop_map(|b| b);
        let drv = std::cell::RefCell::new(DecDriver::new());
        fw::run_random(ctx, part as u64, per_enc / parts_per_enc as u64, &strat, st, |bytes, st| {
            let mut drv = drv.borrow_mut();
            st.class("random-stream");
            if bytes.len() > 64 {
                st.class("random-stream-longer-than-64");
            }
            if gen::has_non_ascii(bytes) {
                st.nontrivial_hash(fw::mix(fw::fnv(bytes), encs::index_of(enc) as u64));
            }
            let ev = model_dec::decode(algo, bytes);
            if ev.iter().any(|e| matches!(e, Ev::Err(..))) {
                st.class("random-stream-with-error");
            }
            st.sample(1, || json!({"encoding": enc.name(), "bytes_hex": hex(bytes), "random": true}));
            match check_bytes(enc, algo, bytes, &mut drv) {
                None => vec![],
                Some(msg) => vec![Violation { msg: format!("{} bytes {}: {}", enc.name(), hex(bytes), msg), sig: format!("C01:{}", enc.name()), case: case_json(enc, bytes) }],
            }
        });
    });
    total.notes.push(format!("random grammar streams: {} per encoding", per_enc));
    total
}
