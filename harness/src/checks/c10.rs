//! C10 - BOM sniffing, BOM removal and no-BOM modes for any split.
use super::dech::{self, DecCheck, Scratch};
use crate::drive_dec::{BomMode, DecHistory, Sink};
use crate::encs;
use crate::fw::{self, par_run, Ctx, Stats, Violation};
use crate::hist::{self, Profile};
use encoding_rs::*;
use serde_json::json;
use std::time::Instant;

pub const RULE: &str = "case = decoder history whose stream starts with every prefix of length 0..=3 over {EF BB BF FE FF 00 41 80} (exhaustive) followed by a tail, in the three BOM modes, all cut sets of the first bytes, small and large sinks (also patterns that begin with a destination of 0 or 2 units, below the documented minimum, which the caller then grows: such a call may panic - the history is then discarded - or return OutputFull without progress, but what follows must be unaffected), UTF-8/UTF-16, raw/replacement; oracle (metamorphic) = a no-BOM decoder of (BOM-selected or nominal) encoding on the stream minus the BOM: same scalars, same absolute error locations shifted by the BOM length, encoding() equal to the selected encoding; plus Encoding::for_bom against the three literal prefixes on all strings of length <= 3 and random longer ones. Non-trivial = stream starts with a BOM or look-alike byte and has a cut inside its first 3 bytes; distinct = distinct history.";

fn check<'a>(ctx: &Ctx) -> DecCheck<'a> {
    DecCheck {
        verdict: &dech::verdict_c10,
        encs: encs::all(),
        modes: vec![BomMode::Sniff, BomMode::Remove, BomMode::None],
        sinks: vec![Sink::Utf8, Sink::Utf16],
        repls: vec![false, true],
        cap_patterns: &|s| {
            let m = s.min_cap();
            vec![vec![m], vec![m + 1], vec![m + 2], vec![8], vec![]]
        },
        core_max_len: 3,
        triples: false,
        bom_prefixes: true,
        random_per_enc: ctx.n(2_000, 60_000),
        profile: Profile { max_tokens: 6, small_caps_weight: 160, queries: false, exact_queries: false, modes: &hist::ALL_MODES, sinks: &hist::ALL_SINKS, bom_prefix_weight: 200 },
        fills: vec![0xA5],
        mixed_sinks: false,
        mixed_all: false,
    }
}

fn for_bom_expected(b: &[u8]) -> Option<(&'static Encoding, usize)> {
    if b.len() >= 3 && b[0] == 0xEF && b[1] == 0xBB && b[2] == 0xBF {
        Some((UTF_8, 3))
    } else if b.len() >= 2 && b[0] == 0xFF && b[1] == 0xFE {
        Some((UTF_16LE, 2))
    } else if b.len() >= 2 && b[0] == 0xFE && b[1] == 0xFF {
        Some((UTF_16BE, 2))
    } else {
        None
    }
}

fn for_bom_check(b: &[u8]) -> Option<String> {
    let got = Encoding::for_bom(b);
    let want = for_bom_expected(b);
    if got.map(|(e, n)| (e.name(), n)) != want.map(|(e, n)| (e.name(), n)) {
        return Some(format!("Encoding::for_bom({}) = {:?}, expected {:?}", fw::hex(b), got.map(|(e, n)| (e.name(), n)), want.map(|(e, n)| (e.name(), n))));
    }
    None
}

/// the exhaustive prefix family: every prefix of length 0..=3 over the alphabet, x tails
fn prefix_family(ctx: &Ctx) -> Stats {
    const ALPHA: [u8; 8] = [0xEF, 0xBB, 0xBF, 0xFE, 0xFF, 0x00, 0x41, 0x80];
    let mut prefixes: Vec<Vec<u8>> = vec![vec![]];
    for a in ALPHA {
        prefixes.push(vec![a]);
        for b in ALPHA {
            prefixes.push(vec![a, b]);
            for c in ALPHA {
                prefixes.push(vec![a, b, c]);
            }
        }
    }
    let all = encs::all();
    let c = check(ctx);
    let thorough = ctx.tier == fw::Tier::Thorough;
    par_run(ctx, all.len() * 4, |part, st| {
        let enc = all[part / 4];
        let quarter = part % 4;
        let algo = crate::model_dec::algo_for(enc);
        let at = hist::atoms(algo);
        let mut tails: Vec<Vec<u8>> = vec![vec![], b"a".to_vec(), vec![0xFF]];
        tails.push(at.get(1).cloned().unwrap_or_default());
        if thorough {
            for a in at.iter().skip(2).take(4) {
                tails.push(a.clone());
            }
        }
        let mut sc = Scratch::new();
        for (pi, p) in prefixes.iter().enumerate() {
            if pi % 4 != quarter {
                continue;
            }
            if fw::should_stop() {
                return;
            }
            for tail in &tails {
                let mut stream = p.clone();
                stream.extend_from_slice(tail);
                let n = stream.len();
                // all cut sets over the first (up to) 4 bytes
                let k = n.min(4).saturating_sub(if n <= 4 { 1 } else { 0 });
                for mask in 0u32..(1 << k) {
                    let cuts: Vec<usize> = (0..k).filter(|i| mask & (1 << i) != 0).map(|i| i + 1).collect();
                    for &mode in &c.modes {
                        for &sink in &c.sinks {
                            for &repl in &c.repls {
                                // the last two patterns start with a destination BELOW the minimum (0 or 2 units -
                                // a String without spare capacity that the caller grows after OutputFull)
                                for caps in [vec![sink.min_cap()], vec![sink.min_cap() + 1], vec![], vec![crate::drive_dec::cap_under(0), sink.min_cap()], vec![crate::drive_dec::cap_under(2), crate::drive_dec::cap_under(0), 8]] {
                                    for last_on_empty in [false, true] {
                                        let h = DecHistory { enc, mode, sink, repl, stream: stream.clone(), cuts: cuts.clone(), last_on_empty, caps: caps.clone(), fill: 0xA5, align: 0, sinks_per_call: vec![], repls_per_call: vec![] };
                                        st.evals += 1;
                                        if let Some((msg, sig)) = dech::verdict_c10(&h, &mut sc, st, true) {
                                            let mut case = h.to_json();
                                            case["transcript"] = sc.drv.run(&h).transcript_json();
                                            st.violations.push(Violation { msg: format!("{} [{} {} repl={}] stream {} cuts {:?} caps {:?}: {}", enc.name(), mode.name(), sink.name(), repl, fw::hex(&stream), cuts, caps, msg), sig, case });
                                            return;
                                        }
                                    }
                                }
                            }
                        }
                    }
                }
            }
        }
    })
}

fn for_bom_family(ctx: &Ctx) -> Stats {
    use proptest::prelude::*;
    let mut st = par_run(ctx, 256, |a, st| {
        let a = a as u8;
        let mut chk = |b: &[u8], st: &mut Stats| {
            st.evals += 1;
            if matches!(b.first(), Some(0xEF) | Some(0xFE) | Some(0xFF)) {
                st.nontrivial_distinct();
            }
            if let Some(m) = for_bom_check(b) {
                st.violations.push(Violation { msg: m, sig: "C10:for_bom".into(), case: json!({"kind": "for_bom", "bytes_hex": fw::hex(b)}) });
            }
        };
        if a == 0 {
            chk(&[], st);
        }
        chk(&[a], st);
        for b in 0..=255u8 {
            chk(&[a, b], st);
            if matches!(a, 0xEF | 0xFE | 0xFF | 0xBB | 0x00) {
                for c in 0..=255u8 {
                    chk(&[a, b, c], st);
                }
            } else {
                for c in [0x00u8, 0xBF, 0xFE, 0xFF] {
                    chk(&[a, b, c], st);
                }
            }
        }
    });
    // each BOM (and each two-byte look-alike) followed by every pair of further bytes
    let lookalikes: [&[u8]; 7] = [b"\xEF\xBB\xBF", b"\xFF\xFE", b"\xFE\xFF", b"\xEF\xBB", b"\xFF\xFF", b"\xFE\xFE", b"\xEF\xBF\xBB"];
    let more = par_run(ctx, lookalikes.len() * 16, |part, st| {
        let pre = lookalikes[part / 16];
        for a in ((part % 16) * 16)..((part % 16) * 16 + 16) {
            for b in 0..=255u8 {
                let mut v = pre.to_vec();
                v.push(a as u8);
                v.push(b);
                st.evals += 1;
                st.nontrivial_distinct();
                if let Some(m) = for_bom_check(&v) {
                    st.violations.push(Violation { msg: m, sig: "C10:for_bom".into(), case: json!({"kind": "for_bom", "bytes_hex": fw::hex(&v)}) });
                    return;
                }
            }
        }
    });
    st.merge(more);
    st.exhaustive.push("Encoding::for_bom: all strings of length <= 2, all 3-byte strings starting with EF/FE/FF/BB/00, each BOM and look-alike followed by every pair of further bytes".into());
    let mut r = Stats::new();
    let strat = (0usize..12, proptest::collection::vec(any::<u8>(), 0..40)).prop_map(|(i, tail)| {
        let mut v = crate::gen::BOMISH[i].to_vec();
        v.extend_from_slice(&tail);
        v
    });
    fw::run_random(ctx, 77, ctx.n(20_000, 500_000), &strat, &mut r, |b, st| {
        st.nontrivial_hash(fw::fnv(b));
        match for_bom_check(b) {
            None => vec![],
            Some(m) => vec![Violation { msg: m, sig: "C10:for_bom".into(), case: json!({"kind": "for_bom", "bytes_hex": fw::hex(b)}) }],
        }
    });
    st.merge(r);
    st
}

/// the one-shot methods make the same promises (decode sniffs, decode_with_bom_removal strips
/// only its own BOM, the two without_bom_handling forms strip nothing): they are compared with
/// the streaming decoders of the three modes - which the families above tie to the oracle -
/// on BOM / look-alike prefixes at the start AND after an ASCII run (where no BOM logic may exist)
fn one_shot_family(ctx: &Ctx) -> Stats {
    const ALPHA: [u8; 8] = [0xEF, 0xBB, 0xBF, 0xFE, 0xFF, 0x00, 0x41, 0x80];
    let mut prefixes: Vec<Vec<u8>> = vec![vec![]];
    for a in ALPHA {
        prefixes.push(vec![a]);
        for b in ALPHA {
            prefixes.push(vec![a, b]);
            for c in ALPHA {
                prefixes.push(vec![a, b, c]);
            }
        }
    }
    let all = encs::all();
    par_run(ctx, all.len(), |part, st| {
        let enc = all[part];
        let mut drv = crate::drive_dec::DecDriver::new();
        let tails: [&[u8]; 7] = [b"", b"a", b"\x00\x00", b"d\x00e\x00", b"\x00d\x00e", b"\xFF", b"\xE4\xB8\xAD"];
        for p in &prefixes {
            if fw::should_stop() {
                return;
            }
            for tail in tails {
                for run in [0usize, 1, 16, 70] {
                    let mut v: Vec<u8> = (0..run).map(|i| b'a' + (i % 26) as u8).collect();
                    v.extend_from_slice(p);
                    v.extend_from_slice(tail);
                    st.evals += 1;
                    st.class("one-shot-methods-on-BOM-and-look-alike-prefixes");
                    if matches!(p.first(), Some(0xEF) | Some(0xFE) | Some(0xFF)) {
                        st.nontrivial_distinct();
                    }
                    if let Some((method, msg)) = super::c11::check_decode(enc, &v, &mut drv, None) {
                        st.violations.push(Violation { msg: format!("{} {} on {}: {}", enc.name(), method, fw::hex(&v), msg), sig: "C10:one-shot".into(), case: json!({"kind": "c10_one_shot", "encoding": encs::const_name(enc), "input_hex": fw::hex(&v)}) });
                        return;
                    }
                }
            }
        }
    })
}

pub fn run(ctx: &Ctx) -> i32 {
    let t0 = Instant::now();
    let mut st = for_bom_family(ctx);
    if !fw::should_stop() {
        st.merge(one_shot_family(ctx));
        st.exhaustive.push("one-shot decode / decode_with_bom_removal / decode_without_bom_handling{,_and_without_replacement}: every prefix of length 0..=3 over {EF BB BF FE FF 00 41 80} x 7 tails (incl. 00 00 and UTF-16 text) after an ASCII run of 0/1/16/70 bytes, all 40 encodings, against the streaming decoder of the matching mode".into());
    }
    if !fw::should_stop() {
        let s = prefix_family(ctx);
        st.merge(s);
        st.exhaustive.push("every prefix of length 0..=3 over {EF BB BF FE FF 00 41 80} x tails x all cut sets of the first 4 bytes x 3 BOM modes x UTF-8/UTF-16 x raw/replacement x {min, min+1, ample} capacities x last on data/empty call, for all 40 encodings".into());
    }
    if !fw::should_stop() {
        let c = check(ctx);
        let s = dech::run_dec_check(ctx, &c);
        st.merge(s);
    }
    fw::finish(ctx, st, RULE, &["the no-BOM single-call behaviour is tied to the Standard by C01", "BOM recognition is specified by the three literal prefixes in the property text"], t0.elapsed().as_secs_f64()).exit
}

pub fn replay(case: &serde_json::Value) -> Option<Vec<Violation>> {
    if case.get("kind").and_then(|k| k.as_str()) == Some("c10_one_shot") {
        let enc = encs::by_const(case.get("encoding")?.as_str()?)?;
        let b = fw::unhex(case.get("input_hex")?.as_str()?);
        return Some(match super::c11::check_decode(enc, &b, &mut crate::drive_dec::DecDriver::new(), None) {
            None => vec![],
            Some((m, msg)) => vec![Violation { msg: format!("{}: {}", m, msg), sig: "C10:one-shot".into(), case: case.clone() }],
        });
    }
    if case.get("kind").and_then(|k| k.as_str()) == Some("for_bom") {
        let b = fw::unhex(case.get("bytes_hex")?.as_str()?);
        return Some(match for_bom_check(&b) {
            None => vec![],
            Some(m) => vec![Violation { msg: m, sig: "C10:for_bom".into(), case: case.clone() }],
        });
    }
    dech::replay_with(case, &dech::verdict_c10)
}
