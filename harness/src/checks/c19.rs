//! C19 - latin1_byte_compatible_up_to is exact and does not disturb the decoder.
use crate::drive_dec::BomMode;
use crate::encs;
use crate::fw::{self, par_run, Ctx, Stats, Violation};
use crate::gen;
use crate::golden::golden;
use crate::hist;
use crate::model_dec::{algo_for, Algo};
use encoding_rs::*;
use serde_json::{json, Value};
use std::time::Instant;

pub const RULE: &str = "case = (encoding, BOM mode, prefix stream fed to the decoder without `last`, query buffer): prefixes are all atoms / atom pairs / BOMs and look-alikes of the decoder (so: nothing fed yet, withheld BOM bytes, pending lead, after an error, after an escape, non-ASCII ISO-2022-JP state), query buffers of length 0..=100 with the first incompatible byte of each class at every position and ASCII runs crossing the 16-byte strides, plus seeded random (prefix, buffer) pairs. Oracle = twin-decoder differential (the twin is rebuilt by replaying the same prefix): Some(n) => n <= len, the decoder is not waiting for a BOM (model of the sniffing automaton) and not mid-sequence (twin + end of stream gives no error), feeding buf[..n] to the twin yields exactly the scalars equal to those bytes with no error, n >= the pass-through ASCII prefix (ISO-2022-JP: excluding 0E/0F/1B), and for single-byte encodings n is exactly the first index whose frozen-index decoding differs from the byte; None must be justified by a never-compatible encoding (UTF-16LE/BE, replacement, as currently resolved), a pending BOM decision, or the twin being observably non-neutral (it differs from a fresh no-BOM decoder on at least one continuation of a fixed distinguishing set); after the query the queried decoder and an unqueried twin give identical results on the rest of the stream. Non-trivial = decoder not in its initial state, or buffer with a non-ASCII byte at index > 0; distinct = distinct (encoding, mode, prefix, buffer).";

#[derive(Clone, Debug)]
pub struct Q {
    pub enc: &'static Encoding,
    pub mode: BomMode,
    pub prefix: Vec<u8>,
    pub buf: Vec<u8>,
}

impl Q {
    fn to_json(&self) -> Value {
        json!({"kind": "c19", "encoding": encs::const_name(self.enc), "mode": self.mode.name(), "prefix_hex": fw::hex(&self.prefix), "buffer_hex": fw::hex(&self.buf)})
    }
    fn from_json(v: &Value) -> Option<Q> {
        Some(Q { enc: encs::by_const(v.get("encoding")?.as_str()?)?, mode: BomMode::from_name(v.get("mode")?.as_str()?), prefix: fw::unhex(v.get("prefix_hex")?.as_str()?), buf: fw::unhex(v.get("buffer_hex")?.as_str()?) })
    }
}

/// feed bytes (raw mode, ample buffer), collecting scalars and the number of errors; returns None on panic
fn feed(d: &mut Decoder, bytes: &[u8], last: bool) -> Option<(Vec<u32>, usize)> {
    let mut out: Vec<u32> = Vec::new();
    let mut errs = 0usize;
    let mut dst = vec![0u16; bytes.len() + 16];
    let mut off = 0usize;
    let mut guard = 0;
    loop {
        guard += 1;
        if guard > 4 * bytes.len() + 32 {
            return None;
        }
        let r = fw::catch(|| d.decode_to_utf16_without_replacement(&bytes[off..], &mut dst, last));
        let (r, rd, wr) = match r {
            Ok(x) => x,
            Err(_) => return None,
        };
        off += rd;
        for c in char::decode_utf16(dst[..wr].iter().cloned()) {
            out.push(c.map(|c| c as u32).unwrap_or(0xFFFD_0000));
        }
        match r {
            DecoderResult::InputEmpty => break,
            DecoderResult::OutputFull => continue,
            DecoderResult::Malformed(..) => {
                errs += 1;
                out.push(0xFFFF_FFFF);
            }
        }
    }
    Some((out, errs))
}

/// is the sniffing automaton still undecided after `prefix`?
fn bom_pending(enc: &'static Encoding, mode: BomMode, prefix: &[u8]) -> bool {
    match mode {
        BomMode::None => false,
        BomMode::Sniff => matches!(prefix, [] | [0xEF] | [0xEF, 0xBB] | [0xFE] | [0xFF]),
        BomMode::Remove => {
            if enc == UTF_8 {
                matches!(prefix, [] | [0xEF] | [0xEF, 0xBB])
            } else if enc == UTF_16BE {
                matches!(prefix, [] | [0xFE])
            } else if enc == UTF_16LE {
                matches!(prefix, [] | [0xFF])
            } else {
                false
            }
        }
    }
}

fn continuations() -> Vec<Vec<u8>> {
    let mut v: Vec<Vec<u8>> = vec![vec![], b"a".to_vec(), b"\\".to_vec(), b"~".to_vec(), vec![0x0E], vec![0x1B], vec![0x21, 0x21], vec![0x30], vec![0x30, 0x81, 0x30], vec![0x40], vec![0x00, 0x00]];
    for b in 0x80..=0xFFu8 {
        v.push(vec![b]);
    }
    for e in gen::ISO2022JP_ESCAPES {
        v.push(e.to_vec());
        let mut w = e.to_vec();
        w.push(0x21);
        w.push(0x21);
        v.push(w);
    }
    v.push(b"\xEF\xBB\xBF".to_vec());
    v.push(b"\xA1\xA1".to_vec());
    v.push(b"\xBF\xBF".to_vec());
    v
}

pub fn check(q: &Q, conts: &[Vec<u8>]) -> Option<String> {
    let algo = algo_for(q.enc);
    let mut d = q.mode.new_decoder(q.enc);
    let mut twin = q.mode.new_decoder(q.enc);
    if feed(&mut d, &q.prefix, false).is_none() || feed(&mut twin, &q.prefix, false).is_none() {
        return None; // panics / hangs while feeding the prefix are C06/C08's business
    }
    // the query buffer starts 0..=15 bytes after a 16-byte boundary, depending on its contents
    let shift = (fw::fnv(&q.buf) % 16) as usize;
    let mut holder: Vec<u8> = vec![0x61; q.buf.len() + 32];
    let base = (16 - (holder.as_ptr() as usize & 15)) & 15;
    let qoff = base + shift;
    holder[qoff..qoff + q.buf.len()].copy_from_slice(&q.buf);
    let qbuf: &[u8] = &holder[qoff..qoff + q.buf.len()];
    let r = match fw::catch(|| d.latin1_byte_compatible_up_to(qbuf)) {
        Ok(r) => r,
        Err(p) => return Some(format!("latin1_byte_compatible_up_to panicked: {}", p)),
    };
    let pending = bom_pending(q.enc, q.mode, &q.prefix);
    let cur = d.encoding();
    let cur_algo = algo_for(cur);
    let never = matches!(cur_algo, Algo::Utf16(_) | Algo::Replacement);
    // mid-sequence: twin + end of stream reports an error
    let mut t_eof = q.mode.new_decoder(q.enc);
    feed(&mut t_eof, &q.prefix, false)?;
    let mid = match feed(&mut t_eof, &[], true) {
        Some((_, e)) => e > 0,
        None => false,
    };
    match r {
        Some(n) => {
            if n > q.buf.len() {
                return Some(format!("returned Some({}) for a {}-byte buffer", n, q.buf.len()));
            }
            if pending {
                return Some(format!("returned Some({}) although the decoder is still waiting for a BOM decision", n));
            }
            if never {
                return Some(format!("returned Some({}) for {} which is never Latin1-byte-compatible", n, cur.name()));
            }
            if mid {
                return Some(format!("returned Some({}) although the decoder is mid-sequence (end of stream here is an error)", n));
            }
            // feeding buf[..n] must yield exactly those byte values
            let mut t = q.mode.new_decoder(q.enc);
            feed(&mut t, &q.prefix, false)?;
            match feed(&mut t, &q.buf[..n], false) {
                None => return Some("twin failed while decoding the compatible prefix".into()),
                Some((out, errs)) => {
                    let want: Vec<u32> = q.buf[..n].iter().map(|b| *b as u32).collect();
                    if errs != 0 || out != want {
                        return Some(format!("returned Some({}) but decoding the first {} bytes yields [{}] ({} error(s)), not the byte values", n, n, fw::hex32(&out), errs));
                    }
                }
            }
            // never stops short inside a pass-through ASCII run
            let pass = if cur_algo == Algo::Iso2022Jp { q.buf.iter().position(|b| *b >= 0x80 || matches!(*b, 0x0E | 0x0F | 0x1B)).unwrap_or(q.buf.len()) } else { q.buf.iter().position(|b| *b >= 0x80).unwrap_or(q.buf.len()) };
            if n < pass {
                return Some(format!("returned Some({}) but the first {} bytes are pass-through ASCII", n, pass));
            }
            // single-byte: exactly the first byte that decodes to something else
            let exact = match cur_algo {
                Algo::SingleByte(ix) => {
                    let t = &golden().single_byte[ix].1;
                    Some(q.buf.iter().position(|b| *b >= 0x80 && t[(*b - 0x80) as usize] != Some(*b as u16)).unwrap_or(q.buf.len()))
                }
                Algo::XUserDefined => Some(q.buf.iter().position(|b| *b >= 0x80).unwrap_or(q.buf.len())),
                _ => None,
            };
            if let Some(e) = exact {
                if n != e {
                    return Some(format!("returned Some({}) but the first byte that decodes to something other than itself is at index {}", n, e));
                }
            }
        }
        None => {
            // ISO-2022-JP: the Standard's own state machine says whether anything is pending
            if !(pending || never) && cur_algo == Algo::Iso2022Jp && q.mode == BomMode::None && crate::model_dec::iso2022jp_initial_state_after(&q.prefix) {
                return Some("returned None although the Standard's ISO-2022-JP decoder is back in its initial state after these bytes (ASCII state, ASCII output state, output flag unset, nothing pending)".into());
            }
            if !(pending || never) {
                // must be observably non-neutral
                let mut differs = false;
                for c in conts {
                    let mut t = q.mode.new_decoder(q.enc);
                    feed(&mut t, &q.prefix, false)?;
                    let a = feed(&mut t, c, true);
                    let mut fresh = cur.new_decoder_without_bom_handling();
                    let b = feed(&mut fresh, c, true);
                    if a != b {
                        differs = true;
                        break;
                    }
                }
                if !differs {
                    return Some("returned None although the decoder is not waiting for a BOM, the encoding can be byte-compatible, and the decoder is indistinguishable from a fresh one on every continuation of the distinguishing set (it is in a neutral state)".into());
                }
            }
        }
    }
    // the query does not disturb the decoder
    let rest: &[u8] = &q.buf;
    let a = feed(&mut d, rest, true);
    let b = feed(&mut twin, rest, true);
    if a != b {
        return Some(format!("after the query the decoder produced {:?} for the rest of the stream but an unqueried twin produced {:?}", a.map(|x| fw::hex32(&x.0)), b.map(|x| fw::hex32(&x.0))));
    }
    None
}

/// Queries at every call boundary of a history (also right after Malformed / OutputFull returns,
/// where the decoder may owe deferred output: gb18030 pending ASCII, a withheld BB, a pending
/// UTF-16 unit, ...).  The query buffer is a prefix of the real unconsumed input.  The twin is
/// rebuilt by replaying the same calls.
pub fn check_mid_history(h: &crate::drive_dec::DecHistory, drv: &mut crate::drive_dec::DecDriver, st: &mut Stats) -> Option<(usize, String)> {
    drv.stop_after_calls = None;
    let full = drv.run(h);
    if !full.completed {
        return None;
    }
    let ncalls = full.calls.len();
    for k in 1..ncalls {
        // state after k calls; skip if the stream already ended
        let consumed: usize = full.calls[..k].iter().map(|c| c.read).sum();
        let rest = &h.stream[consumed..];
        let buf = &rest[..rest.len().min(12)];
        let mut d = h.mode.new_decoder(h.enc);
        drv.stop_after_calls = Some(k);
        let _ = drv.run_with(h, &mut d, &mut |_d, _c| {});
        let r = match fw::catch(|| d.latin1_byte_compatible_up_to(buf)) {
            Ok(r) => r,
            Err(p) => {
                drv.stop_after_calls = None;
                return Some((k, format!("latin1_byte_compatible_up_to panicked: {}", p)));
            }
        };
        st.class("mid-history-query");
        if matches!(full.calls[k - 1].res, crate::drive_dec::Res::Malformed(..) | crate::drive_dec::Res::OutputFull) {
            st.class("mid-history-query-right-after-Malformed-or-OutputFull");
        }
        if let Some(n) = r {
            let mut t = h.mode.new_decoder(h.enc);
            drv.stop_after_calls = Some(k);
            let _ = drv.run_with(h, &mut t, &mut |_d, _c| {});
            drv.stop_after_calls = None;
            if n > buf.len() {
                return Some((k, format!("returned Some({}) for a {}-byte buffer", n, buf.len())));
            }
            // the decoder has seen every byte offered to it so far, not only the consumed ones
            let offered = full.calls[..k].iter().map(|c| c.src_off + c.src_len).max().unwrap_or(0);
            let end_signalled = full.calls[..k].iter().any(|c| c.last);
            if !end_signalled && bom_pending(h.enc, h.mode, &h.stream[..offered]) {
                return Some((k, format!("after {} call(s) ({} bytes consumed) returned Some({}) although the BOM decision is still pending / withheld BOM bytes have not been delivered", k, consumed, n)));
            }
            match feed(&mut t, &buf[..n], false) {
                None => return Some((k, "twin failed while decoding the compatible prefix".into())),
                Some((out, errs)) => {
                    let want: Vec<u32> = buf[..n].iter().map(|b| *b as u32).collect();
                    if errs != 0 || out != want {
                        return Some((k, format!("after {} call(s) returned Some({}) for upcoming input {} but decoding those {} bytes next yields [{}] ({} error(s)), not the byte values", k, n, fw::hex(buf), n, fw::hex32(&out), errs)));
                    }
                }
            }
        }
    }
    drv.stop_after_calls = None;
    None
}

fn viol(q: &Q, m: String) -> Violation {
    Violation { msg: format!("{} ({}) after prefix {} query buffer {}: {}", q.enc.name(), q.mode.name(), fw::hex(&q.prefix), fw::hex(&q.buf), m), sig: "C19:query".into(), case: q.to_json() }
}

fn shrink(q: &Q, conts: &[Vec<u8>]) -> Q {
    fw::shrink_greedy(
        q.clone(),
        |x: &Q| {
            let mut v = Vec::new();
            for i in 0..x.buf.len() {
                let mut y = x.clone();
                y.buf.remove(i);
                v.push(y);
            }
            if x.buf.len() > 4 {
                let mut y = x.clone();
                y.buf.truncate(x.buf.len() / 2);
                v.push(y);
                let mut y = x.clone();
                y.buf.drain(..x.buf.len() / 2);
                v.push(y);
            }
            for i in 0..x.prefix.len() {
                let mut y = x.clone();
                y.prefix.remove(i);
                v.push(y);
            }
            v
        },
        |x: &Q| check(x, conts).is_some(),
    )
}

fn buffers(algo: Algo, max_len: usize) -> Vec<Vec<u8>> {
    let mut v: Vec<Vec<u8>> = Vec::new();
    let specials: Vec<u8> = match algo {
        Algo::SingleByte(ix) => {
            // a compatible high byte, an incompatible one, an unmapped one if any
            let t = &golden().single_byte[ix].1;
            let mut s = vec![];
            if let Some(i) = (0..128).find(|i| t[*i] == Some(0x80 + *i as u16)) {
                s.push(0x80 + i as u8);
            }
            if let Some(i) = (0..128).find(|i| t[*i].is_some() && t[*i] != Some(0x80 + *i as u16)) {
                s.push(0x80 + i as u8);
            }
            if let Some(i) = (0..128).find(|i| t[*i].is_none()) {
                s.push(0x80 + i as u8);
            }
            s.push(0xFF);
            s.push(0xA0);
            s
        }
        Algo::Iso2022Jp => vec![0x1B, 0x0E, 0x0F, 0x80, 0x5C],
        _ => vec![0x80, 0xA1, 0xE9, 0xFF, 0x1B],
    };
    for len in 0..=max_len {
        let base: Vec<u8> = (0..len).map(|i| b'a' + (i % 26) as u8).collect();
        v.push(base.clone());
        for &s in &specials {
            for pos in 0..len {
                let mut b = base.clone();
                b[pos] = s;
                v.push(b.clone());
                // a second, compatible-looking high byte before it (single-byte encodings)
                if pos >= 2 && matches!(algo, Algo::SingleByte(_)) {
                    b[pos - 2] = specials[0];
                    v.push(b);
                }
            }
        }
    }
    v
}

pub fn run(ctx: &Ctx) -> i32 {
    let t0 = Instant::now();
    let all = encs::all();
    let conts = continuations();
    let thorough = ctx.tier == fw::Tier::Thorough;
    let mut st = par_run(ctx, all.len() * 3, |part, st| {
        let enc = all[part / 3];
        let mode = BomMode::ALL[part % 3];
        let algo = algo_for(enc);
        let mut prefixes = hist::core_streams(algo, if thorough { 6 } else { 4 }, false);
        prefixes.extend(hist::bom_atoms());
        for b in hist::bom_atoms() {
            for a in hist::atoms(algo).iter().take(4) {
                let mut v = b.clone();
                v.extend_from_slice(a);
                prefixes.push(v);
            }
        }
        prefixes.sort();
        prefixes.dedup();
        let bufs = buffers(algo, if thorough { 100 } else { 40 });
        // every prefix x a thinned set of buffers, every buffer x a thinned set of prefixes
        for (pi, p) in prefixes.iter().enumerate() {
            if fw::should_stop() {
                return;
            }
            for (bi, b) in bufs.iter().enumerate() {
                let dense = pi < 6 || b.len() <= 6 || (bi + pi) % (if thorough { 7 } else { 37 }) == 0;
                if !dense {
                    continue;
                }
                let q = Q { enc, mode, prefix: p.clone(), buf: b.clone() };
                st.evals += 1;
                if !p.is_empty() || b.iter().skip(1).any(|x| *x >= 0x80) {
                    st.nontrivial_distinct();
                }
                if bom_pending(enc, mode, p) {
                    st.class("BOM-decision-pending");
                }
                if let Some(m) = check(&q, &conts) {
                    let min = shrink(&q, &conts);
                    let m2 = check(&min, &conts).unwrap_or(m);
                    st.violations.push(viol(&min, m2));
                    return;
                }
                if pi == 7 && b.len() == 20 {
                    st.sample(1, || q.to_json());
                }
            }
        }
    });
    st.exhaustive.push("per encoding x BOM mode: every atom / atom-pair / BOM look-alike prefix x query buffers of every length 0..=40 (thorough 100) with each special byte at every position (dense for the first prefixes and short buffers, thinned otherwise)".into());
    if !fw::should_stop() {
        // mid-history queries: core streams (+ BOM look-alike prefixes) x cut sets x small capacities, raw and with replacement
        let mut encs2 = encs::multibyte();
        encs2.extend(encs::single_byte_sample());
        let r = par_run(ctx, encs2.len() * 4, |part, st| {
            let enc = encs2[part / 4];
            let lane = part % 4;
            let algo = algo_for(enc);
            let mut streams = hist::core_streams(algo, if thorough { 7 } else { 5 }, false);
            for b in hist::bom_atoms() {
                for a in hist::core_streams(algo, 3, false) {
                    let mut v = b.clone();
                    v.extend_from_slice(&a);
                    v.extend_from_slice(b"abc");
                    streams.push(v);
                }
            }
            for s0 in hist::core_streams(algo, 4, false) {
                let mut v = s0.clone();
                v.extend_from_slice(b"xyz");
                streams.push(v);
            }
            streams.sort();
            streams.dedup();
            let mut drv = crate::drive_dec::DecDriver::new();
            for (si, stream) in streams.iter().enumerate() {
                if si % 4 != lane {
                    continue;
                }
                if fw::should_stop() {
                    return;
                }
                let cut_sets = hist::cut_sets(stream.len().min(6));
                for mode in BomMode::ALL {
                    for sink in [crate::drive_dec::Sink::Utf8, crate::drive_dec::Sink::Utf16] {
                        for repl in [false, true] {
                            for cuts in &cut_sets {
                                if cuts.len() > 2 {
                                    continue;
                                }
                                for caps in [vec![sink.min_cap()], vec![sink.min_cap() + 1], vec![]] {
                                    let h = crate::drive_dec::DecHistory { enc, mode, sink, repl, stream: stream.clone(), cuts: cuts.clone(), last_on_empty: true, caps, fill: 0xA5, align: 0, sinks_per_call: vec![], repls_per_call: vec![] };
                                    st.evals += 1;
                                    st.nontrivial_distinct();
                                    if let Some((k, m)) = check_mid_history(&h, &mut drv, st) {
                                        let mut case = h.to_json();
                                        case["kind"] = json!("c19_mid_history");
                                        case["query_after_calls"] = json!(k);
                                        st.violations.push(Violation { msg: format!("{} ({} {} repl={}) stream {} cuts {:?} caps {:?}: {}", enc.name(), mode.name(), sink.name(), repl, fw::hex(stream), cuts, h.caps, m), sig: "C19:mid-history".into(), case });
                                        return;
                                    }
                                }
                            }
                        }
                    }
                }
            }
        });
        st.merge(r);
        st.exhaustive.push("mid-history queries: at every call boundary (also right after Malformed / OutputFull) of core histories (atoms, BOM look-alike prefixes, ASCII tails) x cut sets of size <= 2 x {min, min+1, ample} capacities x 3 BOM modes x UTF-8/UTF-16 x raw/replacement".into());
    }
    if !fw::should_stop() {
        use proptest::prelude::*;
        let r = par_run(ctx, all.len(), |part, st| {
            let enc = all[part];
            let algo = algo_for(enc);
            let strat = (gen::stream(algo, 4), proptest::collection::vec((any::<u8>(), any::<u32>()), 0..12), 0usize..3, 0usize..14).prop_map(move |(mut prefix, toks, m, bom)| {
                if bom < 12 && bom % 2 == 0 {
                    let mut v = gen::BOMISH[bom].to_vec();
                    v.append(&mut prefix);
                    prefix = v;
                }
                let mut buf = Vec::new();
                for (k, x) in toks {
                    match k % 6 {
                        0 | 1 | 2 => {
                            let n = gen::ASCII_RUN_LENS[gen::pick(x, gen::ASCII_RUN_LENS.len())];
                            for i in 0..n {
                                buf.push(0x20 + ((x as usize + i) % 0x5F) as u8);
                            }
                        }
                        3 => buf.push(0x80 + (x % 0x80) as u8),
                        4 => buf.push([0x1B, 0x0E, 0x0F, 0x5C, 0x7E, 0x7F][gen::pick(x, 6)]),
                        _ => buf.push(x as u8),
                    }
                }
                Q { enc, mode: BomMode::ALL[m], prefix, buf }
            });
            fw::run_random(ctx, 1900 + part as u64, ctx.n(4_000, 150_000), &strat, st, |q, st| {
                st.class("random-query");
                if !q.prefix.is_empty() || q.buf.iter().skip(1).any(|x| *x >= 0x80) {
                    st.nontrivial_hash(fw::mix(fw::fnv(&q.prefix), fw::mix(fw::fnv(&q.buf), (part * 3 + q.mode as usize) as u64)));
                }
                match check(q, &conts) {
                    None => vec![],
                    Some(m) => vec![viol(q, m)],
                }
            });
            if let Some(v) = st.violations.pop() {
                match Q::from_json(&v.case) {
                    Some(q) => {
                        let min = shrink(&q, &conts);
                        match check(&min, &conts) {
                            Some(m) => st.violations.push(viol(&min, m)),
                            None => st.violations.push(v),
                        }
                    }
                    None => st.violations.push(v),
                }
            }
        });
        st.merge(r);
    }
    fw::finish(ctx, st, RULE, &["the distinguishing set (end of stream; every byte 80..FF; backslash, tilde, SO, ESC; digits and trail candidates; the ISO-2022-JP escapes with and without a following character; BOM) separates every non-neutral decoder state from the initial one", "single-byte exactness uses the frozen single-byte indexes"], t0.elapsed().as_secs_f64()).exit
}

pub fn replay(case: &Value) -> Option<Vec<Violation>> {
    if case.get("kind").and_then(|k| k.as_str()) == Some("c19_mid_history") {
        let mut c2 = case.clone();
        c2["kind"] = json!("dec_history");
        let h = crate::drive_dec::DecHistory::from_json(&c2)?;
        let mut st = Stats::new();
        return Some(match check_mid_history(&h, &mut crate::drive_dec::DecDriver::new(), &mut st) {
            None => vec![],
            Some((_, m)) => vec![Violation { msg: m, sig: "C19:mid-history".into(), case: case.clone() }],
        });
    }
    let q = Q::from_json(case)?;
    Some(match check(&q, &continuations()) {
        None => vec![],
        Some(m) => vec![viol(&q, m)],
    })
}
