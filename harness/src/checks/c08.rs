//! C08 - conversion loops always make progress and terminate.
use super::dech::{self, DecCheck};
use super::ench::{self, EncCheck};
use crate::drive_dec::{BomMode, Sink};
use crate::drive_enc::{ESink, Src};
use crate::encs;
use crate::fw::{self, Ctx};
use crate::hist::{self, Profile};
use crate::hist_enc::{self, EProfile};
use std::time::Instant;

pub const RULE: &str = "case = decoder / encoder history in the minimal-capacity regime (every call gets the documented minimum or minimum+{1,2,3}: 4-7 bytes or 2-5 units decoding, 4-7 bytes raw encoding, 14-17 with replacement), all cut sets, all sinks/sources, both replacement modes, all BOM modes; oracle (invariant over the history) = every call that does not end the stream has read + written > 0 (or reports Malformed/Unmappable), and the caller loop ends within 4*units + 16 (+2 per chunk) calls; a hard cap of 10x that turns a real hang into a violation with its transcript. Non-trivial = at least two OutputFull returns; distinct = distinct history.";

pub fn run(ctx: &Ctx) -> i32 {
    let t0 = Instant::now();
    let mut e = encs::multibyte();
    e.extend(encs::single_byte_sample());
    let dc = DecCheck {
        verdict: &dech::verdict_c08,
        encs: e,
        modes: vec![BomMode::None, BomMode::Sniff, BomMode::Remove],
        sinks: vec![Sink::Utf8, Sink::Utf16, Sink::Str, Sink::String],
        repls: vec![false, true],
        cap_patterns: &|s| hist::cap_patterns(s, true),
        core_max_len: ctx.tier.pick(6, 8),
        triples: ctx.tier == fw::Tier::Thorough,
        bom_prefixes: true,
        random_per_enc: ctx.n(3_000, 100_000),
        profile: Profile { max_tokens: ctx.tier.pick(10, 40), small_caps_weight: 255, queries: false, exact_queries: false, modes: &hist::ALL_MODES, sinks: &hist::ALL_SINKS, bom_prefix_weight: 48 },
        fills: vec![0xA5],
        mixed_sinks: true,
        mixed_all: false,
    };
    let mut st = dech::run_dec_check(ctx, &dc);
    if !fw::should_stop() {
        let ec = EncCheck {
            verdict: &ench::verdict_c08,
            encs: ench::encoder_encodings(),
            srcs: vec![Src::Utf8, Src::Utf16],
            sinks: vec![ESink::Slice, ESink::Vec],
            repls: vec![false, true],
            cap_patterns: &|r| hist_enc::cap_patterns(r, true),
            core_max_chars: ctx.tier.pick(2, 3),
            core_max_chars_2022: 3,
            random_per_enc: ctx.n(4_000, 100_000),
            profile: EProfile { max_chars: ctx.tier.pick(12, 64), small_caps_weight: 255, queries: false, exact_queries: false, mappable_only: false },
            mappable_only_when_repl: false,
        };
        st.merge(ench::run_enc_check(ctx, &ec));
    }
    fw::finish(ctx, st, RULE, &["termination is checked as the safety property 'calls <= 4*units + 16 (+2 per chunk)', which is what the property states", "capacities are never below the documented minimum"], t0.elapsed().as_secs_f64()).exit
}

pub fn replay(case: &serde_json::Value) -> Option<Vec<fw::Violation>> {
    if case.get("kind").and_then(|k| k.as_str()) == Some("enc_history") {
        ench::replay_with(case, &ench::verdict_c08)
    } else {
        dech::replay_with(case, &dech::verdict_c08)
    }
}
