//! C05 - output is always well-formed; safe APIs never leave an invalid str or String.
use super::dech::{self, DecCheck};
use super::memfam::{self, MemFamily};
use crate::drive_dec::{filler_text, BomMode, Sink};
use crate::encs;
use crate::fw::{self, par_run, Ctx, Stats, Violation};
use crate::hist::{self, Profile};
use crate::memchk::MemFn;
use crate::model_dec::algo_for;
use serde_json::json;
use std::time::Instant;

pub const RULE: &str = "case = (a) decoder history with &mut str and String sinks whose previous contents are valid text made of 2-, 3- and 4-byte characters at every phase relative to the capacity boundary (so that `written` and `written+16` land inside an old character), also slice sinks; (b) mem::convert_utf16_to_str{,_partial}, convert_latin1_to_str{,_partial} (and the slice-writing / Cow-returning mem functions) with the same destinations and destination lengths 0..=sufficient; (c) the one-shot decode* methods on grammar streams; (d) reuse of a finished decoder (the documented panic is caught and the destination inspected); (e) &mut str destinations of 0..=3 bytes (below the documented minimum: the call may panic or make no progress, the str must stay valid). Oracle (invariant) = std::str::from_utf8 on the ENTIRE destination after every call (and after the caught panic), from_utf8 / decode_utf16 on dst[..written] and on the accumulated output, every returned Cow<str>/String re-validated. Non-trivial = destination longer than `written` holding multi-byte filler there (str/String sinks) or non-ASCII output (slice sinks); distinct = distinct case.";

fn one_shot_and_reuse(ctx: &Ctx) -> Stats {
    use proptest::strategy::Strategy;
    let all = encs::all();
    par_run(ctx, all.len(), |part, st| {
        let enc = all[part];
        let algo = algo_for(enc);
        let strat = crate::gen::stream(algo, ctx.tier.pick(10, 30)).prop_map(|b| b);
        fw::run_random(ctx, 900 + part as u64, ctx.n(1_500, 40_000), &strat, st, |bytes, st| {
            st.class("one-shot-decode");
            if crate::gen::has_non_ascii(bytes) {
                st.nontrivial_hash(fw::mix(fw::fnv(bytes), part as u64));
            }
            let mut bad: Option<String> = None;
            let dsc = crate::guard::Desc { what: "Encoding::decode* (one-shot)", encoding: enc.name(), data: bytes.as_ptr(), len: bytes.len() };
            let _g = crate::guard::enter(&dsc);
            let r = fw::catch(|| {
                let (a, _, _) = enc.decode(bytes);
                let (b, _) = enc.decode_with_bom_removal(bytes);
                let (c, _) = enc.decode_without_bom_handling(bytes);
                let d = enc.decode_without_bom_handling_and_without_replacement(bytes);
                let mut v = vec![a.into_owned().into_bytes(), b.into_owned().into_bytes(), c.into_owned().into_bytes()];
                if let Some(d) = d {
                    v.push(d.into_owned().into_bytes());
                }
                v
            });
            match r {
                Err(p) => bad = Some(format!("one-shot decode panicked: {}", p)),
                Ok(v) => {
                    for (i, b) in v.iter().enumerate() {
                        if std::str::from_utf8(b).is_err() {
                            bad = Some(format!("one-shot decode method #{} returned invalid UTF-8: {}", i, fw::hex(b)));
                        }
                    }
                }
            }
            // reuse after finish: the panic is documented; every safe destination must stay valid
            // (and unchanged) whatever it and its spare capacity held before
            for fill in [1u8, 2, 3] {
                let mut d = enc.new_decoder_without_bom_handling();
                let mut tmp = vec![0u8; bytes.len() * 3 + 32];
                let _ = fw::catch(|| d.decode_to_utf8(bytes, &mut tmp, true));
                for raw in [false, true] {
                    let mut s = filler_text(fill, bytes.len(), 24);
                    let r = fw::catch(|| {
                        if raw {
                            let _ = d.decode_to_str_without_replacement(bytes, &mut s, true);
                        } else {
                            let _ = d.decode_to_str(bytes, &mut s, true);
                        }
                    });
                    if r.is_ok() {
                        st.class("reuse-after-finish-did-not-panic");
                    } else {
                        st.class("reuse-after-finish-panicked-(documented)");
                    }
                    if std::str::from_utf8(s.as_bytes()).is_err() {
                        bad = Some(format!("&mut str is invalid after reusing a finished decoder with decode_to_str{} (panic caught): {}", if raw { "_without_replacement" } else { "" }, fw::hex(s.as_bytes())));
                    }
                    // a String whose spare capacity holds bytes that are not valid UTF-8
                    let mut s2 = String::with_capacity(48);
                    s2.push_str("\u{E9}\u{4E2D}");
                    unsafe {
                        let p = s2.as_mut_ptr().add(s2.len());
                        for i in 0..(s2.capacity() - s2.len()) {
                            p.add(i).write([0xFFu8, 0xAC, 0x82, 0xE2][(i + fill as usize) & 3]);
                        }
                    }
                    let _ = fw::catch(|| {
                        if raw {
                            let _ = d.decode_to_string_without_replacement(bytes, &mut s2, true);
                        } else {
                            let _ = d.decode_to_string(bytes, &mut s2, true);
                        }
                    });
                    if std::str::from_utf8(s2.as_bytes()).is_err() {
                        bad = Some(format!("String is invalid after reusing a finished decoder with decode_to_string{} (panic caught): len {} bytes {}", if raw { "_without_replacement" } else { "" }, s2.len(), fw::hex(&s2.as_bytes()[..s2.len().min(24)])));
                    }
                }
            }
            match bad {
                None => vec![],
                Some(m) => vec![Violation { msg: format!("{} bytes {}: {}", enc.name(), fw::hex(bytes), m), sig: "C05:one-shot".into(), case: json!({"kind": "c05_one_shot", "encoding": encs::const_name(enc), "bytes_hex": fw::hex(bytes)}) }],
            }
        });
    })
}

/// One undersized-destination history: `stream` cut at `cut` (cut == len: the end of the stream
/// arrives as an empty final call), every call made on a `&mut str` of `dlen` (0..=3) bytes -
/// below the documented 4-byte minimum, so the call may panic or report OutputFull without
/// progress, but whatever it does the str must stay valid UTF-8.
fn undersized_case(enc: &'static encoding_rs::Encoding, sniff: bool, raw: bool, stream: &[u8], cut: usize, dlen: usize, fill: u8, small: u8) -> Option<String> {
    let mut d = if sniff { enc.new_decoder() } else { enc.new_decoder_without_bom_handling() };
    let chunks: [(&[u8], bool); 2] = [(&stream[..cut], false), (&stream[cut..], true)];
    for (ci, (chunk, last)) in chunks.iter().enumerate() {
        let mut off = 0usize;
        for _call in 0..12 {
            // `small` selects which chunk(s) get the undersized destination (bit 0: first, bit 1: second);
            // the other chunk is decoded into an ample one, which is how a decoder gets into a
            // mid-sequence state before it meets the short destination
            let dlen = if small & (1 << ci) != 0 { dlen } else { 64 };
            let mut buf: Vec<u8> = filler_text(fill, ci, dlen).into_bytes();
            let before = buf.clone();
            let src = &chunk[off..];
            let dsc = crate::guard::Desc { what: "decode_to_str* into an undersized &mut str", encoding: enc.name(), data: src.as_ptr(), len: src.len() };
            let _g = crate::guard::enter(&dsc);
            let r = fw::catch(|| {
                // SAFETY: `buf` holds valid UTF-8 (filler_text)
                let s = unsafe { std::str::from_utf8_unchecked_mut(&mut buf) };
                if raw {
                    let (r, read, written) = d.decode_to_str_without_replacement(src, s, *last);
                    (matches!(r, encoding_rs::DecoderResult::InputEmpty), matches!(r, encoding_rs::DecoderResult::Malformed(..)), read, written)
                } else {
                    let (r, read, written, _) = d.decode_to_str(src, s, *last);
                    (matches!(r, encoding_rs::CoderResult::InputEmpty), false, read, written)
                }
            });
            if std::str::from_utf8(&buf).is_err() {
                return Some(format!(
                    "a {}-byte &mut str holding {:?} is left as invalid UTF-8 [{}] by decode_to_str{}(src = [{}], last = {}) ({}); bytes fed before: [{}]",
                    dlen,
                    String::from_utf8_lossy(&before),
                    fw::hex(&buf),
                    if raw { "_without_replacement" } else { "" },
                    fw::hex(src),
                    last,
                    match &r {
                        Ok(_) => "the call returned".to_string(),
                        Err(p) => format!("the call panicked: {}", p),
                    },
                    fw::hex(&stream[..(if ci == 0 { off } else { cut + off })])
                ));
            }
            match r {
                // a panic on a destination below the documented minimum is a precondition panic; the
                // decoder's state is unspecified afterwards, so the history ends here
                Err(_) => return None,
                Ok((input_empty, malformed, read, written)) => {
                    if read > src.len() || written > dlen {
                        return Some(format!("read {} of {} / written {} of {}", read, src.len(), written, dlen));
                    }
                    off += read;
                    if input_empty {
                        break;
                    }
                    if read == 0 && written == 0 && !malformed {
                        // no progress: permitted below the minimum; nothing more to learn
                        return None;
                    }
                }
            }
        }
    }
    None
}

/// the same for the String-receiving methods: a String whose spare capacity is 0..=3 bytes (and
/// holds bytes that are not valid UTF-8); after the call - returned or panicked - the String must
/// be valid UTF-8 in its entirety
fn undersized_string_case(enc: &'static encoding_rs::Encoding, sniff: bool, raw: bool, stream: &[u8], cut: usize, dlen: usize, small: u8) -> Option<String> {
    let mut d = if sniff { enc.new_decoder() } else { enc.new_decoder_without_bom_handling() };
    let chunks: [(&[u8], bool); 2] = [(&stream[..cut], false), (&stream[cut..], true)];
    for (ci, (chunk, last)) in chunks.iter().enumerate() {
        let mut off = 0usize;
        for _call in 0..12 {
            let spare = if small & (1 << ci) != 0 { dlen } else { 64 };
            let mut s = String::with_capacity(2 + spare);
            s.push('\u{E9}');
            let cap = s.capacity();
            let ptr = s.as_ptr();
            // SAFETY: writes stay inside the allocation (len..capacity) and do not change len
            unsafe {
                let p = s.as_mut_ptr().add(s.len());
                for i in 0..(cap - s.len()) {
                    p.add(i).write([0xFFu8, 0xBF, 0xC0, 0x80][i & 3]);
                }
            }
            let src = &chunk[off..];
            let r = fw::catch(|| {
                if raw {
                    let (r, read) = d.decode_to_string_without_replacement(src, &mut s, *last);
                    (matches!(r, encoding_rs::DecoderResult::InputEmpty), matches!(r, encoding_rs::DecoderResult::Malformed(..)), read)
                } else {
                    let (r, read, _) = d.decode_to_string(src, &mut s, *last);
                    (matches!(r, encoding_rs::CoderResult::InputEmpty), false, read)
                }
            });
            let what = |m: String| {
                Some(format!(
                    "decode_to_string{}(src = [{}], last = {}) on a String with {} spare bytes ({}; bytes fed before: [{}]): {}",
                    if raw { "_without_replacement" } else { "" },
                    fw::hex(src),
                    last,
                    cap - 2,
                    match &r {
                        Ok(_) => "the call returned".to_string(),
                        Err(p) => format!("the call panicked: {}", p),
                    },
                    fw::hex(&stream[..(if ci == 0 { off } else { cut + off })]),
                    m
                ))
            };
            // (whether the String was reallocated or its old contents were touched is C06's question, not C05's)
            let _ = ptr;
            if s.len() > s.capacity() {
                return what(format!("the String's length {} exceeds its capacity {}", s.len(), s.capacity()));
            }
            // look at the raw bytes (as_bytes on a possibly invalid String is what we are checking)
            let bytes: Vec<u8> = unsafe { std::slice::from_raw_parts(s.as_ptr(), s.len()) }.to_vec();
            if std::str::from_utf8(&bytes).is_err() {
                std::mem::forget(s);
                return what(format!("the String is left holding invalid UTF-8 [{}]", fw::hex(&bytes)));
            }
            match r {
                Err(_) => return None,
                Ok((input_empty, malformed, read)) => {
                    if read > src.len() {
                        return what(format!("read {} of {}", read, src.len()));
                    }
                    let written = bytes.len().saturating_sub(2);
                    off += read;
                    if input_empty {
                        break;
                    }
                    if read == 0 && written == 0 && !malformed {
                        return None;
                    }
                }
            }
        }
    }
    None
}

fn undersized_str(ctx: &Ctx) -> Stats {
    let all = encs::all();
    let thorough = ctx.tier == fw::Tier::Thorough;
    par_run(ctx, all.len() * 2, |part, st| {
        let enc = all[part / 2];
        let sniff = part % 2 == 1;
        let algo = algo_for(enc);
        let mut streams = hist::core_streams(algo, if thorough { 6 } else { 5 }, false);
        if sniff {
            for b in crate::gen::BOMISH {
                for tail in [&b""[..], b"a", b"\xE4"] {
                    streams.push([b, tail].concat());
                }
            }
        }
        for stream in &streams {
            if fw::should_stop() {
                return;
            }
            for cut in 0..=stream.len() {
                for dlen in 0..=3usize {
                    for raw in [false, true] {
                        for small in [1u8, 2, 3] {
                            st.evals += 1;
                            st.class("String-with-0..=3-spare-bytes");
                            if let Some(msg) = undersized_string_case(enc, sniff, raw, stream, cut, dlen, small) {
                                st.violations.push(Violation {
                                    msg: format!("{} [{}]: {}", enc.name(), if sniff { "sniffing" } else { "no BOM handling" }, msg),
                                    sig: "C05:undersized-string".into(),
                                    case: json!({"kind": "c05_undersized_string", "encoding": encs::const_name(enc), "sniff": sniff, "raw": raw, "stream_hex": fw::hex(stream), "cut": cut, "dst_len": dlen, "small_chunks": small}),
                                });
                                return;
                            }
                        }
                        for fill in [1u8, 2, 0] {
                          for small in [1u8, 2, 3] {
                            st.evals += 1;
                            if !stream.is_empty() {
                                st.nontrivial_distinct();
                            }
                            st.class("undersized-str-destination-(0..=3-bytes)");
                            if let Some(msg) = undersized_case(enc, sniff, raw, stream, cut, dlen, fill, small) {
                                let sig = if msg.contains("the call panicked") { "C05:undersized-str:invalid-after-panic" } else { "C05:undersized-str:invalid-after-return" };
                                if let Some(id) = fw::known_open_id(sig) {
                                    st.known_hit(id);
                                    continue;
                                }
                                st.violations.push(Violation {
                                    msg: format!("{} [{}]: {}", enc.name(), if sniff { "sniffing" } else { "no BOM handling" }, msg),
                                    sig: sig.into(),
                                    case: json!({"kind": "c05_undersized", "encoding": encs::const_name(enc), "sniff": sniff, "raw": raw, "stream_hex": fw::hex(stream), "cut": cut, "dst_len": dlen, "fill": fill, "small_chunks": small}),
                                });
                                return;
                            }
                          }
                        }
                    }
                }
            }
        }
        st.sample(1, || json!({"kind": "c05_undersized", "encoding": encs::const_name(enc), "sniff": sniff, "streams": streams.len(), "dst_len": "0..=3", "cuts": "every position incl. end (empty final call)"}));
    })
}

/// UTF-8 input is the one case where the decoder COPIES input to output after validating it, so
/// a validator that accepts too much hands invalid bytes to the caller as "valid" text: the
/// structured UTF-8 families (table sweep, adjacent pairs, runs of three) through the one-shot
/// methods, decode_to_utf8 and decode_to_str, all outputs re-validated with std
fn utf8_structured(ctx: &Ctx) -> Stats {
    use crate::memgen;
    const LANES: usize = 16;
    let mut st = par_run(ctx, LANES, |lane, st| {
        let mut buf = vec![0u8; 512];
        let mut check = |bytes: &[u8], st: &mut Stats| -> bool {
            st.evals += 1;
            st.nontrivial_distinct();
            let mut bad: Option<String> = None;
            let r = fw::catch(|| {
                let (a, _) = encoding_rs::UTF_8.decode_without_bom_handling(bytes);
                let ok_a = std::str::from_utf8(a.as_bytes()).is_ok();
                let b = encoding_rs::UTF_8.decode_without_bom_handling_and_without_replacement(bytes);
                let ok_b = b.as_ref().map_or(true, |c| std::str::from_utf8(c.as_bytes()).is_ok()) && (b.is_some() == std::str::from_utf8(bytes).is_ok());
                (ok_a, ok_b)
            });
            match r {
                Err(p) => bad = Some(format!("one-shot decode panicked: {}", p)),
                Ok((ok_a, ok_b)) => {
                    if !ok_a {
                        bad = Some("UTF_8.decode_without_bom_handling returned text that is not valid UTF-8".into());
                    } else if !ok_b {
                        bad = Some("UTF_8.decode_without_bom_handling_and_without_replacement returned Some(invalid text) or disagrees with std about validity".into());
                    }
                }
            }
            if bad.is_none() {
                for raw in [false, true] {
                    let mut d = encoding_rs::UTF_8.new_decoder_without_bom_handling();
                    let need = bytes.len() * 3 + 16;
                    if buf.len() < need {
                        buf.resize(need, 0);
                    }
                    let r = fw::catch(|| {
                        if raw {
                            let (_, _, w) = d.decode_to_utf8_without_replacement(bytes, &mut buf[..need], true);
                            w
                        } else {
                            let (_, _, w, _) = d.decode_to_utf8(bytes, &mut buf[..need], true);
                            w
                        }
                    });
                    match r {
                        Err(p) => bad = Some(format!("decode_to_utf8 panicked: {}", p)),
                        Ok(w) => {
                            if w > need || std::str::from_utf8(&buf[..w]).is_err() {
                                bad = Some(format!("decode_to_utf8{} reported {} bytes as written which are not valid UTF-8: {}", if raw { "_without_replacement" } else { "" }, w, fw::hex(&buf[..w.min(need).min(48)])));
                            }
                        }
                    }
                }
            }
            if let Some(m) = bad {
                st.violations.push(Violation { msg: format!("UTF-8 bytes {}: {}", fw::hex(bytes), m), sig: "C05:utf8-structured".into(), case: json!({"kind": "c05_one_shot", "encoding": "UTF_8", "bytes_hex": fw::hex(bytes)}) });
                return false;
            }
            true
        };
        let mut v: Vec<u8> = Vec::with_capacity(64);
        let mut tk = 0usize;
        let ok = memgen::utf8_run_triples(|a1, a2, s| {
            tk += 1;
            if tk % LANES != lane {
                return true;
            }
            for (pre, tail) in [(0usize, 1usize), (13, 0), (2, 17)] {
                v.clear();
                v.extend((0..pre).map(|i| b'a' + i as u8));
                v.extend_from_slice(a1);
                v.extend_from_slice(a2);
                v.extend_from_slice(s);
                v.extend((0..tail).map(|i| b'A' + i as u8));
                st.class("utf8-run-of-three");
                if !check(&v, st) {
                    return false;
                }
            }
            !(tk % 4096 == 0 && fw::should_stop())
        });
        if !ok {
            return;
        }
        let near = memgen::utf8_near_valid(false);
        let reps = memgen::utf8_valid_reps();
        for (ni, s) in near.iter().enumerate() {
            if ni % LANES != lane {
                continue;
            }
            if fw::should_stop() {
                return;
            }
            for a in &reps {
                for (k, &(pre, tail)) in memgen::PAIR_EMBED.iter().enumerate() {
                    let src = if k % 2 == 0 { memgen::embed_pair8(a, s, pre, tail) } else { memgen::embed_pair8(s, a, pre, tail) };
                    st.class("utf8-adjacent-pair");
                    if !check(&src, st) {
                        return;
                    }
                }
            }
        }
        let ok = memgen::utf8_table_sweep(lane, LANES, |s| {
            v.clear();
            v.extend_from_slice(b"ab");
            v.extend_from_slice(s);
            v.extend_from_slice(b"cd");
            st.class("utf8-table-sweep");
            check(&v, st)
        });
        let _ = ok;
    });
    st.exhaustive.push("UTF-8 decoder: runs of three same-length sequences ending in each near-valid sequence, valid character x near-valid sequence pairs, the UTF-8 table sweep - through the one-shot methods and decode_to_utf8{,_without_replacement}, every output re-validated".into());
    st
}

fn dec_check<'a>(ctx: &Ctx) -> DecCheck<'a> {
    let mut e = encs::multibyte();
    e.extend(encs::single_byte_sample());
    DecCheck {
        verdict: &dech::verdict_c05,
        encs: e,
        modes: vec![BomMode::None, BomMode::Sniff],
        sinks: vec![Sink::Str, Sink::String, Sink::Utf8, Sink::Utf16],
        repls: vec![false, true],
        cap_patterns: &|s| {
            let m = s.min_cap();
            vec![vec![m], vec![m + 1], vec![m + 2], vec![m + 3], vec![8], vec![17], vec![21], vec![40]]
        },
        core_max_len: ctx.tier.pick(5, 7),
        triples: ctx.tier == fw::Tier::Thorough,
        bom_prefixes: false,
        random_per_enc: ctx.n(4_000, 120_000),
        profile: Profile { max_tokens: ctx.tier.pick(10, 40), small_caps_weight: 100, queries: false, exact_queries: false, modes: &hist::ALL_MODES, sinks: &[Sink::Str, Sink::String, Sink::Str, Sink::Utf8, Sink::Utf16], bom_prefix_weight: 32 },
        fills: vec![1, 2, 3, 2, 3, 0],
        mixed_sinks: true,
        mixed_all: false,
    }
}

pub fn run(ctx: &Ctx) -> i32 {
    let t0 = Instant::now();
    let mut st = one_shot_and_reuse(ctx);
    if !fw::should_stop() {
        st.merge(utf8_structured(ctx));
    }
    if !fw::should_stop() {
        st.merge(undersized_str(ctx));
        st.exhaustive.push("40 encodings x with/without BOM sniffing x every atom and atom pair (up to 5 bytes) x every cut incl. the empty final call x &mut str destinations of 0..=3 bytes for the first / second / both chunks (64 bytes otherwise) x 3 filler texts x decode_to_str / decode_to_str_without_replacement, and Strings with 0..=3 spare bytes (spare capacity pre-filled with invalid bytes) x decode_to_string / decode_to_string_without_replacement".into());
    }
    if !fw::should_stop() {
        let fam = MemFamily {
            prop: "C05",
            fns: vec![MemFn::Utf16ToStrPartial, MemFn::Utf16ToStr, MemFn::Latin1ToStrPartial, MemFn::Latin1ToStr, MemFn::Utf16ToUtf8Partial, MemFn::Utf16ToUtf8, MemFn::Latin1ToUtf8Partial, MemFn::Latin1ToUtf8, MemFn::DecodeLatin1, MemFn::Utf8ToUtf16, MemFn::StrToUtf16, MemFn::EnsureUtf16Validity],
            fills_mode: false,
            max_len: ctx.tier.pick(48, 120),
            aligns: if ctx.tier == fw::Tier::Thorough { (0..8).map(|i| (i, (i * 5 + 1) & 15)).collect() } else { vec![(0, 0), (0, 1), (3, 2), (1, 3)] },
            random_per_fn: ctx.n(20_000, 500_000),
            max_tokens: ctx.tier.pick(12, 40),
        };
        st.merge(memfam::run_mem_family(ctx, &fam));
    }
    if !fw::should_stop() {
        st.merge(dech::run_dec_check(ctx, &dec_check(ctx)));
    }
    fw::finish(ctx, st, RULE, &["std::str::from_utf8 / char::decode_utf16 are correct", "for str destinations the 'fill' selects the filler text (NUL, 2-, 3-, 4-byte characters) and the alignment its phase"], t0.elapsed().as_secs_f64()).exit
}

pub fn replay(case: &serde_json::Value) -> Option<Vec<Violation>> {
    match case.get("kind").and_then(|k| k.as_str()) {
        Some("mem") => memfam::replay_mem(case, "C05", false),
        Some("dec_history") => dech::replay_with(case, &dech::verdict_c05),
        Some("c05_one_shot") => {
            let enc = encs::by_const(case.get("encoding")?.as_str()?)?;
            let bytes = fw::unhex(case.get("bytes_hex")?.as_str()?);
            let mut bad: Option<String> = None;
            let r = fw::catch(|| {
                let (a, _, _) = enc.decode(&bytes);
                let (b, _) = enc.decode_with_bom_removal(&bytes);
                let (c, _) = enc.decode_without_bom_handling(&bytes);
                let d = enc.decode_without_bom_handling_and_without_replacement(&bytes);
                let mut v = vec![a.into_owned().into_bytes(), b.into_owned().into_bytes(), c.into_owned().into_bytes()];
                if let Some(d) = d {
                    v.push(d.into_owned().into_bytes());
                }
                v
            });
            match r {
                Err(p) => bad = Some(format!("one-shot decode panicked: {}", p)),
                Ok(v) => {
                    for (i, b) in v.iter().enumerate() {
                        if std::str::from_utf8(b).is_err() {
                            bad = Some(format!("one-shot decode method #{} returned invalid UTF-8: {}", i, fw::hex(b)));
                        }
                    }
                }
            }
            for raw in [false, true] {
                let mut d = enc.new_decoder_without_bom_handling();
                let mut buf = vec![0u8; bytes.len() * 3 + 16];
                let r = fw::catch(|| if raw { d.decode_to_utf8_without_replacement(&bytes, &mut buf, true).2 } else { d.decode_to_utf8(&bytes, &mut buf, true).2 });
                if let Ok(w) = r {
                    if w > buf.len() || std::str::from_utf8(&buf[..w]).is_err() {
                        bad = Some(format!("decode_to_utf8{} reported {} bytes as written which are not valid UTF-8", if raw { "_without_replacement" } else { "" }, w));
                    }
                }
            }
            Some(match bad {
                None => vec![],
                Some(m) => vec![Violation { msg: format!("{} bytes {}: {}", enc.name(), fw::hex(&bytes), m), sig: "C05:one-shot".into(), case: case.clone() }],
            })
        }
        Some("c05_undersized_string") => {
            let enc = encs::by_const(case.get("encoding")?.as_str()?)?;
            let stream = fw::unhex(case.get("stream_hex")?.as_str()?);
            let cut = (case.get("cut")?.as_u64()? as usize).min(stream.len());
            Some(match undersized_string_case(enc, case.get("sniff")?.as_bool()?, case.get("raw")?.as_bool()?, &stream, cut, case.get("dst_len")?.as_u64()? as usize, case.get("small_chunks")?.as_u64()? as u8) {
                None => vec![],
                Some(msg) => vec![Violation { msg: format!("{}: {}", enc.name(), msg), sig: "C05:undersized-string".into(), case: case.clone() }],
            })
        }
        Some("c05_undersized") => {
            let enc = encs::by_const(case.get("encoding")?.as_str()?)?;
            let stream = fw::unhex(case.get("stream_hex")?.as_str()?);
            let sniff = case.get("sniff")?.as_bool()?;
            let raw = case.get("raw")?.as_bool()?;
            let cut = (case.get("cut")?.as_u64()? as usize).min(stream.len());
            let dlen = case.get("dst_len")?.as_u64()? as usize;
            let fill = case.get("fill")?.as_u64()? as u8;
            let small = case.get("small_chunks").and_then(|x| x.as_u64()).unwrap_or(3) as u8;
            Some(match undersized_case(enc, sniff, raw, &stream, cut, dlen, fill, small) {
                None => vec![],
                Some(msg) => vec![Violation { msg: format!("{}: {}", enc.name(), msg), sig: "C05:undersized-str".into(), case: case.clone() }],
            })
        }
        _ => None,
    }
}
