//! Shared sweep for validator / classifier functions (C14, C16).
use crate::fw::{self, par_run, Ctx, Stats, Violation};
use crate::memgen;
use crate::valchk::{VCase, VFn, VRunner};
use proptest::prelude::*;

pub struct ValFamily {
    pub fns: Vec<VFn>,
    pub max_len: usize,
    pub aligns: Vec<usize>,
    pub two_defects: bool,
    pub random_per_fn: u64,
    pub max_tokens: usize,
    pub force_scalar: bool,
    pub extra_units8: Vec<Vec<u8>>,
    pub extra_units16: Vec<Vec<u16>>,
}

fn violation(c: &VCase, msg: String) -> Violation {
    Violation { msg: format!("{} on src8 {} src16 [{}] at alignment {}{}: {}", c.f.name(), fw::hex(&c.src8), fw::hex16(&c.src16), c.align, if c.force_scalar { " (scalar UTF-8 validator forced)" } else { "" }, msg), sig: format!("val:{}", c.f.name()), case: c.to_json() }
}

fn shrink(c: &VCase) -> VCase {
    fw::shrink_greedy(
        c.clone(),
        |x: &VCase| {
            let mut v = Vec::new();
            let n = if x.f.is_u16() { x.src16.len() } else { x.src8.len() };
            let mut spans: Vec<(usize, usize)> = Vec::new();
            if n > 4 {
                spans.push((0, n / 2));
                spans.push((n / 2, n));
            }
            for i in 0..n {
                spans.push((i, i + 1));
            }
            for (a, b) in spans {
                let mut y = x.clone();
                if x.f.is_u16() {
                    y.src16.drain(a..b);
                } else {
                    y.src8.drain(a..b);
                }
                y.sanitise();
                v.push(y);
            }
            if x.align != 0 {
                let mut y = x.clone();
                y.align = 0;
                v.push(y);
            }
            v
        },
        |x: &VCase| VRunner::new().judge(x).is_some(),
    )
}

pub fn long_lengths() -> Vec<usize> {
    let mut v = vec![100usize, 200, 300, 1000, 3000];
    for k in [7u32, 8, 9, 10, 11, 12, 16] {
        for d in 0..5usize {
            v.push((1usize << k) + d - 2);
        }
    }
    v
}

pub fn long_positions(len: usize) -> Vec<usize> {
    let mut p = vec![0usize, 1, 15, 16, 17, len / 2, len / 2 + 1];
    for d in [65usize, 64, 33, 32, 17, 16, 15, 4, 3, 2, 1] {
        if len >= d {
            p.push(len - d);
        }
    }
    p.retain(|x| *x < len);
    p.sort();
    p.dedup();
    p
}

pub fn run_val_family(ctx: &Ctx, fam: &ValFamily) -> Stats {
    let mut total = Stats::new();
    const LANES: usize = 8;
    let nf = fam.fns.len();
    let st = par_run(ctx, nf * LANES, |part, st| {
        let f = fam.fns[part / LANES];
        let lane = part % LANES;
        let mut rn = VRunner::new();
        let mut units8: Vec<Vec<u8>> = memgen::PLANT8.iter().map(|u| u.to_vec()).collect();
        units8.extend(fam.extra_units8.iter().cloned());
        units8.push(vec![0x1B]);
        units8.push(vec![0x0E]);
        units8.push(vec![0x0F]);
        let mut units16: Vec<Vec<u16>> = memgen::PLANT16.iter().map(|u| u.to_vec()).collect();
        units16.extend(fam.extra_units16.iter().cloned());
        let ncls = if f.is_u16() { units16.len() } else { units8.len() };
        for len in 0..=fam.max_len {
            if len % LANES != lane {
                continue;
            }
            if fw::should_stop() {
                return;
            }
            let fillers: &[usize] = if len % 2 == 0 { &[0, 1, 2, 3, 4] } else { &[0, 5] };
            for &fk in fillers {
                for cls in 0..=ncls {
                    let positions: Vec<usize> = if cls == ncls { vec![0] } else { (0..len.max(1)).collect() };
                    for pos in positions {
                        // a second planted unit: at a pseudo-random position, and at stride-relevant
                        // distances (same stride, exactly 16 / 32 / 64 after the first)
                        let second: Vec<Option<(usize, usize)>> = if fam.two_defects && cls < ncls && len >= 2 {
                            let c2 = (cls * 7 + pos) % ncls;
                            let mut v = vec![None, Some((c2, (pos * 5 + 3) % len))];
                            if fk == 0 || fk >= 4 {
                                for d in [1usize, 3, 4, 5, 16, 32, 64] {
                                    if pos + d < len && (pos + d) % 3 == cls % 3 {
                                        v.push(Some((c2, pos + d)));
                                    }
                                }
                            }
                            v
                        } else {
                            vec![None]
                        };
                        for sec in second {
                            let (mut s8, mut s16) = (vec![], vec![]);
                            if f.is_u16() {
                                s16 = if cls == ncls { memgen::filler16(fk, len) } else { memgen::plant16(fk, len, pos, &units16[cls]) };
                                if let Some((c2, p2)) = sec {
                                    for (i, u) in units16[c2].iter().enumerate() {
                                        if p2 + i < len {
                                            s16[p2 + i] = *u;
                                        }
                                    }
                                }
                            } else {
                                s8 = if cls == ncls { memgen::filler8(fk, len) } else { memgen::plant8(fk, len, pos, &units8[cls]) };
                                if let Some((c2, p2)) = sec {
                                    for (i, u) in units8[c2].iter().enumerate() {
                                        if p2 + i < len {
                                            s8[p2 + i] = *u;
                                        }
                                    }
                                }
                            }
                            for &al in &fam.aligns {
                                let mut c = VCase { f, src8: s8.clone(), src16: s16.clone(), align: al, force_scalar: fam.force_scalar };
                                c.sanitise();
                                st.evals += 1;
                                if (cls < ncls && pos > 0) || len >= 16 {
                                    st.nontrivial_distinct();
                                }
                                if len < 4 {
                                    st.class("length-below-4-(tail-loop)");
                                } else if len < 16 {
                                    st.class("length-4..15");
                                } else if len < 64 {
                                    st.class("length-16..63-(stride-loops)");
                                } else {
                                    st.class("length-64-and-up-(SIMD-validator-threshold)");
                                }
                                if let Some(m) = rn.judge(&c) {
                                    let min = shrink(&c);
                                    let m2 = rn.judge(&min).unwrap_or(m);
                                    st.violations.push(violation(&min, m2));
                                    return;
                                }
                                if len == 70 && pos == 66 {
                                    st.sample(1, || c.to_json());
                                }
                            }
                        }
                    }
                }
            }
        }
    });
    total.merge(st);
    total.exhaustive.push(format!("per function: lengths 0..={} x alignments {:?} x fillers (ASCII, 2-, 3-, 4-byte / Latin1, BMP units) x every planted unit class at every position{}{}", fam.max_len, fam.aligns, if fam.two_defects { " (+ a second planted defect)" } else { "" }, if fam.force_scalar { " [scalar UTF-8 validator forced through the hook]" } else { "" }));
    if fw::should_stop() {
        return total;
    }
    // ---- long buffers: lengths around powers of two up to 2^16, planted unit near both ends and
    // in the middle (loop counters, unrolled strides, tail handling far from the start)
    let long_lens = long_lengths();
    let st = par_run(ctx, nf * LANES, |part, st| {
        let f = fam.fns[part / LANES];
        let lane = part % LANES;
        let mut rn = VRunner::new();
        let mut units8: Vec<Vec<u8>> = memgen::PLANT8.iter().map(|u| u.to_vec()).collect();
        units8.extend(fam.extra_units8.iter().cloned());
        units8.push(vec![0x1B]);
        let mut units16: Vec<Vec<u16>> = memgen::PLANT16.iter().map(|u| u.to_vec()).collect();
        units16.extend(fam.extra_units16.iter().cloned());
        let ncls = if f.is_u16() { units16.len() } else { units8.len() };
        for (li, &len) in long_lens.iter().enumerate() {
            if li % LANES != lane {
                continue;
            }
            if fw::should_stop() {
                return;
            }
            let fk = if li % 5 == 4 { 1 + li % 3 } else { [0usize, 4, 5][li % 3] };
            for cls in 0..=ncls {
                let positions: Vec<usize> = if cls == ncls { vec![0] } else { long_positions(len) };
                for pos in positions {
                    let (mut s8, mut s16) = (vec![], vec![]);
                    if f.is_u16() {
                        s16 = if cls == ncls { memgen::filler16(fk, len) } else { memgen::plant16(fk, len, pos, &units16[cls]) };
                    } else {
                        s8 = if cls == ncls { memgen::filler8(fk, len) } else { memgen::plant8(fk, len, pos, &units8[cls]) };
                    }
                    let mut c = VCase { f, src8: s8, src16: s16, align: fam.aligns[(pos + li) % fam.aligns.len()], force_scalar: fam.force_scalar };
                    c.sanitise();
                    st.evals += 1;
                    st.nontrivial_distinct();
                    st.class("long-buffer-(length-around-a-power-of-two-up-to-65536)");
                    if let Some(m) = rn.judge(&c) {
                        let min = shrink(&c);
                        let m2 = rn.judge(&min).unwrap_or(m);
                        st.violations.push(violation(&min, m2));
                        return;
                    }
                }
            }
        }
    });
    total.merge(st);
    total.exhaustive.push("per function: lengths 2^k-2..=2^k+2 (k = 7..=12, 16) and 100/200/300/1000/3000 x every planted unit class at positions {0, 1, 15..17, middle, 65/64/33/17/16/15/4/3/2/1 from the end}".into());
    if fw::should_stop() {
        return total;
    }
    // ---- adjacent pairs: (valid character, near-valid sequence) in both orders for the byte
    // functions; two boundary code units at stride-relevant distances for the UTF-16 functions
    let thorough = ctx.tier == fw::Tier::Thorough;
    let near = memgen::utf8_near_valid(thorough);
    let reps = memgen::utf8_valid_reps();
    let layouts16 = memgen::pair_layouts16();
    let st = par_run(ctx, nf * LANES, |part, st| {
        let f = fam.fns[part / LANES];
        let lane = part % LANES;
        let mut rn = VRunner::new();
        let mut k = 0usize;
        let mut run = |c: VCase, st: &mut Stats| -> bool {
            st.evals += 1;
            st.nontrivial_distinct();
            if let Some(m) = rn.judge(&c) {
                let min = shrink(&c);
                let m2 = rn.judge(&min).unwrap_or(m);
                st.violations.push(violation(&min, m2));
                return false;
            }
            true
        };
        if f.is_u16() {
            let mut tk = 0usize;
            let ok = memgen::after_pair_triples16(|v| {
                tk += 1;
                if tk % LANES != lane {
                    return true;
                }
                k += 1;
                let c = VCase { f, src8: vec![], src16: v.to_vec(), align: fam.aligns[k % fam.aligns.len()], force_scalar: fam.force_scalar };
                st.class("three-units-after-a-surrogate-pair");
                run(c, st)
            });
            if !ok {
                return;
            }
            for (ai, &a) in memgen::UNIT_EDGES16.iter().enumerate() {
                if ai % LANES != lane {
                    continue;
                }
                for &b in memgen::UNIT_EDGES16.iter() {
                    for &(p, d, t) in &layouts16 {
                        k += 1;
                        let c = VCase { f, src8: vec![], src16: memgen::embed_pair16(a, b, p, d, t), align: fam.aligns[k % fam.aligns.len()], force_scalar: fam.force_scalar };
                        st.class("two-boundary-units-at-stride-relevant-distance");
                        if !run(c, st) {
                            return;
                        }
                    }
                }
                if fw::should_stop() {
                    return;
                }
            }
        } else {
            // table sweep: every (lead, second) pair, every three-byte string, four-byte leads
            let mut src = Vec::with_capacity(64);
            let ok = memgen::utf8_table_sweep(lane, LANES, |s| {
                for (pre, tail) in [(0usize, 1usize), (15, 17)] {
                    k += 1;
                    src.clear();
                    src.extend((0..pre).map(|i| b'a' + (i % 26) as u8));
                    src.extend_from_slice(s);
                    src.extend((0..tail).map(|i| b'A' + (i % 26) as u8));
                    let mut c = VCase { f, src8: src.clone(), src16: vec![], align: fam.aligns[k % fam.aligns.len()], force_scalar: fam.force_scalar };
                    c.sanitise();
                    st.class("utf8-table-sweep");
                    if !run(c, st) {
                        return false;
                    }
                }
                !(k % 4096 == 0 && fw::should_stop())
            });
            if !ok {
                return;
            }
            // runs of three same-length sequences ending in a near-valid one
            let mut tk = 0usize;
            let ok = memgen::utf8_run_triples(|a1, a2, s| {
                tk += 1;
                if tk % LANES != lane {
                    return true;
                }
                for (pre, tail) in [(0usize, 1usize), (13, 0), (2, 17)] {
                    k += 1;
                    let mut src8: Vec<u8> = (0..pre).map(|i| b'a' + i as u8).collect();
                    src8.extend_from_slice(a1);
                    src8.extend_from_slice(a2);
                    src8.extend_from_slice(s);
                    src8.extend((0..tail).map(|i| b'A' + i as u8));
                    let mut c = VCase { f, src8, src16: vec![], align: fam.aligns[k % fam.aligns.len()], force_scalar: fam.force_scalar };
                    c.sanitise();
                    st.class("run-of-three-same-length-sequences-ending-near-valid");
                    if !run(c, st) {
                        return false;
                    }
                }
                !(tk % 4096 == 0 && fw::should_stop())
            });
            if !ok {
                return;
            }
            for (ni, s) in near.iter().enumerate() {
                if ni % LANES != lane {
                    continue;
                }
                if fw::should_stop() {
                    return;
                }
                for a in &reps {
                    for &(pre, tail) in &memgen::PAIR_EMBED {
                        for order in 0..2 {
                            k += 1;
                            let src8 = if order == 0 { memgen::embed_pair8(a, s, pre, tail) } else { memgen::embed_pair8(s, a, pre, tail) };
                            let mut c = VCase { f, src8, src16: vec![], align: fam.aligns[k % fam.aligns.len()], force_scalar: fam.force_scalar };
                            c.sanitise();
                            st.class("valid-character-adjacent-to-near-valid-sequence");
                            if !run(c, st) {
                                return;
                            }
                        }
                    }
                }
            }
        }
    });
    total.merge(st);
    total.exhaustive.push("byte functions: every (lead, second byte) pair, every three-byte string with lead E0..EF, every F0..F7 x second x third x {80,BF,41}, F0..F4 x boundary seconds x {80,BF} x every fourth byte - each alone and behind 15 ASCII bytes".into());
    total.exhaustive.push(format!("byte functions: {} valid characters (corners of every lead class's trail ranges) x {} near-valid sequences (every lead class x boundary trail bytes) x both orders x {} ASCII embeddings; UTF-16 functions: all pairs of {} boundary code units x {} (position, distance, tail) layouts", reps.len(), near.len(), memgen::PAIR_EMBED.len(), memgen::UNIT_EDGES16.len(), layouts16.len()));
    if fw::should_stop() {
        return total;
    }
    let st = par_run(ctx, nf * 2, |part, st| {
        let f = fam.fns[part / 2];
        let strat = (proptest::collection::vec((any::<u8>(), any::<u32>(), any::<u8>()), 0..=fam.max_tokens), any::<u8>()).prop_map(move |(toks, al)| {
            // one case in 16 is long: the token list repeated 4..=35 times with varied parameters
            let toks: Vec<(u8, u32, u8)> = if (al >> 4) == 3 && !toks.is_empty() {
                let reps = 4 + (toks[0].1 >> 27) as usize;
                (0..reps).flat_map(|i| toks.iter().map(move |&(k, a, c)| (k, a.wrapping_add((i as u32).wrapping_mul(0x9E37_79B9)), c))).collect()
            } else {
                toks
            };
            let (mut s8, mut s16) = (vec![], vec![]);
            for (k, a, c) in &toks {
                if f.is_u16() {
                    memgen::tok16(*k, *a, *c, &mut s16);
                } else {
                    memgen::tok8(*k, *a, *c, &mut s8);
                }
            }
            let mut c = VCase { f, src8: s8, src16: s16, align: (al & 15) as usize, force_scalar: fam.force_scalar };
            c.sanitise();
            c
        });
        let rn = std::cell::RefCell::new(VRunner::new());
        fw::run_random(ctx, 7000 + part as u64 + if fam.force_scalar { 500 } else { 0 }, (fam.random_per_fn / 2).max(1), &strat, st, |c, st| {
            st.class("random-case");
            let n = if c.f.is_u16() { c.src16.len() } else { c.src8.len() };
            if n >= 64 {
                st.class("random-case-64-units-and-up");
            }
            if n >= 16 {
                st.nontrivial_hash(fw::mix(fw::fnv(&c.src8), c.src16.iter().fold(c.f as u64, |h, u| fw::mix(h, *u as u64))));
            }
            st.sample(1, || c.to_json());
            match rn.borrow_mut().judge(c) {
                None => vec![],
                Some(m) => vec![violation(c, m)],
            }
        });
        if let Some(v) = st.violations.pop() {
            match VCase::from_json(&v.case) {
                Some(c) => {
                    let min = shrink(&c);
                    match rn.borrow_mut().judge(&min) {
                        Some(m) => st.violations.push(violation(&min, m)),
                        None => st.violations.push(v),
                    }
                }
                None => st.violations.push(v),
            }
        }
    });
    total.merge(st);
    total
}

pub fn replay_val(case: &serde_json::Value) -> Option<Vec<Violation>> {
    let c = VCase::from_json(case)?;
    encoding_rs::verif_hooks::set_force_scalar_utf8(c.force_scalar);
    let r = VRunner::new().judge(&c);
    encoding_rs::verif_hooks::set_force_scalar_utf8(false);
    Some(match r {
        None => vec![],
        Some(m) => vec![violation(&c, m)],
    })
}
