//! C03 - encoding conforms to the Encoding Standard for every scalar-value sequence.
//! Oracle: the reference encoders of model_enc.rs on frozen WHATWG index data.

use crate::drive_enc::{is_sur, EncDriver, EncHistory, Src};
use crate::encs;
use crate::fw::{self, hex, hex32, par_run, Ctx, Stats, Violation};
use crate::hist_enc;
use crate::model_enc::{self, enc_algo_for, EncAlgo};
use encoding_rs::*;
use serde_json::{json, Value};
use std::time::Instant;

pub const RULE: &str = "case = (encoding, text, source form UTF-8/UTF-16, replacement on/off) encoded in one call with an ample buffer and last=true, compared with the reference encoder of the Encoding Standard on frozen index data: bytes, the sequence of Unmappable(char) reports with their character positions (U+FFFD for ISO-2022-JP's forbidden controls and unpaired surrogates), NCR bytes and had_unmappables in replacement mode, Encoder::encoding() == output encoding. Every scalar value alone through every encoding (exhaustive), every ordered pair (and triple for ISO-2022-JP / thorough) over the per-encoder class alphabet incl. lone surrogates, and seeded random texts. Non-trivial = text contains a scalar >= U+0080 or one of the state-relevant ASCII code points 0E/0F/1B/5C/7E; distinct = distinct (encoding, text, source form, mode).";

fn case_json(enc: &'static Encoding, src: Src, repl: bool, text: &[u32]) -> Value {
    json!({"kind": "c03", "encoding": encs::const_name(enc), "source": if src == Src::Utf8 { "utf8" } else { "utf16" }, "replacement": repl, "text_code_points_hex": hex32(text)})
}

fn nontrivial_text(t: &[u32]) -> bool {
    t.iter().any(|c| *c >= 0x80 || matches!(*c, 0x0E | 0x0F | 0x1B | 0x5C | 0x7E))
}

/// compare one single-call run with the model; returns a description of the first difference
pub fn check_text(enc: &'static Encoding, algo: EncAlgo, src: Src, repl: bool, text: &[u32], drv: &mut EncDriver) -> Option<String> {
    let h = EncHistory::simple(enc, src, repl, text);
    let logical = h.logical();
    let want = model_enc::encode(algo, &logical, repl);
    let out = drv.run(&h);
    if let Some(f) = out.faults.first() {
        return Some(format!("call #{}: {}", f.call_index, f.msg));
    }
    if !out.completed {
        return Some("stream did not complete".into());
    }
    // in raw mode the driver appended the NCRs itself (the documented manual procedure), so
    // compare with the model's replacement-mode bytes in both modes
    let want_bytes = if repl { want.bytes.clone() } else { model_enc::encode(algo, &logical, true).bytes };
    if out.out != want_bytes {
        return Some(format!("bytes differ: crate {} Standard {}", hex(&out.out), hex(&want_bytes)));
    }
    if !repl && out.unmappables != want.unmappables {
        return Some(format!("Unmappable reports differ: crate {:X?} Standard {:X?}", out.unmappables, want.unmappables));
    }
    if out.had_unmappables != !want.unmappables.is_empty() {
        return Some(format!("had_unmappables = {} but the Standard's encoder reports {} unmappable(s)", out.had_unmappables, want.unmappables.len()));
    }
    // the same text through an output buffer shorter than the output (re-pushing after every
    // OutputFull): the bytes must still be the Standard's
    if text.len() >= 6 {
        let mut h2 = EncHistory::simple(enc, src, repl, text);
        let n = text.len();
        h2.caps = vec![h2.min_cap() + (n * 7 + text[n / 2] as usize) % 41];
        let out2 = drv.run(&h2);
        if let Some(f) = out2.faults.first() {
            return Some(format!("[through a {}-byte output buffer] call #{}: {}", h2.caps[0], f.call_index, f.msg));
        }
        if !out2.completed {
            return Some(format!("[through a {}-byte output buffer] stream did not complete", h2.caps[0]));
        }
        if out2.out != want_bytes {
            return Some(format!("[through a {}-byte output buffer] bytes differ: crate {} Standard {}", h2.caps[0], hex(&out2.out), hex(&want_bytes)));
        }
    }
    if src == Src::Utf8 && repl {
        if let Some(m) = one_shot_vs_model(enc, algo, text) {
            return Some(m);
        }
    }
    let oe = out.encoder_encoding.map(|e| e.name());
    if oe != Some(model_enc::output_encoding_name(enc)) || Some(enc.output_encoding().name()) != oe {
        return Some(format!("Encoder::encoding() is {:?}, output_encoding() is {}, the Standard's output encoding is {}", oe, enc.output_encoding().name(), model_enc::output_encoding_name(enc)));
    }
    None
}

/// lean path for the single-scalar sweep: direct API calls with stack buffers
fn check_single(enc: &'static Encoding, algo: EncAlgo, cp: u32) -> Option<(Src, bool, String)> {
    let c = char::from_u32(cp).unwrap();
    let mut s8 = [0u8; 4];
    let s8 = c.encode_utf8(&mut s8);
    let mut s16 = [0u16; 2];
    let s16 = c.encode_utf16(&mut s16);
    let want_raw = model_enc::encode(algo, &[cp], false);
    let want_repl = if want_raw.unmappables.is_empty() { want_raw.clone() } else { model_enc::encode(algo, &[cp], true) };
    for src in [Src::Utf8, Src::Utf16] {
        for repl in [false, true] {
            let mut e = enc.new_encoder();
            let mut dst = [0xA5u8; 48];
            let mut out: Vec<u8> = Vec::with_capacity(24);
            let mut unm: Vec<(usize, u32)> = Vec::new();
            let mut had = false;
            let mut off = 0usize;
            let total = if src == Src::Utf8 { s8.len() } else { s16.len() };
            let mut guard = 0;
            loop {
                guard += 1;
                if guard > 8 {
                    return Some((src, repl, "caller loop did not terminate".into()));
                }
                let (res, rd, wr) = if repl {
                    let (r, rd, wr, f) = match src {
                        Src::Utf8 => e.encode_from_utf8(&s8[off..], &mut dst, true),
                        Src::Utf16 => e.encode_from_utf16(&s16[off..], &mut dst, true),
                    };
                    had |= f;
                    (
                        match r {
                            CoderResult::InputEmpty => EncoderResult::InputEmpty,
                            CoderResult::OutputFull => EncoderResult::OutputFull,
                        },
                        rd,
                        wr,
                    )
                } else {
                    match src {
                        Src::Utf8 => e.encode_from_utf8_without_replacement(&s8[off..], &mut dst, true),
                        Src::Utf16 => e.encode_from_utf16_without_replacement(&s16[off..], &mut dst, true),
                    }
                };
                if rd > total - off || wr > dst.len() {
                    return Some((src, repl, format!("read {} / written {} out of range", rd, wr)));
                }
                off += rd;
                out.extend_from_slice(&dst[..wr]);
                match res {
                    EncoderResult::InputEmpty => break,
                    EncoderResult::OutputFull => return Some((src, repl, "OutputFull with a 48-byte buffer".into())),
                    EncoderResult::Unmappable(u) => {
                        had = true;
                        unm.push((0, u as u32));
                    }
                }
            }
            if repl {
                if out != want_repl.bytes {
                    return Some((src, repl, format!("bytes differ: crate {} Standard {}", hex(&out), hex(&want_repl.bytes))));
                }
                if had != !want_raw.unmappables.is_empty() {
                    return Some((src, repl, format!("had_unmappables = {}, Standard: {} unmappable(s)", had, want_raw.unmappables.len())));
                }
            } else {
                if out != want_raw.bytes {
                    return Some((src, repl, format!("bytes differ: crate {} Standard {}", hex(&out), hex(&want_raw.bytes))));
                }
                if unm != want_raw.unmappables {
                    return Some((src, repl, format!("Unmappable reports differ: crate {:X?} Standard {:X?}", unm, want_raw.unmappables)));
                }
            }
        }
    }
    None
}

/// the one-shot `Encoding::encode` is an encoder route too: same bytes, same had-unmappables answer
fn one_shot_vs_model(enc: &'static Encoding, algo: EncAlgo, text: &[u32]) -> Option<String> {
    if text.iter().any(|c| is_sur(*c)) {
        return None;
    }
    let s: String = text.iter().map(|c| char::from_u32(*c).unwrap()).collect();
    let want = model_enc::encode(algo, text, true);
    let r = fw::catch(|| {
        let (b, _, h) = enc.encode(&s);
        (b.into_owned(), h)
    });
    match r {
        Err(p) => Some(format!("[one-shot Encoding::encode] panicked: {}", p)),
        Ok((b, h)) => {
            if b != want.bytes {
                let pos = b.iter().zip(want.bytes.iter()).position(|(x, y)| x != y).unwrap_or(b.len().min(want.bytes.len()));
                Some(format!("[one-shot Encoding::encode] bytes differ at offset {}: crate ...{} Standard ...{}", pos, hex(&b[pos.saturating_sub(4)..(pos + 12).min(b.len())]), hex(&want.bytes[pos.saturating_sub(4)..(pos + 12).min(want.bytes.len())])))
            } else if h != !want.unmappables.is_empty() {
                Some(format!("[one-shot Encoding::encode] had_unmappables = {} but the Standard's encoder reports {} unmappable(s)", h, want.unmappables.len()))
            } else {
                None
            }
        }
    }
}

/// lean path for short surrogate-free texts: direct API calls, slice and Vec methods, the end of
/// the stream signalled on the data call or on a separate empty call (the documented way to
/// finish a stream whose last chunk was already pushed)
fn check_lean(enc: &'static Encoding, algo: EncAlgo, text: &[u32], final_empty: bool) -> Option<(Src, bool, String)> {
    let st: String = text.iter().map(|c| char::from_u32(*c).unwrap()).collect();
    let s8 = st.as_str();
    let s16v: Vec<u16> = st.encode_utf16().collect();
    let s16 = &s16v[..];
    let want_raw = model_enc::encode(algo, text, false);
    let want_repl = if want_raw.unmappables.is_empty() { want_raw.clone() } else { model_enc::encode(algo, text, true) };
    for src in [Src::Utf8, Src::Utf16] {
        for repl in [false, true] {
            for vec_route in [false, true] {
                if vec_route && src == Src::Utf16 {
                    // there are no Vec-receiving methods for UTF-16 sources
                    continue;
                }
                let mut e = enc.new_encoder();
                let mut dst = [0xA5u8; 160];
                let mut out: Vec<u8> = Vec::with_capacity(64);
                let mut unm: Vec<(usize, u32)> = Vec::new();
                let mut had = false;
                let mut off = 0usize;
                let total = if src == Src::Utf8 { s8.len() } else { s16.len() };
                let mut guard = 0;
                let mut finishing = !final_empty;
                let route = |m: String| Some((src, repl, format!("[{}{}] {}", if vec_route { "Vec methods" } else { "slice methods" }, if final_empty { ", end of stream on an empty call" } else { "" }, m)));
                loop {
                    guard += 1;
                    if guard > 4 * text.len() + 8 {
                        return route("caller loop did not terminate".into());
                    }
                    let last = finishing;
                    let (res, rd, wr) = if vec_route {
                        let mut v: Vec<u8> = Vec::with_capacity(160);
                        v.extend_from_slice(b"keep");
                        let (res, rd) = if repl {
                            let (r, rd, f) = e.encode_from_utf8_to_vec(&s8[off..], &mut v, last);
                            had |= f;
                            (
                                match r {
                                    CoderResult::InputEmpty => EncoderResult::InputEmpty,
                                    CoderResult::OutputFull => EncoderResult::OutputFull,
                                },
                                rd,
                            )
                        } else {
                            e.encode_from_utf8_to_vec_without_replacement(&s8[off..], &mut v, last)
                        };
                        if !v.starts_with(b"keep") {
                            return route("the Vec's existing contents were altered".into());
                        }
                        let wr = v.len() - 4;
                        dst[..wr].copy_from_slice(&v[4..]);
                        (res, rd, wr)
                    } else if repl {
                        let (r, rd, wr, f) = match src {
                            Src::Utf8 => e.encode_from_utf8(&s8[off..], &mut dst, last),
                            Src::Utf16 => e.encode_from_utf16(&s16[off..], &mut dst, last),
                        };
                        had |= f;
                        (
                            match r {
                                CoderResult::InputEmpty => EncoderResult::InputEmpty,
                                CoderResult::OutputFull => EncoderResult::OutputFull,
                            },
                            rd,
                            wr,
                        )
                    } else {
                        match src {
                            Src::Utf8 => e.encode_from_utf8_without_replacement(&s8[off..], &mut dst, last),
                            Src::Utf16 => e.encode_from_utf16_without_replacement(&s16[off..], &mut dst, last),
                        }
                    };
                    if rd > total - off || wr > dst.len() {
                        return route(format!("read {} / written {} out of range", rd, wr));
                    }
                    off += rd;
                    out.extend_from_slice(&dst[..wr]);
                    match res {
                        EncoderResult::InputEmpty => {
                            if off != total {
                                return route(format!("InputEmpty with {} of {} units read", off, total));
                            }
                            if finishing {
                                break;
                            }
                            finishing = true;
                        }
                        EncoderResult::OutputFull => return route("OutputFull with a 160-byte buffer".into()),
                        EncoderResult::Unmappable(u) => {
                            had = true;
                            // index of the character just consumed
                            let idx = if src == Src::Utf8 { s8[..off].chars().count() } else { char::decode_utf16(s16[..off].iter().cloned()).count() } - 1;
                            unm.push((idx, u as u32));
                        }
                    }
                }
                if repl {
                    if out != want_repl.bytes {
                        return route(format!("bytes differ: crate {} Standard {}", hex(&out), hex(&want_repl.bytes)));
                    }
                    if had != !want_raw.unmappables.is_empty() {
                        return route(format!("had_unmappables = {}, Standard: {} unmappable(s)", had, want_raw.unmappables.len()));
                    }
                } else {
                    if out != want_raw.bytes {
                        return route(format!("bytes differ: crate {} Standard {}", hex(&out), hex(&want_raw.bytes)));
                    }
                    if unm != want_raw.unmappables {
                        return route(format!("Unmappable reports differ: crate {:X?} Standard {:X?}", unm, want_raw.unmappables));
                    }
                }
            }
        }
    }
    None
}

fn violation(enc: &'static Encoding, src: Src, repl: bool, text: &[u32], msg: String) -> Violation {
    Violation { msg: format!("{} from {} {} text [{}]: {}", enc.name(), if src == Src::Utf8 { "UTF-8" } else { "UTF-16" }, if repl { "with replacement" } else { "without replacement" }, hex32(text), msg), sig: format!("C03:{}", enc.name()), case: case_json(enc, src, repl, text) }
}

fn shrink_text(enc: &'static Encoding, algo: EncAlgo, src: Src, repl: bool, text: &[u32]) -> Vec<u32> {
    fw::shrink_greedy(
        text.to_vec(),
        |t: &Vec<u32>| {
            let mut c = Vec::new();
            for i in 0..t.len() {
                let mut x = t.clone();
                x.remove(i);
                c.push(x);
            }
            for i in 0..t.len() {
                if t[i] != 0x61 {
                    let mut x = t.clone();
                    x[i] = 0x61;
                    c.push(x);
                }
            }
            c
        },
        |t: &Vec<u32>| {
            let mut d = EncDriver::new();
            check_text(enc, algo, src, repl, t, &mut d).is_some()
        },
    )
}

pub fn replay(case: &Value) -> Option<Vec<Violation>> {
    let enc = encs::by_const(case.get("encoding")?.as_str()?)?;
    let src = if case.get("source")?.as_str()? == "utf8" { Src::Utf8 } else { Src::Utf16 };
    let repl = case.get("replacement")?.as_bool()?;
    let text = fw::unhex32(case.get("text_code_points_hex")?.as_str()?);
    let mut drv = EncDriver::new();
    Some(match check_text(enc, enc_algo_for(enc), src, repl, &text, &mut drv) {
        None => vec![],
        Some(m) => vec![violation(enc, src, repl, &text, m)],
    })
}

pub fn run(ctx: &Ctx) -> i32 {
    let t0 = Instant::now();
    let all = encs::all();
    let mut total = Stats::new();
    // (a) every scalar value alone through every encoding: part = (encoding, 4096-scalar block)
    const BLOCKS: usize = 0x110000 / 0x1000;
    let st = par_run(ctx, all.len() * 16, |part, st| {
        let enc = all[part / 16];
        let algo = enc_algo_for(enc);
        let lane = part % 16;
        for block in (lane..BLOCKS).step_by(16) {
            if fw::should_stop() {
                return;
            }
            for cp in (block as u32 * 0x1000)..((block as u32 + 1) * 0x1000) {
                if is_sur(cp) {
                    continue;
                }
                st.evals += 4;
                if cp >= 0x80 || matches!(cp, 0x0E | 0x0F | 0x1B | 0x5C | 0x7E) {
                    st.nontrivial_enum += 4;
                }
                if let Some((src, repl, msg)) = check_single(enc, algo, cp) {
                    st.violations.push(violation(enc, src, repl, &[cp], msg));
                    return;
                }
            }
        }
        st.sample(1, || json!({"encoding": enc.name(), "text": "every scalar value alone", "sources": ["utf8", "utf16"], "modes": ["raw", "replacement"]}));
    });
    total.merge(st);
    total.exhaustive.push("every scalar value alone x 40 encodings x UTF-8/UTF-16 source x raw/replacement".into());

    // (b) pairs / triples over the class alphabets via the driver
    if !fw::should_stop() {
        let e = super::ench::encoder_encodings();
        let thorough = ctx.tier == fw::Tier::Thorough;
        let st = par_run(ctx, e.len() * 8, |part, st| {
            let enc = e[part / 8];
            let lane = part % 8;
            let algo = enc_algo_for(enc);
            let mut alpha = hist_enc::alphabet(enc);
            alpha.extend_from_slice(&[0xD800, 0xDBFF, 0xDC00]);
            let mut drv = EncDriver::new();
            let triples = thorough || algo == EncAlgo::Iso2022Jp;
            let mut idx = 0usize;
            let mut run_text = |text: &[u32], st: &mut Stats, drv: &mut EncDriver| -> bool {
                let has_sur = text.iter().any(|c| is_sur(*c));
                for src in [Src::Utf8, Src::Utf16] {
                    if has_sur && src == Src::Utf8 {
                        continue;
                    }
                    for repl in [false, true] {
                        st.evals += 1;
                        if nontrivial_text(text) {
                            st.nontrivial_distinct();
                        }
                        if has_sur {
                            st.class("utf16-text-with-unpaired-surrogate");
                        }
                        if let Some(msg) = check_text(enc, algo, src, repl, text, drv) {
                            st.violations.push(violation(enc, src, repl, text, msg));
                            return false;
                        }
                    }
                }
                true
            };
            for &a in &alpha {
                for &b in &alpha {
                    idx += 1;
                    if idx % 8 != lane {
                        continue;
                    }
                    if fw::should_stop() {
                        return;
                    }
                    st.class("pair");
                    if !run_text(&[a, b], st, &mut drv) {
                        return;
                    }
                    if triples {
                        for &c in &alpha {
                            st.class("triple");
                            if !run_text(&[a, b, c], st, &mut drv) {
                                return;
                            }
                        }
                    }
                }
            }
            st.sample(1, || json!({"encoding": enc.name(), "alphabet_hex": hex32(&alpha), "texts": if triples { "all ordered pairs and triples" } else { "all ordered pairs" }}));
        });
        total.merge(st);
        total.exhaustive.push("all ordered pairs over each encoder's class alphabet incl. lone surrogates (triples for ISO-2022-JP; for all encoders in thorough)".into());
    }

    // (a2) every BMP scalar (and a sample of every astral plane) next to each state-setting context:
    // [context, c] and [c, context] for contexts = a two-byte character / a katakana / a Roman-state
    // character (ISO-2022-JP), an ASCII letter, an unmappable character; slice and Vec methods
    if !fw::should_stop() {
        let e = super::ench::encoder_encodings();
        const CL: usize = 16;
        let st = par_run(ctx, e.len() * CL, |part, st| {
            let enc = e[part / CL];
            let lane = part % CL;
            let algo = enc_algo_for(enc);
            let alpha: Vec<u32> = hist_enc::alphabet(enc);
            let mut ctxs: Vec<u32> = vec![0x61];
            if algo == EncAlgo::Iso2022Jp {
                ctxs.extend_from_slice(&[0x3042, 0xFF71, 0xA5, 0x2212, 0x80]);
            } else {
                if let Some(m) = alpha.iter().find(|c| **c >= 0x80 && !is_sur(**c) && model_enc::mappable(algo, **c)) {
                    ctxs.push(*m);
                }
                if let Some(u) = [0x80u32, 0xFFFF, 0x10FFFF, 0x3094].iter().find(|c| !model_enc::mappable(algo, **c)) {
                    ctxs.push(*u);
                }
            }
            let mut n = 0u64;
            let mut scan = |c: u32, st: &mut Stats| -> bool {
                for &x in &ctxs {
                    for order in 0..2 {
                        let text = if order == 0 { [x, c] } else { [c, x] };
                        n += 1;
                        if let Some((src, repl, msg)) = check_lean(enc, algo, &text, (c + order) % 2 == 1) {
                            st.violations.push(violation(enc, src, repl, &text, msg));
                            return false;
                        }
                    }
                }
                true
            };
            for block in (lane..0x100).step_by(CL) {
                if fw::should_stop() {
                    return;
                }
                for c in (block as u32 * 0x100)..((block as u32 + 1) * 0x100) {
                    if is_sur(c) {
                        continue;
                    }
                    if !scan(c, st) {
                        return;
                    }
                }
            }
            // astral: every 0x101st scalar of each plane, plus the mapped ranges densely in thorough
            let step = if ctx.tier == fw::Tier::Thorough { 0x11 } else { 0x101 };
            for c in ((0x10000 + lane as u32)..0x110000).step_by(step * CL) {
                if !scan(c, st) {
                    return;
                }
            }
            st.evals += n * 6;
            st.nontrivial_enum += n * 6;
            st.class_n("scalar-next-to-a-state-setting-context", n * 6);
            st.sample(1, || json!({"encoding": enc.name(), "contexts": ctxs.iter().map(|c| format!("{:X}", c)).collect::<Vec<_>>(), "text": "[context, c] and [c, context] for every BMP scalar c", "routes": ["slice", "vec"], "end_of_stream": ["on the data call", "on an empty call"]}));
        });
        total.merge(st);
        total.exhaustive.push("per encoder: every BMP scalar (and every 0x101st astral scalar) directly after and directly before each of 3-6 state-setting contexts (two-byte character, katakana, Roman-state character, ASCII, unmappable), UTF-8 and UTF-16 sources, raw and replacement, slice and Vec methods, end of stream on the data call or on an empty call".into());
    }

    // (a3) aliases: an astral character and the BMP character with the same low 16 bits (and the
    // same low 8 / 12 bits of another plane) in one stream, both orders, adjacent or with ASCII or a
    // common character between them - an encoder that remembers anything about the previous lookup
    // must key it by the whole scalar
    if !fw::should_stop() {
        let e = super::ench::encoder_encodings();
        let st = par_run(ctx, e.len(), |part, st| {
            let enc = e[part];
            let algo = enc_algo_for(enc);
            let mut astral: Vec<u32> = Vec::new();
            match algo {
                EncAlgo::Big5 => {
                    for c in crate::golden::golden().big5.iter() {
                        if let crate::golden::Cell::One(x) = c {
                            if *x >= 0x10000 {
                                astral.push(*x);
                            }
                        }
                    }
                }
                EncAlgo::Gb18030 | EncAlgo::Utf8 => {
                    astral.extend((0x10000u32..0x110000).step_by(0x3F1));
                    astral.extend_from_slice(&[0x10000, 0x1FFFF, 0x20000, 0x2A6D6, 0x10FFFF]);
                }
                _ => return,
            }
            astral.sort();
            astral.dedup();
            let common = hist_enc::alphabet(enc).into_iter().find(|c| *c >= 0x3000 && *c < 0xA000 && model_enc::mappable(algo, *c)).unwrap_or(0x4E00);
            for &a in &astral {
                if fw::should_stop() {
                    return;
                }
                for b in [a & 0xFFFF, (a & 0xFFFF) | 0x10000, a ^ 0x30000, (a & 0xFFF) | 0x4000] {
                    if b == a || is_sur(b) || b > 0x10FFFF {
                        continue;
                    }
                    for mid in [vec![], vec![0x61u32], vec![common], vec![0x61, common, 0x62]] {
                        for order in 0..2 {
                            let mut text: Vec<u32> = Vec::with_capacity(8);
                            text.push(if order == 0 { b } else { a });
                            text.extend_from_slice(&mid);
                            text.push(if order == 0 { a } else { b });
                            st.evals += 1;
                            st.nontrivial_distinct();
                            st.class("astral-character-and-its-low-bits-alias");
                            if let Some((src, repl, msg)) = check_lean(enc, algo, &text, (a + order) % 2 == 1) {
                                st.violations.push(violation(enc, src, repl, &text, msg));
                                return;
                            }
                        }
                    }
                }
            }
        });
        total.merge(st);
        total.exhaustive.push("Big5 (every astral character of the index), gb18030 and UTF-8 (every 0x3F1st astral scalar): the character and its low-16-bit / other-plane aliases in one stream, both orders, adjacent or separated by ASCII / a common character".into());
    }

    // (b1) one control / boundary character at every offset 0..=200 of an ASCII text (block-wise
    // pre-scans of the one-shot method and of the ISO-2022-JP encoder must not skip SO / SI / ESC)
    if !fw::should_stop() {
        let e = encs::all();
        let st = par_run(ctx, e.len(), |part, st| {
            let enc = e[part];
            let algo = enc_algo_for(enc);
            let mut drv = EncDriver::new();
            for c in [0x0Eu32, 0x0F, 0x1B, 0x7F, 0x00, 0x80, 0xA5] {
                for p in 0..=200usize {
                    if fw::should_stop() {
                        return;
                    }
                    for t in [0usize, 1, 70] {
                        let mut text: Vec<u32> = (0..p).map(|i| 0x20 + (i % 90) as u32).collect();
                        text.push(c);
                        text.extend((0..t).map(|i| 0x41 + (i % 26) as u32));
                        st.evals += 1;
                        st.nontrivial_distinct();
                        st.class("control-or-boundary-character-in-long-ascii");
                        if let Some(msg) = check_text(enc, algo, Src::Utf8, true, &text, &mut drv) {
                            st.violations.push(violation(enc, Src::Utf8, true, &text, msg));
                            return;
                        }
                        if p % 16 == 15 || p % 16 == 0 {
                            if let Some(msg) = check_text(enc, algo, Src::Utf16, false, &text, &mut drv) {
                                st.violations.push(violation(enc, Src::Utf16, false, &text, msg));
                                return;
                            }
                        }
                    }
                }
            }
        });
        total.merge(st);
        total.exhaustive.push("per encoding: SO / SI / ESC / DEL / NUL / U+0080 / U+00A5 at every offset 0..=200 of an ASCII text with tails of 0 / 1 / 70 characters, streaming and one-shot".into());
    }

    // (b2) two non-ASCII characters inside a long ASCII run (first at offsets 0..=33, second at
    // distances 1..=40 and around 48/64/128), both source forms
    if !fw::should_stop() {
        let e = super::ench::encoder_encodings();
        let st = par_run(ctx, e.len() * 2, |part, st| {
            let enc = e[part / 2];
            let half = part % 2;
            let algo = enc_algo_for(enc);
            let alpha: Vec<u32> = hist_enc::alphabet(enc).into_iter().filter(|c| *c >= 0x80).collect();
            let mut picks: Vec<u32> = alpha.iter().cloned().step_by((alpha.len() / 5).max(1)).collect();
            picks.push(0xD800);
            picks.push(0x1F600);
            let mut drv = EncDriver::new();
            let mut dists: Vec<usize> = (1..=40).collect();
            dists.extend_from_slice(&[47, 48, 49, 63, 64, 65, 127, 128, 129]);
            for (xi, &x) in picks.iter().enumerate() {
                for (yi, &y) in picks.iter().enumerate() {
                    if (xi + yi) % 2 != half {
                        continue;
                    }
                    for p in (0..=33usize).step_by(if ctx.tier == fw::Tier::Thorough { 1 } else { 3 }).chain([15usize, 16, 17, 31, 32].into_iter()) {
                        if fw::should_stop() {
                            return;
                        }
                        for &d in &dists {
                            let mut text: Vec<u32> = (0..p).map(|i| 0x61 + (i % 26) as u32).collect();
                            text.push(x);
                            text.extend((0..d - 1).map(|i| 0x41 + (i % 26) as u32));
                            text.push(y);
                            text.extend((0..19).map(|i| 0x30 + (i % 10) as u32));
                            let has_sur = is_sur(x) || is_sur(y);
                            for src in [Src::Utf8, Src::Utf16] {
                                if has_sur && src == Src::Utf8 {
                                    continue;
                                }
                                st.evals += 1;
                                st.nontrivial_distinct();
                                st.class("two-characters-in-long-ascii");
                                if let Some(msg) = check_text(enc, algo, src, (p + d) % 2 == 0, &text, &mut drv) {
                                    st.violations.push(violation(enc, src, (p + d) % 2 == 0, &text, msg));
                                    return;
                                }
                            }
                        }
                    }
                }
            }
        });
        total.merge(st);
        total.exhaustive.push("per encoder: two non-ASCII characters inside an ASCII run (first at offsets 0..=33 step 3 plus 15/16/17/31/32, second at distances 1..=40, 47..49, 63..65, 127..129), UTF-8 and UTF-16 sources".into());
    }

    // (c) random texts
    if !fw::should_stop() {
        use proptest::prelude::*;
        let per_enc = ctx.n(4_000, 150_000);
        let st = par_run(ctx, all.len(), |part, st| {
            let enc = all[part];
            let algo = enc_algo_for(enc);
            let strat = (proptest::collection::vec((any::<u8>(), any::<u32>()), 0..ctx.tier.pick(24usize, 200usize)), any::<bool>(), any::<bool>());
            let drv = std::cell::RefCell::new(EncDriver::new());
            fw::run_random(ctx, 300 + part as u64, per_enc, &strat, st, |(chars, utf16, repl), st| {
                let src = if *utf16 { Src::Utf16 } else { Src::Utf8 };
                let mut text: Vec<u32> = Vec::new();
                for (k, x) in chars {
                    hist_enc::text_token(algo, *utf16, *k, *x, &mut text);
                }
                let h = EncHistory::simple(enc, src, *repl, &text);
                st.class("random-text");
                if h.text.len() > 16 {
                    st.class("random-text-longer-than-16");
                }
                if h.has_lone_surrogate() {
                    st.class("random-text-with-unpaired-surrogate");
                }
                if nontrivial_text(&h.text) {
                    st.nontrivial_hash(h.hash());
                }
                st.sample(1, || case_json(enc, src, *repl, &h.text));
                match check_text(enc, algo, src, *repl, &h.text, &mut drv.borrow_mut()) {
                    None => vec![],
                    Some(m) => vec![violation(enc, src, *repl, &h.text, m)],
                }
            });
            // polish the proptest-shrunk case with the domain shrinker
            if let Some(v) = st.violations.pop() {
                let src = if v.case["source"] == "utf8" { Src::Utf8 } else { Src::Utf16 };
                let repl = v.case["replacement"].as_bool().unwrap_or(false);
                let text = fw::unhex32(v.case["text_code_points_hex"].as_str().unwrap_or(""));
                let min = shrink_text(enc, algo, src, repl, &text);
                let m2 = check_text(enc, algo, src, repl, &min, &mut drv.borrow_mut()).unwrap_or(v.msg.clone());
                st.violations.push(violation(enc, src, repl, &min, m2));
            }
        });
        total.merge(st);
    }
    fw::finish(
        ctx,
        total,
        RULE,
        &[
            "the frozen index data in /verif/data is the Standard's (see data/PROVENANCE.md)",
            "my transcription of the Standard's encoder algorithms (pointer rules, GB18030-2022 overrides, ISO-2022-JP state machine) is faithful",
        ],
        t0.elapsed().as_secs_f64(),
    )
    .exit
}
