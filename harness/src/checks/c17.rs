//! C17 - observable behaviour is identical across build configurations.
//!
//! `encverif digest <out>` runs one deterministic corpus (a pure function of VERIF_SEED) through
//! the crate as linked into THIS binary and writes one hash per block of cases; the `check`
//! wrapper runs it in every configuration and compares the files.  `digest-detail` re-runs one
//! block and writes every case with its logical result so the first differing case can be named.

use crate::drive_dec::{BomMode, DecDriver, DecHistory, Sink};
use crate::drive_enc::{EncDriver, EncHistory, Src};
use crate::encs;
use crate::fw::{self, Ctx, Tier};
use crate::hist::{self, Profile};
use crate::hist_enc::{self, EProfile};
use crate::memchk::{MemCase, MemRunner, ALL_FNS};
use crate::memgen;
use crate::model_dec::algo_for;
use crate::valchk::{self, C14_FNS, C16_FNS};
use encoding_rs::*;
use proptest::strategy::{Strategy, ValueTree};
use std::io::Write;
use std::sync::Mutex;

pub struct Block {
    pub section: &'static str,
    pub key: String,
    pub hash: u64,
    pub cases: u64,
    pub nontrivial: u64,
    pub detail: Vec<String>,
}

struct Acc {
    hash: u64,
    cases: u64,
    nontrivial: u64,
    detail: Option<Vec<String>>,
}

impl Acc {
    fn new(detail: bool) -> Acc {
        Acc { hash: 0x1234_5678_9ABC_DEF0, cases: 0, nontrivial: 0, detail: if detail { Some(Vec::new()) } else { None } }
    }
    #[inline]
    fn case(&mut self, nontrivial: bool, result: &[u8], id: impl FnOnce() -> String) {
        self.hash = fw::mix(self.hash, fw::fnv(result));
        self.cases += 1;
        self.nontrivial += nontrivial as u64;
        if let Some(d) = self.detail.as_mut() {
            d.push(format!("{}\t{}", id(), fw::hex(result)));
        }
    }
}

type Job = (&'static str, String, Box<dyn Fn(&mut Acc) + Send + Sync>);

fn push_u32s(v: &mut Vec<u8>, xs: &[u32]) {
    for x in xs {
        v.extend_from_slice(&x.to_le_bytes());
    }
}

fn jobs(ctx: &Ctx) -> Vec<Job> {
    let mut jobs: Vec<Job> = Vec::new();
    let all = encs::all();
    let thorough = ctx.tier == Tier::Thorough;
    // ---- 1. every scalar through every encoder, both source forms, raw mode
    for enc in all.iter().cloned() {
        if !std::ptr::eq(enc.output_encoding(), enc) {
            continue;
        }
        for block in 0..(0x110000 / 0x2000) {
            jobs.push((
                "enc-scalar",
                format!("{}:{:X}", enc.name(), block * 0x2000),
                Box::new(move |acc: &mut Acc| {
                    let mut dst = [0u8; 32];
                    for cp in (block as u32 * 0x2000)..((block as u32 + 1) * 0x2000) {
                        let c = match char::from_u32(cp) {
                            Some(c) => c,
                            None => continue,
                        };
                        let mut res: Vec<u8> = Vec::with_capacity(24);
                        let mut s8 = [0u8; 4];
                        let s8 = c.encode_utf8(&mut s8);
                        let mut e = enc.new_encoder();
                        let (r, rd, w) = e.encode_from_utf8_without_replacement(s8, &mut dst, true);
                        res.extend_from_slice(&dst[..w]);
                        res.push(rd as u8);
                        if let EncoderResult::Unmappable(u) = r {
                            res.extend_from_slice(&(u as u32).to_le_bytes());
                        }
                        let mut s16 = [0u16; 2];
                        let s16 = c.encode_utf16(&mut s16);
                        let mut e = enc.new_encoder();
                        let (r, rd, w) = e.encode_from_utf16_without_replacement(s16, &mut dst, true);
                        res.push(0xFE);
                        res.extend_from_slice(&dst[..w]);
                        res.push(rd as u8);
                        if let EncoderResult::Unmappable(u) = r {
                            res.extend_from_slice(&(u as u32).to_le_bytes());
                        }
                        acc.case(cp >= 0x80, &res, || format!("U+{:04X}", cp));
                    }
                }),
            ));
        }
    }
    // ---- 2. all strings of length <= 2 through every decoder
    for enc in all.iter().cloned() {
        for first in 0..257usize {
            jobs.push((
                "dec-2byte",
                format!("{}:{:03X}", enc.name(), first),
                Box::new(move |acc: &mut Acc| {
                    let mut drv = DecDriver::new();
                    let mut run = |bytes: &[u8], acc: &mut Acc| {
                        let mut res: Vec<u8> = Vec::new();
                        for sink in [Sink::Utf8, Sink::Utf16] {
                            let h = DecHistory::simple(enc, BomMode::None, sink, false, bytes);
                            let out = drv.run(&h);
                            res.extend_from_slice(&out.out8);
                            for u in &out.out16 {
                                res.extend_from_slice(&u.to_le_bytes());
                            }
                            for c in &out.calls {
                                res.push(c.read as u8);
                                res.push(c.written as u8);
                                res.extend_from_slice(format!("{:?}", c.res).as_bytes());
                            }
                        }
                        acc.case(bytes.iter().any(|b| *b >= 0x80), &res, || fw::hex(bytes));
                    };
                    if first == 256 {
                        run(&[], acc);
                        for b in 0..=255u8 {
                            run(&[b], acc);
                        }
                    } else {
                        for b in 0..=255u8 {
                            run(&[first as u8, b], acc);
                        }
                    }
                }),
            ));
        }
    }
    // ---- 3. seeded decoder histories (the C02 generator), transcripts included
    let mut dencs = encs::multibyte();
    dencs.extend(encs::single_byte_sample());
    let per_block = 512u64;
    let dblocks = if thorough { 80 } else { 10 };
    for (ei, enc) in dencs.iter().cloned().enumerate() {
        for b in 0..dblocks {
            let seed = ctx.seed;
            jobs.push((
                "dec-history",
                format!("{}:{}", enc.name(), b),
                Box::new(move |acc: &mut Acc| {
                    let c = Ctx { prop: "C17".into(), tier: Tier::Quick, seed, threads: 1, scale: 1.0 };
                    let mut r = fw::runner(&c, (ei * 1000 + b) as u64);
                    let prof = Profile { max_tokens: 14, small_caps_weight: 128, queries: false, exact_queries: false, modes: &hist::ALL_MODES, sinks: &hist::ALL_SINKS, bom_prefix_weight: 48 };
                    let strat = hist::history(enc, prof);
                    let mut drv = DecDriver::new();
                    for _ in 0..per_block {
                        let h = strat.new_tree(&mut r).unwrap().current();
                        let out = drv.run(&h);
                        let mut res: Vec<u8> = Vec::new();
                        res.extend_from_slice(&out.out8);
                        for u in &out.out16 {
                            res.extend_from_slice(&u.to_le_bytes());
                        }
                        for cl in &out.calls {
                            res.extend_from_slice(format!("|{:?},{},{},{}", cl.res, cl.read, cl.written, cl.flag).as_bytes());
                        }
                        res.extend_from_slice(out.final_enc.map(|e| e.name()).unwrap_or("?").as_bytes());
                        for f in &out.faults {
                            res.extend_from_slice(format!("!{:?}", f.kind).as_bytes());
                        }
                        let nt = h.stream.len() >= 16 || crate::gen::has_non_ascii(&h.stream);
                        acc.case(nt, &res, || h.to_json().to_string());
                    }
                }),
            ));
        }
    }
    // ---- 4. seeded encoder histories
    let eencs = super::ench::encoder_encodings();
    for (ei, enc) in eencs.iter().cloned().enumerate() {
        for b in 0..dblocks {
            let seed = ctx.seed;
            jobs.push((
                "enc-history",
                format!("{}:{}", enc.name(), b),
                Box::new(move |acc: &mut Acc| {
                    let c = Ctx { prop: "C17".into(), tier: Tier::Quick, seed, threads: 1, scale: 1.0 };
                    let mut r = fw::runner(&c, (50_000 + ei * 1000 + b) as u64);
                    let strat = hist_enc::history(enc, EProfile { max_chars: 24, small_caps_weight: 128, queries: false, exact_queries: false, mappable_only: false });
                    let mut drv = EncDriver::new();
                    for _ in 0..per_block {
                        let h = strat.new_tree(&mut r).unwrap().current();
                        let out = drv.run(&h);
                        let mut res: Vec<u8> = out.out.clone();
                        for cl in &out.calls {
                            res.extend_from_slice(format!("|{:?},{},{},{},{}", cl.res, cl.read, cl.written, cl.flag, cl.pending_after).as_bytes());
                        }
                        for f in &out.faults {
                            res.extend_from_slice(format!("!{:?}", f.kind).as_bytes());
                        }
                        let nt = h.text.iter().any(|c| *c >= 0x80);
                        acc.case(nt, &res, || h.to_json().to_string());
                    }
                }),
            ));
        }
    }
    // ---- 5. mem conversions and validators / classifiers on seeded cases and planted sweeps
    for (fi, f) in ALL_FNS.iter().cloned().enumerate() {
        for b in 0..(if thorough { 40 } else { 6 }) {
            let seed = ctx.seed;
            jobs.push((
                "mem",
                format!("{}:{}", f.name(), b),
                Box::new(move |acc: &mut Acc| {
                    let c = Ctx { prop: "C17".into(), tier: Tier::Quick, seed, threads: 1, scale: 1.0 };
                    let mut r = fw::runner(&c, (100_000 + fi * 1000 + b) as u64);
                    let strat = memgen::mem_case(f, 14);
                    let mut rn = MemRunner::new();
                    for _ in 0..1024 {
                        let mc = strat.new_tree(&mut r).unwrap().current();
                        let rr = rn.run(&mc);
                        let mut res: Vec<u8> = Vec::new();
                        match &rr.out {
                            Some(o) => {
                                for x in &o.ret {
                                    res.extend_from_slice(&x.to_le_bytes());
                                }
                                // outside the documented domain the output is unspecified: only the
                                // return values of in-domain cases are compared
                                if !crate::memchk::reference(&mc).unspecified {
                                    res.extend_from_slice(&o.dst8);
                                    for u in &o.dst16 {
                                        res.extend_from_slice(&u.to_le_bytes());
                                    }
                                }
                            }
                            None => res.extend_from_slice(b"panic"),
                        }
                        let nt = mc.src_len() >= 16;
                        acc.case(nt, &res, || mc.to_json().to_string());
                    }
                }),
            ));
        }
    }
    for f in C14_FNS.iter().chain(C16_FNS.iter()).cloned() {
        for len_block in 0..10usize {
            jobs.push((
                "validators",
                format!("{}:len{}", f.name(), len_block * 16),
                Box::new(move |acc: &mut Acc| {
                    for len in (len_block * 16)..((len_block + 1) * 16) {
                        for fk in 0..4usize {
                            let ncls = if f.is_u16() { memgen::PLANT16.len() } else { memgen::PLANT8.len() };
                            for cls in 0..ncls {
                                for pos in 0..len {
                                    let (mut s8, mut s16) = (vec![], vec![]);
                                    if f.is_u16() {
                                        s16 = memgen::plant16(fk, len, pos, memgen::PLANT16[cls]);
                                    } else {
                                        s8 = memgen::plant8(fk, len, pos, memgen::PLANT8[cls]);
                                    }
                                    let mut vc = valchk::VCase { f, src8: s8, src16: s16, align: (pos + cls) & 15, force_scalar: false };
                                    vc.sanitise();
                                    let al = vc.align;
                                    let mut b8 = vec![0u8; al];
                                    b8.extend_from_slice(&vc.src8);
                                    let mut b16 = vec![0u16; al];
                                    b16.extend_from_slice(&vc.src16);
                                    let got = valchk::call(f, &b8[al..], &b16[al..]);
                                    acc.case(len >= 16, &got.to_le_bytes(), || vc.to_json().to_string());
                                }
                            }
                        }
                    }
                }),
            ));
        }
    }
    // ---- 5b. deterministic families added in the third validation round: uniform runs, two special
    //          units in one stride, sequences straddling a block boundary, adjacent pairs
    for enc in dencs.iter().cloned() {
        for fam in 0..3usize {
            jobs.push((
                "dec-structured",
                format!("{}:{}", enc.name(), ["uniform-runs", "two-units", "block-boundary"][fam]),
                Box::new(move |acc: &mut Acc| {
                    let algo = algo_for(enc);
                    let is16 = matches!(algo, crate::model_dec::Algo::Utf16(_));
                    let mut atoms: Vec<Vec<u8>> = hist::atoms(algo).into_iter().filter(|a| a.iter().any(|b| *b >= 0x80 || *b == 0x1B)).collect();
                    if let crate::model_dec::Algo::Utf16(be) = algo {
                        for u in [0x0100u16, 0x3000, 0x4E00, 0x7F00, 0x2000, 0xFF00] {
                            atoms.push(if be { vec![(u >> 8) as u8, u as u8] } else { vec![u as u8, (u >> 8) as u8] });
                        }
                    }
                    let ascii = |v: &mut Vec<u8>, n: usize, base: u8| {
                        for i in 0..n {
                            let c = base + (i % 26) as u8;
                            match algo {
                                crate::model_dec::Algo::Utf16(true) => v.extend_from_slice(&[0, c]),
                                crate::model_dec::Algo::Utf16(false) => v.extend_from_slice(&[c, 0]),
                                _ => v.push(c),
                            }
                        }
                    };
                    let mut drv = DecDriver::new();
                    let mut run = |stream: &[u8], caps: Vec<usize>, sink: Sink, repl: bool, acc: &mut Acc| {
                        let mut h = DecHistory::simple(enc, BomMode::None, sink, repl, stream);
                        h.caps = caps;
                        let out = drv.run(&h);
                        let mut res: Vec<u8> = Vec::new();
                        res.extend_from_slice(&out.out8);
                        for u in &out.out16 {
                            res.extend_from_slice(&u.to_le_bytes());
                        }
                        for cl in &out.calls {
                            res.extend_from_slice(format!("|{:?},{},{},{}", cl.res, cl.read, cl.written, cl.flag).as_bytes());
                        }
                        for f in &out.faults {
                            res.extend_from_slice(format!("!{:?}", f.kind).as_bytes());
                        }
                        acc.case(true, &res, || h.to_json().to_string());
                    };
                    let _ = is16;
                    match fam {
                        0 => {
                            for a in &atoms {
                                for p in [0usize, 3, 8] {
                                    for k in [8usize, 15, 16, 17, 32, 33] {
                                        let mut v = Vec::new();
                                        ascii(&mut v, p, b'a');
                                        for _ in 0..k {
                                            v.extend_from_slice(a);
                                        }
                                        ascii(&mut v, 2, b'y');
                                        for (sink, repl) in [(Sink::Utf8, true), (Sink::Utf16, false), (Sink::String, true)] {
                                            for caps in [vec![], vec![sink.min_cap() + 1], vec![16], vec![24]] {
                                                run(&v, caps, sink, repl, acc);
                                            }
                                        }
                                    }
                                }
                            }
                        }
                        1 => {
                            for (xi, x) in atoms.iter().enumerate().take(5) {
                                for y in atoms.iter().skip(xi % 2).step_by(2).take(4) {
                                    for p in [0usize, 5, 15, 16, 17, 31] {
                                        for d in [1usize, 2, 7, 8, 9, 15, 16, 17, 32] {
                                            let mut v = Vec::new();
                                            ascii(&mut v, p, b'a');
                                            v.extend_from_slice(x);
                                            ascii(&mut v, d - 1, b'A');
                                            v.extend_from_slice(y);
                                            ascii(&mut v, 19, b'a');
                                            run(&v, vec![], Sink::Utf8, true, acc);
                                            run(&v, vec![p + d + 3], Sink::Utf16, false, acc);
                                        }
                                    }
                                }
                            }
                        }
                        _ => {
                            for a in atoms.iter().take(5) {
                                for block in [256usize, 1024, 4096] {
                                    for j in 0..=4usize {
                                        let mut v = Vec::new();
                                        ascii(&mut v, if is16 { (block - j) / 2 } else { block - j }, b'a');
                                        v.extend_from_slice(a);
                                        ascii(&mut v, 4, b'w');
                                        run(&v, vec![], Sink::Utf8, true, acc);
                                        run(&v, vec![block / 2 + 3], Sink::Utf16, true, acc);
                                        run(&v, vec![block + 1], Sink::Str, false, acc);
                                    }
                                }
                            }
                        }
                    }
                }),
            ));
        }
    }
    for enc in eencs.iter().cloned() {
        jobs.push((
            "enc-structured",
            format!("{}:uniform-runs-and-blocks", enc.name()),
            Box::new(move |acc: &mut Acc| {
                let mut alpha: Vec<u32> = hist_enc::alphabet(enc).into_iter().filter(|c| *c >= 0x80).collect();
                alpha.extend_from_slice(&[0xD800, 0xDC00]);
                let mut drv = EncDriver::new();
                let mut run = |text: &[u32], src: Src, repl: bool, caps: Vec<usize>, acc: &mut Acc| {
                    let mut h = EncHistory::simple(enc, src, repl, text);
                    h.caps = caps;
                    let out = drv.run(&h);
                    let mut res: Vec<u8> = out.out.clone();
                    for cl in &out.calls {
                        res.extend_from_slice(format!("|{:?},{},{},{},{}", cl.res, cl.read, cl.written, cl.flag, cl.pending_after).as_bytes());
                    }
                    for f in &out.faults {
                        res.extend_from_slice(format!("!{:?}", f.kind).as_bytes());
                    }
                    acc.case(true, &res, || h.to_json().to_string());
                };
                for &x in &alpha {
                    let sur = crate::drive_enc::is_sur(x);
                    for p in [0usize, 3] {
                        for k in [8usize, 15, 16, 17, 32, 33] {
                            let mut text: Vec<u32> = (0..p).map(|i| 0x61 + i as u32).collect();
                            for _ in 0..k {
                                text.push(x);
                            }
                            text.push(0x7A);
                            for repl in [false, true] {
                                let m = if repl { 14 } else { 4 };
                                for caps in [vec![], vec![m + 1], vec![16], vec![26]] {
                                    if !sur {
                                        run(&text, Src::Utf8, repl, caps.clone(), acc);
                                    }
                                    run(&text, Src::Utf16, repl, caps, acc);
                                }
                            }
                        }
                    }
                    if !sur {
                        for block in [256usize, 1024] {
                            for j in 0..=3usize {
                                let mut text: Vec<u32> = (0..block - j).map(|i| 0x20 + (i % 90) as u32).collect();
                                text.push(x);
                                text.extend_from_slice(&[0x74, 0x61]);
                                run(&text, Src::Utf8, true, vec![block / 2 + 3], acc);
                                run(&text, Src::Utf16, false, vec![], acc);
                            }
                        }
                    }
                }
            }),
        ));
    }
    for f in ALL_FNS.iter().cloned() {
        jobs.push((
            "mem-pairs",
            f.name().to_string(),
            Box::new(move |acc: &mut Acc| {
                let mut rn = MemRunner::new();
                let mut run = |src8: Vec<u8>, src16: Vec<u16>, k: usize, acc: &mut Acc| {
                    let mut mc = MemCase { f, src8, src16, dst_len: 0, src_align: k & 7, dst_align: (k >> 3) & 7, fill: 0xA5 };
                    mc.sanitise();
                    let n = mc.src_len();
                    mc.dst_len = if f.is_partial() { [f.sufficient(n), n, n.saturating_sub(1 + k % 5)][k % 3] } else { f.min_dst(n).unwrap_or(0) };
                    let rr = rn.run(&mc);
                    let mut res: Vec<u8> = Vec::new();
                    match &rr.out {
                        Some(o) => {
                            for x in &o.ret {
                                res.extend_from_slice(&x.to_le_bytes());
                            }
                            if !crate::memchk::reference(&mc).unspecified {
                                res.extend_from_slice(&o.dst8);
                                for u in &o.dst16 {
                                    res.extend_from_slice(&u.to_le_bytes());
                                }
                            }
                        }
                        None => res.extend_from_slice(b"panic"),
                    }
                    acc.case(true, &res, || mc.to_json().to_string());
                };
                let mut k = 0usize;
                match f.src_kind() {
                    crate::memchk::SrcKind::U16 => {
                        for &a in memgen::UNIT_EDGES16.iter() {
                            for &b in memgen::UNIT_EDGES16.iter() {
                                for &(p, d, t) in memgen::pair_layouts16().iter().step_by(3) {
                                    k += 1;
                                    run(vec![], memgen::embed_pair16(a, b, p, d, t), k, acc);
                                }
                            }
                        }
                        for &a in memgen::UNIT_EDGES16.iter() {
                            for run_len in [8usize, 9, 16, 17, 24] {
                                k += 1;
                                let mut v: Vec<u16> = vec![0x61; 3];
                                v.extend(std::iter::repeat(a).take(run_len));
                                v.extend_from_slice(&[0x20, 0x20]);
                                run(vec![], v, k, acc);
                            }
                        }
                    }
                    crate::memchk::SrcKind::Bytes | crate::memchk::SrcKind::Str => {
                        let near = memgen::utf8_near_valid(false);
                        let reps = memgen::utf8_valid_reps();
                        for s in near.iter() {
                            for a in reps.iter().step_by(3) {
                                k += 1;
                                let (pre, tail) = memgen::PAIR_EMBED[k % memgen::PAIR_EMBED.len()];
                                run(if k % 2 == 0 { memgen::embed_pair8(a, s, pre, tail) } else { memgen::embed_pair8(s, a, pre, tail) }, vec![], k, acc);
                            }
                        }
                    }
                    _ => {}
                }
            }),
        ));
    }
    for f in C14_FNS.iter().chain(C16_FNS.iter()).cloned() {
        jobs.push((
            "validator-pairs",
            f.name().to_string(),
            Box::new(move |acc: &mut Acc| {
                let mut k = 0usize;
                let mut run = |s8: Vec<u8>, s16: Vec<u16>, k: usize, acc: &mut Acc| {
                    let mut vc = valchk::VCase { f, src8: s8, src16: s16, align: k & 15, force_scalar: false };
                    vc.sanitise();
                    let al = vc.align;
                    let mut b8 = vec![0u8; al];
                    b8.extend_from_slice(&vc.src8);
                    let mut b16 = vec![0u16; al];
                    b16.extend_from_slice(&vc.src16);
                    let got = valchk::call(f, &b8[al..], &b16[al..]);
                    acc.case(true, &got.to_le_bytes(), || vc.to_json().to_string());
                };
                if f.is_u16() {
                    for &a in memgen::UNIT_EDGES16.iter() {
                        for &b in memgen::UNIT_EDGES16.iter() {
                            for &(p, d, t) in memgen::pair_layouts16().iter() {
                                k += 1;
                                run(vec![], memgen::embed_pair16(a, b, p, d, t), k, acc);
                            }
                        }
                    }
                } else {
                    let near = memgen::utf8_near_valid(false);
                    let reps = memgen::utf8_valid_reps();
                    for s in near.iter() {
                        for a in reps.iter() {
                            k += 1;
                            let (pre, tail) = memgen::PAIR_EMBED[k % memgen::PAIR_EMBED.len()];
                            run(if k % 2 == 0 { memgen::embed_pair8(a, s, pre, tail) } else { memgen::embed_pair8(s, a, pre, tail) }, vec![], k, acc);
                        }
                    }
                }
            }),
        ));
    }
    // ---- 6. UTF-8 inputs around and above the 64-byte SIMD-validator threshold through the
    //         validator, the UTF-8 decoder and the one-shot decode
    for b in 0..(if thorough { 64 } else { 16 }) {
        let seed = ctx.seed;
        jobs.push((
            "utf8-long",
            format!("{}", b),
            Box::new(move |acc: &mut Acc| {
                let c = Ctx { prop: "C17".into(), tier: Tier::Quick, seed, threads: 1, scale: 1.0 };
                let mut r = fw::runner(&c, (200_000 + b) as u64);
                let strat = crate::gen::stream(algo_for(UTF_8), 30);
                let mut drv = DecDriver::new();
                for _ in 0..512 {
                    let mut bytes = strat.new_tree(&mut r).unwrap().current();
                    while bytes.len() < 64 {
                        let mut more = strat.new_tree(&mut r).unwrap().current();
                        if more.is_empty() {
                            more.push(b'x');
                        }
                        bytes.append(&mut more);
                    }
                    let mut res: Vec<u8> = Vec::new();
                    res.extend_from_slice(&(Encoding::utf8_valid_up_to(&bytes) as u64).to_le_bytes());
                    let (cow, _, had) = UTF_8.decode(&bytes);
                    res.extend_from_slice(cow.as_bytes());
                    res.push(had as u8);
                    res.push(matches!(cow, std::borrow::Cow::Borrowed(_)) as u8);
                    let o = UTF_8.decode_without_bom_handling_and_without_replacement(&bytes);
                    res.push(o.is_some() as u8);
                    for sink in [Sink::Utf8, Sink::Utf16, Sink::String] {
                        let mut h = DecHistory::simple(UTF_8, BomMode::None, sink, true, &bytes);
                        h.caps = vec![bytes.len() / 2 + 8, 64];
                        let out = drv.run(&h);
                        push_u32s(&mut res, &out.scalars(sink).unwrap_or_default());
                        for cl in &out.calls {
                            res.extend_from_slice(format!("|{:?},{},{}", cl.res, cl.read, cl.written).as_bytes());
                        }
                    }
                    acc.case(true, &res, || fw::hex(&bytes));
                }
            }),
        ));
    }
    jobs
}

/// run the corpus; `only` restricts to one block and turns on per-case detail
pub fn compute(ctx: &Ctx, only: Option<(&str, &str)>) -> Vec<Block> {
    let js = jobs(ctx);
    let results: Mutex<Vec<(usize, Block)>> = Mutex::new(Vec::new());
    let next = std::sync::atomic::AtomicUsize::new(0);
    std::thread::scope(|s| {
        for _ in 0..ctx.threads.max(1) {
            s.spawn(|| loop {
                let i = next.fetch_add(1, std::sync::atomic::Ordering::SeqCst);
                if i >= js.len() {
                    break;
                }
                let (section, key, f) = &js[i];
                if let Some((s, k)) = only {
                    if *section != s || key != k {
                        continue;
                    }
                }
                let mut acc = Acc::new(only.is_some());
                f(&mut acc);
                results.lock().unwrap().push((i, Block { section, key: key.clone(), hash: acc.hash, cases: acc.cases, nontrivial: acc.nontrivial, detail: acc.detail.unwrap_or_default() }));
            });
        }
    });
    let mut v = results.into_inner().unwrap();
    v.sort_by_key(|x| x.0);
    v.into_iter().map(|x| x.1).collect()
}

pub fn digest_main(ctx: &Ctx, out_path: &str, only: Option<(String, String)>) -> i32 {
    if std::env::var("VERIF_FORCE_SCALAR_UTF8").map(|v| v == "1").unwrap_or(false) {
        encoding_rs::verif_hooks::set_force_scalar_utf8(true);
    }
    let t0 = std::time::Instant::now();
    let blocks = compute(ctx, only.as_ref().map(|(a, b)| (a.as_str(), b.as_str())));
    let mut f = std::io::BufWriter::new(std::fs::File::create(out_path).expect("create digest file"));
    let (mut cases, mut nt) = (0u64, 0u64);
    for b in &blocks {
        cases += b.cases;
        nt += b.nontrivial;
        if only.is_some() {
            for d in &b.detail {
                writeln!(f, "{}", d).unwrap();
            }
        } else {
            writeln!(f, "{}\t{}\t{:016x}\t{}", b.section, b.key, b.hash, b.cases).unwrap();
        }
    }
    if only.is_none() {
        writeln!(f, "#stats\t{}\t{}\t{:.2}", cases, nt, t0.elapsed().as_secs_f64()).unwrap();
    }
    0
}
