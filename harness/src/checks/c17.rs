//! C17 - observable behaviour is identical across build configurations.
//!
//! `encverif digest <out>` runs one deterministic corpus (a pure function of VERIF_SEED) through
//! the crate as linked into THIS binary and writes one hash per block of cases; the `check`
//! wrapper runs it in every configuration and compares the files.  `digest-detail` re-runs one
//! block and writes every case with its logical result so the first differing case can be named.

use crate::drive_dec::{BomMode, DecDriver, DecHistory, Sink};
use crate::drive_enc::{EncDriver, Src};
use crate::encs;
use crate::fw::{self, Ctx, Tier};
use crate::hist::{self, Profile};
use crate::hist_enc::{self, EProfile};
use crate::memchk::{MemRunner, ALL_FNS};
use crate::memgen;
use crate::model_dec::algo_for;
use crate::valchk::{self, C14_FNS, C16_FNS};
use encoding_rs::*;
use proptest::strategy::{Strategy, ValueTree};
use std::io::Write;
use std::sync::Mutex;

pub struct Block {
    pub section: &'static str,
    pub key: String,
    pub hash: u64,
    pub cases: u64,
    pub nontrivial: u64,
    pub detail: Vec<String>,
}

struct Acc {
    hash: u64,
    cases: u64,
    nontrivial: u64,
    detail: Option<Vec<String>>,
}

impl Acc {
    fn new(detail: bool) -> Acc {
        Acc { hash: 0x1234_5678_9ABC_DEF0, cases: 0, nontrivial: 0, detail: if detail { Some(Vec::new()) } else { None } }
    }
    #[inline]
    fn case(&mut self, nontrivial: bool, result: &[u8], id: impl FnOnce() -> String) {
        self.hash = fw::mix(self.hash, fw::fnv(result));
        self.cases += 1;
        self.nontrivial += nontrivial as u64;
        if let Some(d) = self.detail.as_mut() {
            d.push(format!("{}\t{}", id(), fw::hex(result)));
        }
    }
}

type Job = (&'static str, String, Box<dyn Fn(&mut Acc) + Send + Sync>);

fn push_u32s(v: &mut Vec<u8>, xs: &[u32]) {
    for x in xs {
        v.extend_from_slice(&x.to_le_bytes());
    }
}

fn jobs(ctx: &Ctx) -> Vec<Job> {
    let mut jobs: Vec<Job> = Vec::new();
    let all = encs::all();
    let thorough = ctx.tier == Tier::Thorough;
    // ---- 1. every scalar through every encoder, both source forms, raw mode
    for enc in all.iter().cloned() {
        if !std::ptr::eq(enc.output_encoding(), enc) {
            continue;
        }
        for block in 0..(0x110000 / 0x2000) {
            jobs.push((
                "enc-scalar",
                format!("{}:{:X}", enc.name(), block * 0x2000),
                Box::new(move |acc: &mut Acc| {
                    let mut dst = [0u8; 32];
                    for cp in (block as u32 * 0x2000)..((block as u32 + 1) * 0x2000) {
                        let c = match char::from_u32(cp) {
                            Some(c) => c,
                            None => continue,
                        };
                        let mut res: Vec<u8> = Vec::with_capacity(24);
                        let mut s8 = [0u8; 4];
                        let s8 = c.encode_utf8(&mut s8);
                        let mut e = enc.new_encoder();
                        let (r, rd, w) = e.encode_from_utf8_without_replacement(s8, &mut dst, true);
                        res.extend_from_slice(&dst[..w]);
                        res.push(rd as u8);
                        if let EncoderResult::Unmappable(u) = r {
                            res.extend_from_slice(&(u as u32).to_le_bytes());
                        }
                        let mut s16 = [0u16; 2];
                        let s16 = c.encode_utf16(&mut s16);
                        let mut e = enc.new_encoder();
                        let (r, rd, w) = e.encode_from_utf16_without_replacement(s16, &mut dst, true);
                        res.push(0xFE);
                        res.extend_from_slice(&dst[..w]);
                        res.push(rd as u8);
                        if let EncoderResult::Unmappable(u) = r {
                            res.extend_from_slice(&(u as u32).to_le_bytes());
                        }
                        acc.case(cp >= 0x80, &res, || format!("U+{:04X}", cp));
                    }
                }),
            ));
        }
    }
    // ---- 2. all strings of length <= 2 through every decoder
    for enc in all.iter().cloned() {
        for first in 0..257usize {
            jobs.push((
                "dec-2byte",
                format!("{}:{:03X}", enc.name(), first),
                Box::new(move |acc: &mut Acc| {
                    let mut drv = DecDriver::new();
                    let mut run = |bytes: &[u8], acc: &mut Acc| {
                        let mut res: Vec<u8> = Vec::new();
                        for sink in [Sink::Utf8, Sink::Utf16] {
                            let h = DecHistory::simple(enc, BomMode::None, sink, false, bytes);
                            let out = drv.run(&h);
                            res.extend_from_slice(&out.out8);
                            for u in &out.out16 {
                                res.extend_from_slice(&u.to_le_bytes());
                            }
                            for c in &out.calls {
                                res.push(c.read as u8);
                                res.push(c.written as u8);
                                res.extend_from_slice(format!("{:?}", c.res).as_bytes());
                            }
                        }
                        acc.case(bytes.iter().any(|b| *b >= 0x80), &res, || fw::hex(bytes));
                    };
                    if first == 256 {
                        run(&[], acc);
                        for b in 0..=255u8 {
                            run(&[b], acc);
                        }
                    } else {
                        for b in 0..=255u8 {
                            run(&[first as u8, b], acc);
                        }
                    }
                }),
            ));
        }
    }
    // ---- 3. seeded decoder histories (the C02 generator), transcripts included
    let mut dencs = encs::multibyte();
    dencs.extend(encs::single_byte_sample());
    let per_block = 512u64;
    let dblocks = if thorough { 80 } else { 10 };
    for (ei, enc) in dencs.iter().cloned().enumerate() {
        for b in 0..dblocks {
            let seed = ctx.seed;
            jobs.push((
                "dec-history",
                format!("{}:{}", enc.name(), b),
                Box::new(move |acc: &mut Acc| {
                    let c = Ctx { prop: "C17".into(), tier: Tier::Quick, seed, threads: 1, scale: 1.0 };
                    let mut r = fw::runner(&c, (ei * 1000 + b) as u64);
                    let prof = Profile { max_tokens: 14, small_caps_weight: 128, queries: false, exact_queries: false, modes: &hist::ALL_MODES, sinks: &hist::ALL_SINKS, bom_prefix_weight: 48 };
                    let strat = hist::history(enc, prof);
                    let mut drv = DecDriver::new();
                    for _ in 0..per_block {
                        let h = strat.new_tree(&mut r).unwrap().current();
                        let out = drv.run(&h);
                        let mut res: Vec<u8> = Vec::new();
                        res.extend_from_slice(&out.out8);
                        for u in &out.out16 {
                            res.extend_from_slice(&u.to_le_bytes());
                        }
                        for cl in &out.calls {
                            res.extend_from_slice(format!("|{:?},{},{},{}", cl.res, cl.read, cl.written, cl.flag).as_bytes());
                        }
                        res.extend_from_slice(out.final_enc.map(|e| e.name()).unwrap_or("?").as_bytes());
                        for f in &out.faults {
                            res.extend_from_slice(format!("!{:?}", f.kind).as_bytes());
                        }
                        let nt = h.stream.len() >= 16 || crate::gen::has_non_ascii(&h.stream);
                        acc.case(nt, &res, || h.to_json().to_string());
                    }
                }),
            ));
        }
    }
    // ---- 4. seeded encoder histories
    let eencs = super::ench::encoder_encodings();
    for (ei, enc) in eencs.iter().cloned().enumerate() {
        for b in 0..dblocks {
            let seed = ctx.seed;
            jobs.push((
                "enc-history",
                format!("{}:{}", enc.name(), b),
                Box::new(move |acc: &mut Acc| {
                    let c = Ctx { prop: "C17".into(), tier: Tier::Quick, seed, threads: 1, scale: 1.0 };
                    let mut r = fw::runner(&c, (50_000 + ei * 1000 + b) as u64);
                    let strat = hist_enc::history(enc, EProfile { max_chars: 24, small_caps_weight: 128, queries: false, exact_queries: false, mappable_only: false });
                    let mut drv = EncDriver::new();
                    for _ in 0..per_block {
                        let h = strat.new_tree(&mut r).unwrap().current();
                        let out = drv.run(&h);
                        let mut res: Vec<u8> = out.out.clone();
                        for cl in &out.calls {
                            res.extend_from_slice(format!("|{:?},{},{},{},{}", cl.res, cl.read, cl.written, cl.flag, cl.pending_after).as_bytes());
                        }
                        for f in &out.faults {
                            res.extend_from_slice(format!("!{:?}", f.kind).as_bytes());
                        }
                        let nt = h.text.iter().any(|c| *c >= 0x80);
                        acc.case(nt, &res, || h.to_json().to_string());
                    }
                }),
            ));
        }
    }
    // ---- 5. mem conversions and validators / classifiers on seeded cases and planted sweeps
    for (fi, f) in ALL_FNS.iter().cloned().enumerate() {
        for b in 0..(if thorough { 40 } else { 6 }) {
            let seed = ctx.seed;
            jobs.push((
                "mem",
                format!("{}:{}", f.name(), b),
                Box::new(move |acc: &mut Acc| {
                    let c = Ctx { prop: "C17".into(), tier: Tier::Quick, seed, threads: 1, scale: 1.0 };
                    let mut r = fw::runner(&c, (100_000 + fi * 1000 + b) as u64);
                    let strat = memgen::mem_case(f, 14);
                    let mut rn = MemRunner::new();
                    for _ in 0..1024 {
                        let mc = strat.new_tree(&mut r).unwrap().current();
                        let rr = rn.run(&mc);
                        let mut res: Vec<u8> = Vec::new();
                        match &rr.out {
                            Some(o) => {
                                for x in &o.ret {
                                    res.extend_from_slice(&x.to_le_bytes());
                                }
                                // outside the documented domain the output is unspecified: only the
                                // return values of in-domain cases are compared
                                if !crate::memchk::reference(&mc).unspecified {
                                    res.extend_from_slice(&o.dst8);
                                    for u in &o.dst16 {
                                        res.extend_from_slice(&u.to_le_bytes());
                                    }
                                }
                            }
                            None => res.extend_from_slice(b"panic"),
                        }
                        let nt = mc.src_len() >= 16;
                        acc.case(nt, &res, || mc.to_json().to_string());
                    }
                }),
            ));
        }
    }
    for f in C14_FNS.iter().chain(C16_FNS.iter()).cloned() {
        for len_block in 0..10usize {
            jobs.push((
                "validators",
                format!("{}:len{}", f.name(), len_block * 16),
                Box::new(move |acc: &mut Acc| {
                    for len in (len_block * 16)..((len_block + 1) * 16) {
                        for fk in 0..4usize {
                            let ncls = if f.is_u16() { memgen::PLANT16.len() } else { memgen::PLANT8.len() };
                            for cls in 0..ncls {
                                for pos in 0..len {
                                    let (mut s8, mut s16) = (vec![], vec![]);
                                    if f.is_u16() {
                                        s16 = memgen::plant16(fk, len, pos, memgen::PLANT16[cls]);
                                    } else {
                                        s8 = memgen::plant8(fk, len, pos, memgen::PLANT8[cls]);
                                    }
                                    let mut vc = valchk::VCase { f, src8: s8, src16: s16, align: (pos + cls) & 15, force_scalar: false };
                                    vc.sanitise();
                                    let al = vc.align;
                                    let mut b8 = vec![0u8; al];
                                    b8.extend_from_slice(&vc.src8);
                                    let mut b16 = vec![0u16; al];
                                    b16.extend_from_slice(&vc.src16);
                                    let got = valchk::call(f, &b8[al..], &b16[al..]);
                                    acc.case(len >= 16, &got.to_le_bytes(), || vc.to_json().to_string());
                                }
                            }
                        }
                    }
                }),
            ));
        }
    }
    // ---- 6. UTF-8 inputs around and above the 64-byte SIMD-validator threshold through the
    //         validator, the UTF-8 decoder and the one-shot decode
    for b in 0..(if thorough { 64 } else { 16 }) {
        let seed = ctx.seed;
        jobs.push((
            "utf8-long",
            format!("{}", b),
            Box::new(move |acc: &mut Acc| {
                let c = Ctx { prop: "C17".into(), tier: Tier::Quick, seed, threads: 1, scale: 1.0 };
                let mut r = fw::runner(&c, (200_000 + b) as u64);
                let strat = crate::gen::stream(algo_for(UTF_8), 30);
                let mut drv = DecDriver::new();
                for _ in 0..512 {
                    let mut bytes = strat.new_tree(&mut r).unwrap().current();
                    while bytes.len() < 64 {
                        let mut more = strat.new_tree(&mut r).unwrap().current();
                        if more.is_empty() {
                            more.push(b'x');
                        }
                        bytes.append(&mut more);
                    }
                    let mut res: Vec<u8> = Vec::new();
                    res.extend_from_slice(&(Encoding::utf8_valid_up_to(&bytes) as u64).to_le_bytes());
                    let (cow, _, had) = UTF_8.decode(&bytes);
                    res.extend_from_slice(cow.as_bytes());
                    res.push(had as u8);
                    res.push(matches!(cow, std::borrow::Cow::Borrowed(_)) as u8);
                    let o = UTF_8.decode_without_bom_handling_and_without_replacement(&bytes);
                    res.push(o.is_some() as u8);
                    for sink in [Sink::Utf8, Sink::Utf16, Sink::String] {
                        let mut h = DecHistory::simple(UTF_8, BomMode::None, sink, true, &bytes);
                        h.caps = vec![bytes.len() / 2 + 8, 64];
                        let out = drv.run(&h);
                        push_u32s(&mut res, &out.scalars(sink).unwrap_or_default());
                        for cl in &out.calls {
                            res.extend_from_slice(format!("|{:?},{},{}", cl.res, cl.read, cl.written).as_bytes());
                        }
                    }
                    acc.case(true, &res, || fw::hex(&bytes));
                }
            }),
        ));
    }
    jobs
}

/// run the corpus; `only` restricts to one block and turns on per-case detail
pub fn compute(ctx: &Ctx, only: Option<(&str, &str)>) -> Vec<Block> {
    let js = jobs(ctx);
    let results: Mutex<Vec<(usize, Block)>> = Mutex::new(Vec::new());
    let next = std::sync::atomic::AtomicUsize::new(0);
    std::thread::scope(|s| {
        for _ in 0..ctx.threads.max(1) {
            s.spawn(|| loop {
                let i = next.fetch_add(1, std::sync::atomic::Ordering::SeqCst);
                if i >= js.len() {
                    break;
                }
                let (section, key, f) = &js[i];
                if let Some((s, k)) = only {
                    if *section != s || key != k {
                        continue;
                    }
                }
                let mut acc = Acc::new(only.is_some());
                f(&mut acc);
                results.lock().unwrap().push((i, Block { section, key: key.clone(), hash: acc.hash, cases: acc.cases, nontrivial: acc.nontrivial, detail: acc.detail.unwrap_or_default() }));
            });
        }
    });
    let mut v = results.into_inner().unwrap();
    v.sort_by_key(|x| x.0);
    v.into_iter().map(|x| x.1).collect()
}

pub fn digest_main(ctx: &Ctx, out_path: &str, only: Option<(String, String)>) -> i32 {
    if std::env::var("VERIF_FORCE_SCALAR_UTF8").map(|v| v == "1").unwrap_or(false) {
        encoding_rs::verif_hooks::set_force_scalar_utf8(true);
    }
    let t0 = std::time::Instant::now();
    let blocks = compute(ctx, only.as_ref().map(|(a, b)| (a.as_str(), b.as_str())));
    let mut f = std::io::BufWriter::new(std::fs::File::create(out_path).expect("create digest file"));
    let (mut cases, mut nt) = (0u64, 0u64);
    for b in &blocks {
        cases += b.cases;
        nt += b.nontrivial;
        if only.is_some() {
            for d in &b.detail {
                writeln!(f, "{}", d).unwrap();
            }
        } else {
            writeln!(f, "{}\t{}\t{:016x}\t{}", b.section, b.key, b.hash, b.cases).unwrap();
        }
    }
    if only.is_none() {
        writeln!(f, "#stats\t{}\t{}\t{:.2}", cases, nt, t0.elapsed().as_secs_f64()).unwrap();
    }
    0
}
