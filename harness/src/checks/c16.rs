//! C16 - mem classification and bidi checks equal their per-character definitions.
use super::valfam::{self, ValFamily};
use crate::fw::{self, par_run, Ctx, Stats, Violation};
use crate::valchk::{ref_char_bidi, ref_unit_bidi, VCase, VFn, VRunner, C16_FNS};
use encoding_rs::mem;
use serde_json::json;
use std::time::Instant;

pub const RULE: &str = "case = (function, buffer, alignment): (a) every scalar value for is_char_bidi and every code unit for is_utf16_code_unit_bidi against the documented right-to-left set (U+0590-08FF, U+FB1D-FDFF, U+FE70-FEFE, U+10800-10FFF, U+1E800-1EFFF, U+200F/202B/202E/2067; for code units the BMP part plus high surrogates D802/D803/D83A/D83B), and every scalar / code unit alone through the buffer functions; (b) ~130 boundary scalars (each edge of every range +-1, surrogate-pair edges, U+FEFF, Latin1 edge) planted at every position of buffers of every length 0..=L over ASCII, Latin1 and non-Latin1 left-to-right filler, invalid UTF-8 of every class for is_utf8_bidi / is_utf8_latin1 / check_utf8_*; (c) seeded random token streams. Oracle = iterator-based definitions written from the documentation (all(|u| u < 0x80 / <= 0xFF), from_utf8, any(rtl)); check_* = composition of the two separate reference checks. Non-trivial = planted unit not at index 0 or length >= 16; distinct = distinct (function, buffer, alignment).";

fn boundary_scalars() -> Vec<u32> {
    let mut v = Vec::new();
    for e in [0x7Fu32, 0x80, 0xFF, 0x100, 0x590, 0x8FF, 0x900, 0x200F, 0x202B, 0x202E, 0x2067, 0xD7FF, 0xE000, 0xFB1D, 0xFDFF, 0xFE00, 0xFE6F, 0xFE70, 0xFEFE, 0xFEFF, 0xFFFF, 0x10000, 0x107FF, 0x10800, 0x10FFF, 0x11000, 0x1E7FF, 0x1E800, 0x1EFFF, 0x1F000, 0x10FFFF, 0x7FF, 0x800, 0x2000, 0x2010, 0x202A, 0x202F, 0x2066, 0x2068] {
        for d in [-1i64, 0, 1] {
            let c = e as i64 + d;
            if c >= 0 && c <= 0x10FFFF && !(0xD800..=0xDFFF).contains(&c) {
                v.push(c as u32);
            }
        }
    }
    v.sort();
    v.dedup();
    v
}

fn singles(ctx: &Ctx) -> Stats {
    let mut st = par_run(ctx, 17, |plane, st| {
        let mut rn = VRunner::new();
        for cp in (plane as u32 * 0x10000)..((plane as u32 + 1) * 0x10000) {
            if let Some(ch) = char::from_u32(cp) {
                st.evals += 1;
                st.nontrivial_enum += (cp >= 0x80) as u64;
                if mem::is_char_bidi(ch) != ref_char_bidi(cp) {
                    st.violations.push(Violation { msg: format!("is_char_bidi(U+{:04X}) = {} but the documented right-to-left set says {}", cp, mem::is_char_bidi(ch), ref_char_bidi(cp)), sig: "C16:is_char_bidi".into(), case: json!({"kind": "char_bidi", "scalar_hex": format!("{:X}", cp)}) });
                    return;
                }
                // the scalar alone through every str / utf8 / utf16 buffer function (thinned above the BMP)
                if cp < 0x10000 || cp % 17 == 0 || (0x10700..0x11100).contains(&cp) || (0x1E700..0x1F100).contains(&cp) {
                    let mut b = [0u8; 4];
                    let s8 = ch.encode_utf8(&mut b).as_bytes().to_vec();
                    let mut u = [0u16; 2];
                    let s16 = ch.encode_utf16(&mut u).to_vec();
                    for f in C16_FNS {
                        let c = VCase { f, src8: if f.is_u16() { vec![] } else { s8.clone() }, src16: if f.is_u16() { s16.clone() } else { vec![] }, align: 0, force_scalar: false };
                        st.evals += 1;
                        st.nontrivial_enum += (cp >= 0x80) as u64;
                        if let Some(m) = rn.judge(&c) {
                            st.violations.push(Violation { msg: format!("U+{:04X} alone: {}", cp, m), sig: format!("val:{}", f.name()), case: c.to_json() });
                            return;
                        }
                    }
                }
            }
            if cp < 0x10000 {
                let u = cp as u16;
                st.evals += 1;
                st.nontrivial_enum += (cp >= 0x80) as u64;
                if mem::is_utf16_code_unit_bidi(u) != ref_unit_bidi(u) {
                    st.violations.push(Violation { msg: format!("is_utf16_code_unit_bidi({:04X}) = {} but the documented set says {}", u, mem::is_utf16_code_unit_bidi(u), ref_unit_bidi(u)), sig: "C16:is_utf16_code_unit_bidi".into(), case: json!({"kind": "unit_bidi", "unit_hex": format!("{:X}", u)}) });
                    return;
                }
                // the unit alone (incl. lone surrogates) through the UTF-16 buffer functions
                for f in [VFn::IsBasicLatin, VFn::IsUtf16Latin1, VFn::IsUtf16Bidi, VFn::CheckUtf16] {
                    let c = VCase { f, src8: vec![], src16: vec![u], align: 0, force_scalar: false };
                    st.evals += 1;
                    if let Some(m) = rn.judge(&c) {
                        st.violations.push(Violation { msg: format!("code unit {:04X} alone: {}", u, m), sig: format!("val:{}", f.name()), case: c.to_json() });
                        return;
                    }
                }
            }
        }
        st.sample(1, || json!({"plane": plane, "what": "every scalar value through is_char_bidi (and, BMP completely / astral thinned, alone through all buffer functions); every code unit through is_utf16_code_unit_bidi and the UTF-16 buffer functions"}));
    });
    st.exhaustive.push("is_char_bidi on every scalar value; is_utf16_code_unit_bidi on every code unit; every BMP scalar and every code unit alone through all buffer functions".into());
    st
}

pub fn run(ctx: &Ctx) -> i32 {
    let t0 = Instant::now();
    let thorough = ctx.tier == fw::Tier::Thorough;
    let mut st = singles(ctx);
    if !fw::should_stop() {
        let b = boundary_scalars();
        let extra8: Vec<Vec<u8>> = b.iter().map(|c| char::from_u32(*c).unwrap().to_string().into_bytes()).collect();
        let mut extra16: Vec<Vec<u16>> = b.iter().map(|c| char::from_u32(*c).unwrap().to_string().encode_utf16().collect()).collect();
        for hs in [0xD801u16, 0xD802, 0xD803, 0xD804, 0xD839, 0xD83A, 0xD83B, 0xD83C] {
            extra16.push(vec![hs]);
            extra16.push(vec![hs, 0xDC00]);
            extra16.push(vec![hs, 0xDFFF]);
        }
        let fam = ValFamily {
            fns: C16_FNS.to_vec(),
            max_len: ctx.tier.pick(48, 96),
            aligns: if thorough { vec![0, 1, 2, 7, 8, 15] } else { vec![0, 3] },
            two_defects: true,
            random_per_fn: ctx.n(30_000, 1_000_000),
            max_tokens: ctx.tier.pick(14, 40),
            force_scalar: false,
            extra_units8: extra8,
            extra_units16: extra16,
        };
        st.merge(valfam::run_val_family(ctx, &fam));
    }
    fw::finish(ctx, st, RULE, &["the right-to-left set is the block list documented in the source comment of is_char_bidi / the doc text of the bidi functions", "std::str::from_utf8 is correct"], t0.elapsed().as_secs_f64()).exit
}

pub fn replay(case: &serde_json::Value) -> Option<Vec<Violation>> {
    match case.get("kind").and_then(|k| k.as_str()) {
        Some("char_bidi") => {
            let cp = u32::from_str_radix(case.get("scalar_hex")?.as_str()?, 16).ok()?;
            let ch = char::from_u32(cp)?;
            Some(if mem::is_char_bidi(ch) != ref_char_bidi(cp) { vec![Violation { msg: format!("is_char_bidi(U+{:04X}) disagrees with the documented set", cp), sig: "C16:is_char_bidi".into(), case: case.clone() }] } else { vec![] })
        }
        Some("unit_bidi") => {
            let u = u16::from_str_radix(case.get("unit_hex")?.as_str()?, 16).ok()?;
            Some(if mem::is_utf16_code_unit_bidi(u) != ref_unit_bidi(u) { vec![Violation { msg: format!("is_utf16_code_unit_bidi({:04X}) disagrees with the documented set", u), sig: "C16:is_utf16_code_unit_bidi".into(), case: case.clone() }] } else { vec![] })
        }
        _ => valfam::replay_val(case),
    }
}
