//! C02 - decoder results do not depend on how input and output are chunked.
use super::dech::{self, DecCheck};
use crate::drive_dec::{BomMode, Sink};
use crate::encs;
use crate::fw::{self, Ctx};
use crate::hist::{self, Profile};
use std::time::Instant;

pub const RULE: &str = "case = decoder history (encoding, BOM mode, sink, replacement on/off, stream, cut set incl. empty chunks, last on data or on an extra empty call, capacity sequence >= documented minimum, fill, alignment) run through the documented caller loop; oracle = logical result (scalars, had_errors OR, absolute malformed (start,len) list, final encoding()) of the single-call ample-buffer run of the same stream, and agreement of the UTF-8 and UTF-16 output forms. Core is bounded-exhaustive (streams from representative atoms x all cut sets x capacity patterns), the rest seeded random histories on grammar streams. Non-trivial = a cut strictly inside a multi-byte sequence / escape / BOM candidate, or at least one OutputFull; distinct = distinct history (by construction for the enumeration, by content hash for random ones).";

fn check<'a>(ctx: &Ctx) -> DecCheck<'a> {
    let mut e = encs::multibyte();
    e.extend(encs::single_byte_sample());
    DecCheck {
        verdict: &dech::verdict_c02,
        encs: e,
        modes: vec![BomMode::None, BomMode::Sniff],
        sinks: vec![Sink::Utf8, Sink::Utf16],
        repls: vec![false, true],
        cap_patterns: &|s| hist::cap_patterns(s, false),
        core_max_len: ctx.tier.pick(6, 8),
        triples: ctx.tier == fw::Tier::Thorough,
        bom_prefixes: true,
        random_per_enc: ctx.n(3_000, 150_000),
        profile: Profile { max_tokens: ctx.tier.pick(10, 40), small_caps_weight: 128, queries: false, exact_queries: false, modes: &hist::ALL_MODES, sinks: &hist::ALL_SINKS, bom_prefix_weight: 48 },
        fills: vec![0xA5, 0x00, 0xFF],
        mixed_sinks: true,
        mixed_all: false,
    }
}

pub fn run(ctx: &Ctx) -> i32 {
    let t0 = Instant::now();
    let c = check(ctx);
    let st = dech::run_dec_check(ctx, &c);
    fw::finish(ctx, st, RULE, &["the single-call result is tied to the Standard by C01; C02 itself is model-free", "capacities are never below the documented minimum (4 bytes / 2 units)"], t0.elapsed().as_secs_f64()).exit
}

pub fn replay(case: &serde_json::Value) -> Option<Vec<fw::Violation>> {
    dech::replay_with(case, &dech::verdict_c02)
}
