//! C06 - conversions stay inside caller buffers and honour the read/written contract.
use super::dech::{self, DecCheck};
use super::ench::{self, EncCheck};
use super::memfam::{self, MemFamily};
use crate::drive_dec::{BomMode, Sink};
use crate::drive_enc::{ESink, Src};
use crate::encs;
use crate::fw::{self, Ctx};
use crate::hist::{self, Profile};
use crate::hist_enc::{self, EProfile};
use std::time::Instant;

pub const RULE: &str = "case = decoder history / encoder history / mem call with source and destination carved out of larger buffers at alignments 0..15 with 32-unit guard bands, destination lengths from the documented minimum upward, arbitrary prior converter state (reached by the history), arbitrary contents; documented preconditions are respected by the generator. Oracle (invariant per call) = read <= src.len(), written <= dst.len(), guard bands intact, source unchanged, InputEmpty only with read == src.len(), encoder read ends on a character boundary, no panic, String/Vec variants keep pointer, capacity and old contents. Half of the cases place the source and the slice destination against PROT_NONE guard pages (end of the buffer at the page boundary, or start right after one), so an out-of-bounds READ or write - also through raw pointers or SIMD loads - is a fault in every build, reported with the case as replay; the AddressSanitizer fuzz targets (fuzz/, thorough) add exact-size heap allocations. A separate family offers destinations BELOW the documented minimum (0..=3 bytes, 0..=1 units, 0..=13 bytes with encoder replacement): there a panic or a no-progress OutputFull is accepted, a write outside the destination, read > src.len() or written > dst.len() is not. Non-trivial = input with a non-ASCII unit or a length that is not a multiple of 16; distinct = distinct case.";

const UBAND: usize = 48;

/// Destinations BELOW the documented minimum (decoders: 0..=3 bytes / 0..=1 units; encoders:
/// 0..=3 bytes raw, 0..=13 with replacement).  Such a call may panic (a precondition panic) or
/// report OutputFull without progress; what C06 still demands for "any destination length
/// including zero" is that nothing outside the destination is written, the source is not
/// modified and, when the call returns, read <= src.len() and written <= dst.len().
/// `first_small`: the first chunk also gets the short destination (otherwise an ample one, which
/// is how a converter reaches a mid-sequence state before it meets the short destination).
fn undersized_dec(enc: &'static encoding_rs::Encoding, sniff: bool, method: u8, stream: &[u8], cut: usize, dlen: usize, first_small: bool) -> Option<String> {
    let mut d = if sniff { enc.new_decoder() } else { enc.new_decoder_without_bom_handling() };
    let chunks: [(&[u8], bool); 2] = [(&stream[..cut], false), (&stream[cut..], true)];
    let mut buf8 = vec![0u8; UBAND * 2 + 96];
    let mut buf16 = vec![0u16; UBAND * 2 + 96];
    for (ci, (chunk, last)) in chunks.iter().enumerate() {
        let mut off = 0usize;
        for _call in 0..12 {
            let dl = if ci == 1 || first_small { dlen } else { 64 };
            let dl = if method >= 3 { dl.min(64) / if ci == 1 || first_small { 2 } else { 1 } } else { dl };
            let src: Vec<u8> = chunk[off..].to_vec();
            let src_copy = src.clone();
            for b in buf8.iter_mut() {
                *b = 0xC9;
            }
            for b in buf16.iter_mut() {
                *b = 0xC9C9;
            }
            if method == 2 {
                // &mut str destination: valid filler
                for b in buf8[UBAND..UBAND + dl].iter_mut() {
                    *b = b'x';
                }
            }
            let dsc = crate::guard::Desc { what: "decode into a destination below the documented minimum", encoding: enc.name(), data: src.as_ptr(), len: src.len() };
            let _g = crate::guard::enter(&dsc);
            let r = fw::catch(|| match method {
                0 => {
                    let (r, rd, wr, _) = d.decode_to_utf8(&src, &mut buf8[UBAND..UBAND + dl], *last);
                    (matches!(r, encoding_rs::CoderResult::InputEmpty), false, rd, wr)
                }
                1 => {
                    let (r, rd, wr) = d.decode_to_utf8_without_replacement(&src, &mut buf8[UBAND..UBAND + dl], *last);
                    (matches!(r, encoding_rs::DecoderResult::InputEmpty), matches!(r, encoding_rs::DecoderResult::Malformed(..)), rd, wr)
                }
                2 => {
                    // SAFETY: the window was filled with ASCII above
                    let s = unsafe { std::str::from_utf8_unchecked_mut(&mut buf8[UBAND..UBAND + dl]) };
                    let (r, rd, wr, _) = d.decode_to_str(&src, s, *last);
                    (matches!(r, encoding_rs::CoderResult::InputEmpty), false, rd, wr)
                }
                3 => {
                    let (r, rd, wr, _) = d.decode_to_utf16(&src, &mut buf16[UBAND..UBAND + dl], *last);
                    (matches!(r, encoding_rs::CoderResult::InputEmpty), false, rd, wr)
                }
                _ => {
                    let (r, rd, wr) = d.decode_to_utf16_without_replacement(&src, &mut buf16[UBAND..UBAND + dl], *last);
                    (matches!(r, encoding_rs::DecoderResult::InputEmpty), matches!(r, encoding_rs::DecoderResult::Malformed(..)), rd, wr)
                }
            });
            let what = |m: &str| {
                Some(format!(
                    "{} into a {}-unit destination (src = [{}], last = {}, fed before: [{}]): {}{}",
                    ["decode_to_utf8", "decode_to_utf8_without_replacement", "decode_to_str", "decode_to_utf16", "decode_to_utf16_without_replacement"][method as usize],
                    dl,
                    fw::hex(&src_copy),
                    last,
                    fw::hex(&stream[..(if ci == 0 { off } else { cut + off })]),
                    m,
                    match &r {
                        Ok(_) => String::new(),
                        Err(p) => format!(" (the call panicked: {})", p),
                    }
                ))
            };
            if method <= 2 {
                if buf8[..UBAND].iter().any(|b| *b != 0xC9) || buf8[UBAND + dl..].iter().any(|b| *b != 0xC9) {
                    let lo = buf8[..UBAND].iter().rposition(|b| *b != 0xC9).map(|p| UBAND - p);
                    let hi = buf8[UBAND + dl..].iter().rposition(|b| *b != 0xC9).map(|p| p + 1);
                    return what(&format!("bytes outside the destination were written (up to {:?} before / {:?} after it)", lo, hi));
                }
            } else if buf16[..UBAND].iter().any(|b| *b != 0xC9C9) || buf16[UBAND + dl..].iter().any(|b| *b != 0xC9C9) {
                return what("code units outside the destination were written");
            }
            if src != src_copy {
                return what("the source was modified");
            }
            match r {
                Err(_) => return None,
                Ok((input_empty, malformed, read, written)) => {
                    if read > src.len() {
                        return what(&format!("read = {} exceeds the source length {}", read, src.len()));
                    }
                    if written > dl {
                        return what(&format!("written = {} exceeds the destination length {}", written, dl));
                    }
                    if input_empty && read != src.len() {
                        return what(&format!("InputEmpty with read = {} of {}", read, src.len()));
                    }
                    off += read;
                    if input_empty {
                        break;
                    }
                    if read == 0 && written == 0 && !malformed {
                        return None;
                    }
                }
            }
        }
    }
    None
}

fn undersized_enc(enc: &'static encoding_rs::Encoding, utf16: bool, repl: bool, text: &[u32], cut: usize, dlen: usize, first_small: bool) -> Option<String> {
    let mut e = enc.new_encoder();
    let mut buf8 = vec![0u8; UBAND * 2 + 128];
    let chunks: [(&[u32], bool); 2] = [(&text[..cut], false), (&text[cut..], true)];
    for (ci, (chunk, last)) in chunks.iter().enumerate() {
        let st: String = chunk.iter().map(|c| char::from_u32(*c).unwrap()).collect();
        let s16: Vec<u16> = st.encode_utf16().collect();
        let total = if utf16 { s16.len() } else { st.len() };
        let mut off = 0usize;
        for _call in 0..16 {
            let dl = if ci == 1 || first_small { dlen } else { 96 };
            for b in buf8.iter_mut() {
                *b = 0xC9;
            }
            let r = fw::catch(|| {
                let dst = &mut buf8[UBAND..UBAND + dl];
                if repl {
                    let (r, rd, wr, _) = if utf16 { e.encode_from_utf16(&s16[off..], dst, *last) } else { e.encode_from_utf8(&st[off..], dst, *last) };
                    (matches!(r, encoding_rs::CoderResult::InputEmpty), false, rd, wr)
                } else {
                    let (r, rd, wr) = if utf16 { e.encode_from_utf16_without_replacement(&s16[off..], dst, *last) } else { e.encode_from_utf8_without_replacement(&st[off..], dst, *last) };
                    (matches!(r, encoding_rs::EncoderResult::InputEmpty), matches!(r, encoding_rs::EncoderResult::Unmappable(..)), rd, wr)
                }
            });
            let what = |m: &str| {
                Some(format!(
                    "encode_from_{}{} into a {}-byte destination (chunk #{} of text [{}] cut at {}, offset {}, last = {}): {}{}",
                    if utf16 { "utf16" } else { "utf8" },
                    if repl { "" } else { "_without_replacement" },
                    dl,
                    ci,
                    fw::hex32(text),
                    cut,
                    off,
                    last,
                    m,
                    match &r {
                        Ok(_) => String::new(),
                        Err(p) => format!(" (the call panicked: {})", p),
                    }
                ))
            };
            if buf8[..UBAND].iter().any(|b| *b != 0xC9) || buf8[UBAND + dl..].iter().any(|b| *b != 0xC9) {
                return what("bytes outside the destination were written");
            }
            match r {
                Err(_) => return None,
                Ok((input_empty, unmappable, read, written)) => {
                    if read > total - off {
                        return what(&format!("read = {} exceeds the source length {}", read, total - off));
                    }
                    if written > dl {
                        return what(&format!("written = {} exceeds the destination length {}", written, dl));
                    }
                    if !utf16 && !st.is_char_boundary(off + read) {
                        return what(&format!("read = {} ends inside a character", read));
                    }
                    if input_empty && off + read != total {
                        return what(&format!("InputEmpty with {} of {} units read", off + read, total));
                    }
                    off += read;
                    if input_empty {
                        break;
                    }
                    if read == 0 && written == 0 && !unmappable {
                        return None;
                    }
                }
            }
        }
    }
    None
}

fn undersized(ctx: &Ctx) -> fw::Stats {
    use crate::model_dec::algo_for;
    use serde_json::json;
    let all = encs::all();
    let thorough = ctx.tier == fw::Tier::Thorough;
    let mut total = fw::par_run(ctx, all.len() * 2, |part, st| {
        let enc = all[part / 2];
        let sniff = part % 2 == 1;
        let algo = algo_for(enc);
        let mut streams = hist::core_streams(algo, if thorough { 6 } else { 5 }, false);
        if sniff {
            for b in crate::gen::BOMISH {
                for tail in [&b""[..], b"a", b"\xE4"] {
                    streams.push([b, tail].concat());
                }
            }
        }
        for stream in &streams {
            if fw::should_stop() {
                return;
            }
            for cut in 0..=stream.len() {
                for method in 0..5u8 {
                    for dlen in 0..=(if method >= 3 { 1usize } else { 3 }) {
                        for first_small in [false, true] {
                            st.evals += 1;
                            if !stream.is_empty() {
                                st.nontrivial_distinct();
                            }
                            st.class("decoder-destination-below-the-documented-minimum");
                            let dl = if method >= 3 { dlen * 2 } else { dlen };
                            if let Some(msg) = undersized_dec(enc, sniff, method, stream, cut, dl, first_small) {
                                st.violations.push(fw::Violation {
                                    msg: format!("{} [{}]: {}", enc.name(), if sniff { "sniffing" } else { "no BOM handling" }, msg),
                                    sig: "C06:undersized-dec".into(),
                                    case: json!({"kind": "c06_undersized_dec", "encoding": encs::const_name(enc), "sniff": sniff, "method": method, "stream_hex": fw::hex(stream), "cut": cut, "dst_len": dl, "first_small": first_small}),
                                });
                                return;
                            }
                        }
                    }
                }
            }
        }
        st.sample(1, || json!({"kind": "c06_undersized_dec", "encoding": encs::const_name(enc), "sniff": sniff, "streams": streams.len(), "methods": 5, "dst_len": "0..=3 bytes / 0..=1 units"}));
    });
    total.exhaustive.push("decoders: 40 encodings x with/without sniffing x every atom and atom pair (up to 5 bytes) x every cut incl. the empty final call x 5 slice/str methods x every destination length below the documented minimum".into());
    if fw::should_stop() {
        return total;
    }
    let ee = encs::all();
    let st2 = fw::par_run(ctx, ee.len(), |part, st| {
        let enc = ee[part];
        let alpha: Vec<u32> = hist_enc::alphabet(enc).into_iter().filter(|c| !crate::drive_enc::is_sur(*c)).collect();
        let mut texts: Vec<Vec<u32>> = alpha.iter().map(|c| vec![*c]).collect();
        for a in &alpha {
            for b in &alpha {
                texts.push(vec![*a, *b]);
            }
        }
        for text in &texts {
            if fw::should_stop() {
                return;
            }
            for cut in 0..=text.len() {
                for utf16 in [false, true] {
                    for repl in [false, true] {
                        let dls: &[usize] = if repl { &[0, 1, 2, 3, 5, 9, 10, 11, 12, 13] } else { &[0, 1, 2, 3] };
                        for &dlen in dls {
                            for first_small in [false, true] {
                                st.evals += 1;
                                st.nontrivial_distinct();
                                st.class("encoder-destination-below-the-documented-minimum");
                                if let Some(msg) = undersized_enc(enc, utf16, repl, text, cut, dlen, first_small) {
                                    st.violations.push(fw::Violation {
                                        msg: format!("{}: {}", enc.name(), msg),
                                        sig: "C06:undersized-enc".into(),
                                        case: json!({"kind": "c06_undersized_enc", "encoding": encs::const_name(enc), "utf16": utf16, "replacement": repl, "text_hex": fw::hex32(text), "cut": cut, "dst_len": dlen, "first_small": first_small}),
                                    });
                                    return;
                                }
                            }
                        }
                    }
                }
            }
        }
    });
    total.merge(st2);
    total.exhaustive.push("encoders: 40 encodings x every alphabet character and pair x every cut x UTF-8/UTF-16 source x raw (destinations 0..=3) / replacement (0..=13)".into());
    total
}

/// String / Vec receivers whose allocation is page-aligned at BOTH ends (so the spare capacity ends
/// exactly on a 4 KiB boundary, which an ordinary malloc'ed buffer never does) with the used part
/// ending at every interesting offset: the receiver methods touch the spare capacity page by page
/// before converting into it.  No panic, no reallocation, old contents intact, output appended.
fn page_aligned_receivers(ctx: &Ctx) -> fw::Stats {
    use serde_json::json;
    use std::alloc::{alloc, dealloc, Layout};
    let encs_: Vec<&'static encoding_rs::Encoding> = vec![encoding_rs::UTF_8, encoding_rs::WINDOWS_1252, encoding_rs::SHIFT_JIS, encoding_rs::GB18030, encoding_rs::UTF_16LE, encoding_rs::ISO_2022_JP];
    fw::par_run(ctx, encs_.len() * 4, |part, st| {
        let enc = encs_[part / 4];
        let pages = 1 + part % 4;
        let size = pages * 4096;
        let layout = Layout::from_size_align(size, 4096).unwrap();
        let mut useds: Vec<usize> = vec![0, 1, 2, 15, 16, 17, 100];
        for pg in 1..=pages {
            for d in [-17i64, -16, -5, -4, -3, -2, -1, 0, 1, 2, 16] {
                let u = pg as i64 * 4096 + d;
                if u >= 0 && (u as usize) < size {
                    useds.push(u as usize);
                }
            }
        }
        useds.sort();
        useds.dedup();
        let srcs: [&[u8]; 4] = [b"", b"a", b"ab\x82\xA0c", b"\xFF\xFEa\x00"];
        let texts: [&str; 3] = ["", "a", "a\u{E9}\u{3042}z"];
        for &used in &useds {
            for slack in [0usize, 1, 16] {
                if used + slack > size {
                    continue;
                }
                let cap = size - slack;
                if used > cap {
                    continue;
                }
                for method in 0..4u8 {
                    let n_in = if method < 2 { srcs.len() } else { texts.len() };
                    for ii in 0..n_in {
                        if fw::should_stop() {
                            return;
                        }
                        st.evals += 1;
                        st.nontrivial_distinct();
                        st.class("page-aligned-String-or-Vec-receiver");
                        // SAFETY: a fresh allocation of `size` bytes, initialised up to `used`, owned by the
                        // String / Vec only for the duration of the call and released with its own layout
                        let p = unsafe { alloc(layout) };
                        assert!(!p.is_null());
                        unsafe { std::ptr::write_bytes(p, b'x', used) };
                        let mut problem: Option<String> = None;
                        let (ptr2, len2, cap2);
                        if method < 2 {
                            let mut s = unsafe { String::from_raw_parts(p, used, cap) };
                            let mut d = enc.new_decoder_without_bom_handling();
                            let r = fw::catch(|| {
                                if method == 0 {
                                    let _ = d.decode_to_string(srcs[ii], &mut s, true);
                                } else {
                                    let _ = d.decode_to_string_without_replacement(srcs[ii], &mut s, true);
                                }
                            });
                            if let Err(e) = r {
                                problem = Some(format!("panicked: {}", e));
                            }
                            ptr2 = s.as_ptr();
                            len2 = s.len();
                            cap2 = s.capacity();
                            if problem.is_none() && (ptr2 != p as *const u8 || cap2 != cap) {
                                problem = Some("the String was reallocated".into());
                            } else if problem.is_none() && (len2 < used || len2 > cap || !s.as_bytes()[..used].iter().all(|b| *b == b'x') || std::str::from_utf8(s.as_bytes()).is_err()) {
                                problem = Some(format!("length {} (was {}), old contents intact: {}, valid: {}", len2, used, len2 >= used && s.as_bytes()[..used].iter().all(|b| *b == b'x'), std::str::from_utf8(s.as_bytes()).is_ok()));
                            }
                            std::mem::forget(s);
                        } else {
                            let mut v = unsafe { Vec::from_raw_parts(p, used, cap) };
                            let mut e = enc.new_encoder();
                            let r = fw::catch(|| {
                                if method == 2 {
                                    let _ = e.encode_from_utf8_to_vec(texts[ii], &mut v, true);
                                } else {
                                    let _ = e.encode_from_utf8_to_vec_without_replacement(texts[ii], &mut v, true);
                                }
                            });
                            if let Err(e) = r {
                                problem = Some(format!("panicked: {}", e));
                            }
                            ptr2 = v.as_ptr();
                            len2 = v.len();
                            cap2 = v.capacity();
                            if problem.is_none() && (ptr2 != p as *const u8 || cap2 != cap) {
                                problem = Some("the Vec was reallocated".into());
                            } else if problem.is_none() && (len2 < used || len2 > cap || !v[..used].iter().all(|b| *b == b'x')) {
                                problem = Some(format!("length {} (was {}) or old contents altered", len2, used));
                            }
                            std::mem::forget(v);
                        }
                        if ptr2 == p as *const u8 {
                            unsafe { dealloc(p, layout) };
                        }
                        if let Some(m) = problem {
                            let name = ["decode_to_string", "decode_to_string_without_replacement", "encode_from_utf8_to_vec", "encode_from_utf8_to_vec_without_replacement"][method as usize];
                            st.violations.push(fw::Violation {
                                msg: format!("{} {} into a receiver whose {}-byte allocation is page-aligned at both ends (capacity {}, {} bytes used, spare capacity ends {} byte(s) before a page boundary), input #{}: {}", enc.name(), name, size, cap, used, slack, ii, m),
                                sig: "C06:page-aligned-receiver".into(),
                                case: json!({"kind": "c06_page_receiver", "encoding": encs::const_name(enc), "pages": pages, "used": used, "slack": slack, "method": method, "input": ii}),
                            });
                            return;
                        }
                    }
                }
            }
        }
    })
}

/// The validators and classifiers (C14 / C16 functions) are public functions that read a caller
/// buffer too: each is called on buffers that END at a PROT_NONE page (and on buffers that START
/// right after one), so a read outside the slice faults in every build.  Only faults and panics
/// count here - whether the answer is right is C14's / C16's question.
fn validators_at_guard_pages(ctx: &Ctx) -> fw::Stats {
    use crate::memgen;
    use crate::valchk::{self, C14_FNS, C16_FNS};
    let fns: Vec<valchk::VFn> = C14_FNS.iter().chain(C16_FNS.iter()).cloned().collect();
    fw::par_run(ctx, fns.len(), |part, st| {
        let f = fns[part];
        let mut g = crate::guard::GuardRegion::new(2);
        let mut units8: Vec<Vec<u8>> = memgen::PLANT8.iter().map(|u| u.to_vec()).collect();
        units8.push(vec![0x1B]);
        units8.push(vec![0xED]);
        units8.push(vec![0xED, 0xA0]);
        units8.push(vec![0xED, 0x9F]);
        units8.push(vec![0xE0, 0xA0]);
        units8.push(vec![0xF4, 0x8F, 0xBF]);
        let units16: Vec<Vec<u16>> = memgen::PLANT16.iter().map(|u| u.to_vec()).collect();
        let ncls = if f.is_u16() { units16.len() } else { units8.len() };
        for len in 0..=72usize {
            if fw::should_stop() {
                return;
            }
            for fk in [0usize, 2, 4] {
                for cls in 0..ncls {
                    // the planted unit near the END of the buffer (cut off by it), and once at the start
                    for back in 0..=5usize {
                        if back > len {
                            continue;
                        }
                        let pos = if back == 5 { 0 } else { len - back };
                        let (mut s8, mut s16) = (vec![], vec![]);
                        if f.is_u16() {
                            s16 = memgen::plant16(fk, len, pos, &units16[cls]);
                        } else {
                            s8 = memgen::plant8(fk, len, pos, &units8[cls]);
                            if f.needs_str() {
                                s8 = String::from_utf8_lossy(&s8).into_owned().into_bytes();
                            }
                        }
                        for at_end in [true, false] {
                            st.evals += 1;
                            st.nontrivial_distinct();
                            st.class("validator-or-classifier-on-a-guard-page-fenced-buffer");
                            let r = if f.is_u16() {
                                let b = if at_end { g.end_u16(s16.len()) } else { g.start_u16(s16.len()) };
                                b.copy_from_slice(&s16);
                                let dsc = crate::guard::Desc { what: f.name(), encoding: "-", data: b.as_ptr() as *const u8, len: b.len() * 2 };
                                let _g = crate::guard::enter(&dsc);
                                let bb: &[u16] = b;
                                fw::catch(|| valchk::call(f, &[], bb))
                            } else {
                                let b = if at_end { g.end_u8(s8.len()) } else { g.start_u8(s8.len()) };
                                b.copy_from_slice(&s8);
                                let dsc = crate::guard::Desc { what: f.name(), encoding: "-", data: b.as_ptr(), len: b.len() };
                                let _g = crate::guard::enter(&dsc);
                                let bb: &[u8] = b;
                                fw::catch(|| valchk::call(f, bb, &[]))
                            };
                            if let Err(p) = r {
                                st.violations.push(fw::Violation {
                                    msg: format!("{} panicked on src8 {} src16 [{}] ({} a guard page): {}", f.name(), fw::hex(&s8), fw::hex16(&s16), if at_end { "ending at" } else { "starting after" }, p),
                                    sig: "C06:validator-panic".into(),
                                    case: serde_json::json!({"kind": "c06_validator", "function": f.name(), "src8_hex": fw::hex(&s8), "src16_hex": fw::hex16(&s16), "at_end": at_end}),
                                });
                                return;
                            }
                        }
                    }
                }
            }
        }
    })
}

/// Encoding::for_label is a public function without preconditions: no panic whatever the argument
fn for_label_no_panic(ctx: &Ctx) -> fw::Stats {
    fw::par_run(ctx, 256, |b, st| {
        let b = b as u8;
        let labels = &crate::golden::golden().labels;
        for len in 0..=48usize {
            let v = vec![b; len];
            st.evals += 1;
            st.class("for_label-never-panics");
            if let Err(p) = fw::catch(|| (encoding_rs::Encoding::for_label(&v), encoding_rs::Encoding::for_label_no_replacement(&v))) {
                st.violations.push(fw::Violation { msg: format!("Encoding::for_label panicked on {}: {}", fw::hex(&v), p), sig: "C06:for_label-panic".into(), case: serde_json::json!({"kind": "c06_for_label", "label_hex": fw::hex(&v)}) });
                return;
            }
        }
        // every label extended by 1..=24 copies of this byte (the 20th significant byte is the first
        // one past the longest label)
        for (l, _) in labels.iter().step_by(3) {
            for k in 1..=24usize {
                let mut v = l.as_bytes().to_vec();
                v.extend(std::iter::repeat(b).take(k));
                st.evals += 1;
                st.nontrivial_distinct();
                if let Err(p) = fw::catch(|| (encoding_rs::Encoding::for_label(&v), encoding_rs::Encoding::for_label_no_replacement(&v))) {
                    st.violations.push(fw::Violation { msg: format!("Encoding::for_label panicked on {} ({:?}): {}", fw::hex(&v), String::from_utf8_lossy(&v), p), sig: "C06:for_label-panic".into(), case: serde_json::json!({"kind": "c06_for_label", "label_hex": fw::hex(&v)}) });
                    return;
                }
            }
        }
    })
}

/// the one-shot methods size their own buffers from the length queries and treat OutputFull as
/// unreachable: every sequence of up to three atoms / alphabet characters must go through without a panic
fn one_shot_no_panic(ctx: &Ctx) -> fw::Stats {
    use crate::model_dec::algo_for;
    use serde_json::json;
    let all = encs::all();
    fw::par_run(ctx, all.len(), |part, st| {
        let enc = all[part];
        let algo = algo_for(enc);
        let streams = hist::core_streams(algo, 9, true);
        for sb in &streams {
            if fw::should_stop() {
                return;
            }
            st.evals += 1;
            st.nontrivial_distinct();
            st.class("one-shot-decode-no-panic");
            let dsc = crate::guard::Desc { what: "Encoding::decode* (one-shot)", encoding: enc.name(), data: sb.as_ptr(), len: sb.len() };
            let _g = crate::guard::enter(&dsc);
            let r = fw::catch(|| {
                let _ = enc.decode(sb);
                let _ = enc.decode_with_bom_removal(sb);
                let _ = enc.decode_without_bom_handling(sb);
                let _ = enc.decode_without_bom_handling_and_without_replacement(sb);
            });
            if let Err(p) = r {
                st.violations.push(fw::Violation { msg: format!("{}: a one-shot decode method panicked on {}: {}", enc.name(), fw::hex(sb), p), sig: "C06:one-shot-panic".into(), case: json!({"kind": "c06_one_shot_dec", "encoding": encs::const_name(enc), "bytes_hex": fw::hex(sb)}) });
                return;
            }
        }
        let alpha: Vec<u32> = hist_enc::alphabet(enc).into_iter().filter(|c| !crate::drive_enc::is_sur(*c)).collect();
        let mut t = String::new();
        for &a in &alpha {
            for &b in &alpha {
                for &c in alpha.iter().step_by(3) {
                    st.evals += 1;
                    st.nontrivial_distinct();
                    st.class("one-shot-encode-no-panic");
                    t.clear();
                    for x in [a, b, c] {
                        t.push(char::from_u32(x).unwrap());
                    }
                    let r = fw::catch(|| {
                        let _ = enc.encode(&t);
                    });
                    if let Err(p) = r {
                        st.violations.push(fw::Violation { msg: format!("{}: Encoding::encode panicked on {:?}: {}", enc.name(), t, p), sig: "C06:one-shot-panic".into(), case: json!({"kind": "c06_one_shot_enc", "encoding": encs::const_name(enc), "text_utf8_hex": fw::hex(t.as_bytes())}) });
                        return;
                    }
                }
            }
            if fw::should_stop() {
                return;
            }
        }
    })
}

pub fn run(ctx: &Ctx) -> i32 {
    let t0 = Instant::now();
    // half of the cases (odd alignment selector) run with sources and slice destinations fenced by
    // PROT_NONE guard pages: any access outside them - also by raw-pointer or SIMD loads - faults
    crate::guard::ENABLED.store(true, std::sync::atomic::Ordering::SeqCst);
    let mut e = encs::multibyte();
    e.extend(encs::single_byte_sample());
    let dc = DecCheck {
        verdict: &dech::verdict_c06,
        encs: e,
        modes: vec![BomMode::None, BomMode::Sniff, BomMode::Remove],
        sinks: vec![Sink::Utf8, Sink::Utf16, Sink::Str, Sink::String],
        repls: vec![false, true],
        cap_patterns: &|s| {
            let m = s.min_cap();
            vec![vec![m], vec![m + 1], vec![m + 2], vec![m + 3], vec![9], vec![m, 33], vec![]]
        },
        core_max_len: ctx.tier.pick(6, 8),
        triples: ctx.tier == fw::Tier::Thorough,
        bom_prefixes: true,
        random_per_enc: ctx.n(6_000, 200_000),
        profile: Profile { max_tokens: ctx.tier.pick(14, 48), small_caps_weight: 110, queries: true, exact_queries: false, modes: &hist::ALL_MODES, sinks: &hist::ALL_SINKS, bom_prefix_weight: 48 },
        fills: vec![0xA5, 0x00, 0xFF, 1, 2, 3],
        mixed_sinks: true,
        mixed_all: false,
    };
    let mut st = dech::run_dec_check(ctx, &dc);
    if !fw::should_stop() {
        st.merge(undersized(ctx));
    }
    if !fw::should_stop() {
        st.merge(page_aligned_receivers(ctx));
        st.exhaustive.push("String / Vec receivers in 1..=4-page allocations aligned at both ends x used lengths around every page boundary x capacity ending 0/1/16 bytes before the boundary x 4 receiver methods x 6 encodings x short inputs".into());
    }
    if !fw::should_stop() {
        // the buffer-length queries are public functions too: whatever state the converter is in and
        // however large the length, they must answer (Some / None), not panic.  (Whether the answer
        // is right is C07's question; only panics are kept here.)
        let mut q = super::c07::overflow_family(ctx);
        q.violations.retain(|v| v.msg.contains("panicked"));
        for v in q.violations.iter_mut() {
            v.sig = "C06:query-panic".into();
        }
        q.exhaustive.clear();
        st.merge(q);
        st.exhaustive.push("every max_* query x ~70 lengths up to usize::MAX x every decoder state reachable by an atom / atom-pair / BOM look-alike prefix (3 BOM modes) and encoder states: no panic".into());
    }
    if !fw::should_stop() {
        st.merge(validators_at_guard_pages(ctx));
        st.exhaustive.push("every validator / classifier function x lengths 0..=72 x fillers (letters, 3-byte characters, spaces) x every planted unit class (incl. truncated ED / E0 / F4 sequences) within 4 units of the end and at the start x buffer ending at / starting after a PROT_NONE page: no fault, no panic".into());
    }
    if !fw::should_stop() {
        st.merge(for_label_no_panic(ctx));
        st.exhaustive.push("Encoding::for_label{,_no_replacement}: runs of 0..=48 copies of every byte value, every third label extended by 1..=24 copies of every byte value: no panic".into());
    }
    if !fw::should_stop() {
        st.merge(one_shot_no_panic(ctx));
        st.exhaustive.push("one-shot decode* on every sequence of up to three atoms (9 bytes) and Encoding::encode on alphabet triples, all 40 encodings: no panic".into());
    }
    if !fw::should_stop() {
        let ec = EncCheck {
            verdict: &ench::verdict_c06,
            encs: ench::encoder_encodings(),
            srcs: vec![Src::Utf8, Src::Utf16],
            sinks: vec![ESink::Slice, ESink::Vec],
            repls: vec![false, true],
            cap_patterns: &|r| hist_enc::cap_patterns(r, false),
            core_max_chars: ctx.tier.pick(2, 3),
            core_max_chars_2022: 3,
            random_per_enc: ctx.n(6_000, 200_000),
            profile: EProfile { max_chars: ctx.tier.pick(24, 96), small_caps_weight: 110, queries: true, exact_queries: false, mappable_only: false },
            mappable_only_when_repl: false,
        };
        st.merge(ench::run_enc_check(ctx, &ec));
    }
    if !fw::should_stop() {
        let fam = MemFamily {
            prop: "C06",
            fns: memfam::all_fns(),
            fills_mode: false,
            max_len: ctx.tier.pick(72, 160),
            aligns: if ctx.tier == fw::Tier::Thorough { (0..16).map(|i| (i, (i * 7 + 3) & 15)).collect() } else { vec![(0, 0), (1, 7), (7, 1), (15, 15)] },
            random_per_fn: ctx.n(20_000, 600_000),
            max_tokens: ctx.tier.pick(14, 48),
        };
        st.merge(memfam::run_mem_family(ctx, &fam));
    }
    fw::finish(ctx, st, RULE, &["guard bands see writes within 32 units of the buffer; reads outside a buffer are covered by the ASan fuzz targets only", "convert_utf8_to_latin1_lossy is given Latin1-only input in builds with debug assertions (outside its domain it panics by documentation there)"], t0.elapsed().as_secs_f64()).exit
}

pub fn replay(case: &serde_json::Value) -> Option<Vec<fw::Violation>> {
    crate::guard::ENABLED.store(true, std::sync::atomic::Ordering::SeqCst);
    match case.get("kind").and_then(|k| k.as_str()) {
        Some("mem") => memfam::replay_mem(case, "C06", false),
        Some("enc_history") => ench::replay_with(case, &ench::verdict_c06),
        Some("dec_history") => dech::replay_with(case, &dech::verdict_c06),
        Some("c07_overflow_dec") | Some("c07_overflow_enc") => {
            let ctx = Ctx { prop: "C06".into(), tier: fw::Tier::Quick, seed: 0, threads: 4, scale: 1.0 };
            let mut q = super::c07::overflow_family(&ctx);
            q.violations.retain(|v| v.msg.contains("panicked"));
            Some(q.violations)
        }
        Some("c06_for_label") => {
            let v = fw::unhex(case.get("label_hex")?.as_str()?);
            let r = fw::catch(|| (encoding_rs::Encoding::for_label(&v), encoding_rs::Encoding::for_label_no_replacement(&v)));
            Some(r.err().map(|p| vec![fw::Violation { msg: format!("Encoding::for_label panicked on {}: {}", fw::hex(&v), p), sig: "C06:for_label-panic".into(), case: case.clone() }]).unwrap_or_default())
        }
        Some("c06_validator") => {
            let f = crate::valchk::VFn::from_name(case.get("function")?.as_str()?)?;
            let s8 = fw::unhex(case.get("src8_hex")?.as_str()?);
            let s16 = fw::unhex16(case.get("src16_hex")?.as_str()?);
            let at_end = case.get("at_end")?.as_bool()?;
            let mut g = crate::guard::GuardRegion::new(2);
            let r = if f.is_u16() {
                let b = if at_end { g.end_u16(s16.len()) } else { g.start_u16(s16.len()) };
                b.copy_from_slice(&s16);
                let bb: &[u16] = b;
                fw::catch(|| crate::valchk::call(f, &[], bb))
            } else {
                let b = if at_end { g.end_u8(s8.len()) } else { g.start_u8(s8.len()) };
                b.copy_from_slice(&s8);
                let bb: &[u8] = b;
                fw::catch(|| crate::valchk::call(f, bb, &[]))
            };
            Some(r.err().map(|p| vec![fw::Violation { msg: format!("{} panicked: {}", f.name(), p), sig: "C06:validator-panic".into(), case: case.clone() }]).unwrap_or_default())
        }
        Some("c06_one_shot_dec") => {
            let enc = encs::by_const(case.get("encoding")?.as_str()?)?;
            let b = fw::unhex(case.get("bytes_hex")?.as_str()?);
            let r = fw::catch(|| {
                let _ = enc.decode(&b);
                let _ = enc.decode_with_bom_removal(&b);
                let _ = enc.decode_without_bom_handling(&b);
                let _ = enc.decode_without_bom_handling_and_without_replacement(&b);
            });
            Some(r.err().map(|p| vec![fw::Violation { msg: format!("{}: a one-shot decode method panicked on {}: {}", enc.name(), fw::hex(&b), p), sig: "C06:one-shot-panic".into(), case: case.clone() }]).unwrap_or_default())
        }
        Some("c06_one_shot_enc") => {
            let enc = encs::by_const(case.get("encoding")?.as_str()?)?;
            let t = String::from_utf8(fw::unhex(case.get("text_utf8_hex")?.as_str()?)).ok()?;
            let r = fw::catch(|| {
                let _ = enc.encode(&t);
            });
            Some(r.err().map(|p| vec![fw::Violation { msg: format!("{}: Encoding::encode panicked on {:?}: {}", enc.name(), t, p), sig: "C06:one-shot-panic".into(), case: case.clone() }]).unwrap_or_default())
        }
        Some("c06_page_receiver") => {
            // re-run the whole (small) family: the case is identified by its message
            let ctx = Ctx { prop: "C06".into(), tier: fw::Tier::Quick, seed: 0, threads: 1, scale: 1.0 };
            let st = page_aligned_receivers(&ctx);
            Some(st.violations)
        }
        Some("c06_undersized_dec") => {
            let enc = encs::by_const(case.get("encoding")?.as_str()?)?;
            let stream = fw::unhex(case.get("stream_hex")?.as_str()?);
            let cut = (case.get("cut")?.as_u64()? as usize).min(stream.len());
            let r = undersized_dec(enc, case.get("sniff")?.as_bool()?, case.get("method")?.as_u64()? as u8, &stream, cut, case.get("dst_len")?.as_u64()? as usize, case.get("first_small")?.as_bool()?);
            Some(r.map(|m| vec![fw::Violation { msg: format!("{}: {}", enc.name(), m), sig: "C06:undersized-dec".into(), case: case.clone() }]).unwrap_or_default())
        }
        Some("c06_undersized_enc") => {
            let enc = encs::by_const(case.get("encoding")?.as_str()?)?;
            let text = fw::unhex32(case.get("text_hex")?.as_str()?);
            let cut = (case.get("cut")?.as_u64()? as usize).min(text.len());
            let r = undersized_enc(enc, case.get("utf16")?.as_bool()?, case.get("replacement")?.as_bool()?, &text, cut, case.get("dst_len")?.as_u64()? as usize, case.get("first_small")?.as_bool()?);
            Some(r.map(|m| vec![fw::Violation { msg: format!("{}: {}", enc.name(), m), sig: "C06:undersized-enc".into(), case: case.clone() }]).unwrap_or_default())
        }
        _ => None,
    }
}
