//! C06 - conversions stay inside caller buffers and honour the read/written contract.
use super::dech::{self, DecCheck};
use super::ench::{self, EncCheck};
use super::memfam::{self, MemFamily};
use crate::drive_dec::{BomMode, Sink};
use crate::drive_enc::{ESink, Src};
use crate::encs;
use crate::fw::{self, Ctx};
use crate::hist::{self, Profile};
use crate::hist_enc::{self, EProfile};
use std::time::Instant;

pub const RULE: &str = "case = decoder history / encoder history / mem call with source and destination carved out of larger buffers at alignments 0..15 with 32-unit guard bands, destination lengths from the documented minimum upward, arbitrary prior converter state (reached by the history), arbitrary contents; documented preconditions are respected by the generator. Oracle (invariant per call) = read <= src.len(), written <= dst.len(), guard bands intact, source unchanged, InputEmpty only with read == src.len(), encoder read ends on a character boundary, no panic, String/Vec variants keep pointer, capacity and old contents. Half of the cases place the source and the slice destination against PROT_NONE guard pages (end of the buffer at the page boundary, or start right after one), so an out-of-bounds READ or write - also through raw pointers or SIMD loads - is a fault in every build, reported with the case as replay; the AddressSanitizer fuzz targets (fuzz/, thorough) add exact-size heap allocations. Non-trivial = input with a non-ASCII unit or a length that is not a multiple of 16; distinct = distinct case.";

pub fn run(ctx: &Ctx) -> i32 {
    let t0 = Instant::now();
    // half of the cases (odd alignment selector) run with sources and slice destinations fenced by
    // PROT_NONE guard pages: any access outside them - also by raw-pointer or SIMD loads - faults
    crate::guard::ENABLED.store(true, std::sync::atomic::Ordering::SeqCst);
    let mut e = encs::multibyte();
    e.extend(encs::single_byte_sample());
    let dc = DecCheck {
        verdict: &dech::verdict_c06,
        encs: e,
        modes: vec![BomMode::None, BomMode::Sniff, BomMode::Remove],
        sinks: vec![Sink::Utf8, Sink::Utf16, Sink::Str, Sink::String],
        repls: vec![false, true],
        cap_patterns: &|s| {
            let m = s.min_cap();
            vec![vec![m], vec![m + 1], vec![m + 2], vec![m + 3], vec![9], vec![m, 33], vec![]]
        },
        core_max_len: ctx.tier.pick(6, 8),
        triples: ctx.tier == fw::Tier::Thorough,
        bom_prefixes: true,
        random_per_enc: ctx.n(6_000, 200_000),
        profile: Profile { max_tokens: ctx.tier.pick(14, 48), small_caps_weight: 110, queries: true, exact_queries: false, modes: &hist::ALL_MODES, sinks: &hist::ALL_SINKS, bom_prefix_weight: 48 },
        fills: vec![0xA5, 0x00, 0xFF, 1, 2, 3],
        mixed_sinks: true,
        mixed_all: false,
    };
    let mut st = dech::run_dec_check(ctx, &dc);
    if !fw::should_stop() {
        let ec = EncCheck {
            verdict: &ench::verdict_c06,
            encs: ench::encoder_encodings(),
            srcs: vec![Src::Utf8, Src::Utf16],
            sinks: vec![ESink::Slice, ESink::Vec],
            repls: vec![false, true],
            cap_patterns: &|r| hist_enc::cap_patterns(r, false),
            core_max_chars: ctx.tier.pick(2, 3),
            core_max_chars_2022: 3,
            random_per_enc: ctx.n(6_000, 200_000),
            profile: EProfile { max_chars: ctx.tier.pick(24, 96), small_caps_weight: 110, queries: true, exact_queries: false, mappable_only: false },
            mappable_only_when_repl: false,
        };
        st.merge(ench::run_enc_check(ctx, &ec));
    }
    if !fw::should_stop() {
        let fam = MemFamily {
            prop: "C06",
            fns: memfam::all_fns(),
            fills_mode: false,
            max_len: ctx.tier.pick(72, 160),
            aligns: if ctx.tier == fw::Tier::Thorough { (0..16).map(|i| (i, (i * 7 + 3) & 15)).collect() } else { vec![(0, 0), (1, 7), (7, 1), (15, 15)] },
            random_per_fn: ctx.n(20_000, 600_000),
            max_tokens: ctx.tier.pick(14, 48),
        };
        st.merge(memfam::run_mem_family(ctx, &fam));
    }
    fw::finish(ctx, st, RULE, &["guard bands see writes within 32 units of the buffer; reads outside a buffer are covered by the ASan fuzz targets only", "convert_utf8_to_latin1_lossy is given Latin1-only input in builds with debug assertions (outside its domain it panics by documentation there)"], t0.elapsed().as_secs_f64()).exit
}

pub fn replay(case: &serde_json::Value) -> Option<Vec<fw::Violation>> {
    crate::guard::ENABLED.store(true, std::sync::atomic::Ordering::SeqCst);
    match case.get("kind").and_then(|k| k.as_str()) {
        Some("mem") => memfam::replay_mem(case, "C06", false),
        Some("enc_history") => ench::replay_with(case, &ench::verdict_c06),
        Some("dec_history") => dech::replay_with(case, &dech::verdict_c06),
        _ => None,
    }
}
