//! C12 - encoder output is always valid target-encoding text that decodes to the input.
use super::ench::{self, EScratch, EncCheck};
use crate::drive_enc::{ESink, EncHistory, Src};
use crate::encs;
use crate::fw::{self, par_run, Ctx, Stats, Violation};
use serde_json::json;
use crate::hist_enc::{self, EProfile};
use encoding_rs::*;
use std::time::Instant;

pub const RULE: &str = "case = encoder history as in C04, plus every scalar value alone and embedded as 'a X b' / 'U+3042 X U+3042' for the multi-byte and stateful encoders; oracle = round trip with per-prefix invariants: after every call the accumulated bytes are accepted without error by a fresh no-BOM decoder of the output encoding, has_pending_state() equals 'the last escape in the accumulated ISO-2022-JP bytes is not ESC ( B' (false for other encodings), after the final InputEmpty the ISO-2022-JP stream is in ASCII, and decoding the complete output equals the input with each unmappable replaced by its NCR text and with the Standard's fixed folding set applied (typed in from the Standard). The one-shot Encoding::encode is held to the same round trip on texts of k long-reference characters + a mapped non-ASCII character + an ASCII tail for every k (its buffer regrowth must not lose the return to ASCII). A further family uses capacities BELOW the size that guarantees progress (the per-call invariants are unconditional; a history that stops making progress simply ends). Non-trivial = non-ASCII text with at least two calls; distinct = distinct history.";

fn check<'a>(ctx: &Ctx) -> EncCheck<'a> {
    EncCheck {
        verdict: &ench::verdict_c12,
        encs: ench::encoder_encodings(),
        srcs: vec![Src::Utf8, Src::Utf16],
        sinks: vec![ESink::Slice],
        repls: vec![false, true],
        cap_patterns: &|r| {
            let m = if r { 14 } else { 4 };
            vec![vec![m], vec![m + 1], vec![m + 3], vec![m + 6], vec![]]
        },
        core_max_chars: 2,
        core_max_chars_2022: ctx.tier.pick(2, 3),
        random_per_enc: ctx.n(5_000, 150_000),
        profile: EProfile { max_chars: ctx.tier.pick(12, 64), small_caps_weight: 140, queries: false, exact_queries: false, mappable_only: false },
        mappable_only_when_repl: false,
    }
}

/// every scalar alone and embedded, through the multi-byte / stateful encoders
fn scalar_sweep(ctx: &Ctx) -> Stats {
    let encs: Vec<&'static Encoding> = vec![BIG5, EUC_JP, EUC_KR, GBK, GB18030, ISO_2022_JP, SHIFT_JIS, UTF_8, X_USER_DEFINED, WINDOWS_1252, WINDOWS_874, KOI8_U];
    let thorough = ctx.tier == fw::Tier::Thorough;
    let mut st = par_run(ctx, encs.len() * 17, |part, st| {
        let enc = encs[part / 17];
        let plane = (part % 17) as u32;
        let mut sc = EScratch::new();
        // quick: BMP + plane 1, 2 completely, other planes sampled; thorough: everything
        let step = if thorough || plane <= 2 { 1 } else { 61 };
        let mut cp = plane * 0x10000;
        while cp < (plane + 1) * 0x10000 {
            if fw::should_stop() {
                return;
            }
            if !crate::drive_enc::is_sur(cp) {
                for (ti, text) in [vec![cp], vec![0x61, cp, 0x62], vec![0x3042, cp, 0x3042]].iter().enumerate() {
                    if ti > 0 && cp < 0x80 && !matches!(cp, 0x0E | 0x0F | 0x1B | 0x5C | 0x7E) {
                        continue;
                    }
                    let mut h = EncHistory::simple(enc, if cp & 1 == 0 { Src::Utf8 } else { Src::Utf16 }, ti == 1, text);
                    h.caps = if ti == 2 { vec![h.min_cap()] } else { vec![] };
                    st.evals += 1;
                    if let Some((msg, sig)) = ench::verdict_c12(&h, &mut sc, st, true) {
                        st.violations.push(Violation { msg: format!("{}: {}", crate::drive_enc::describe(&h), msg), sig, case: h.to_json() });
                        return;
                    }
                }
            }
            cp += step;
        }
    });
    st.exhaustive.push(format!("every scalar value of planes 0-2{} alone and embedded as 'a X b' / 'U+3042 X U+3042' through 12 encoders", if thorough { " and 3-16" } else { " (planes 3-16 sampled every 61st)" }));
    st
}

/// Capacities below the size that guarantees progress (0..3 bytes raw, 0..13 with replacement),
/// alone and for the closing call only: the per-call invariants of the property are not
/// conditional on the buffer size.  A history that stops making progress simply ends (that is the
/// documented consequence of an undersized buffer, not a violation).
fn undersized_family(ctx: &Ctx) -> Stats {
    let encs = ench::encoder_encodings();
    let mut st = par_run(ctx, encs.len(), |part, st| {
        let enc = encs[part];
        let mut sc = EScratch::new();
        let alpha = hist_enc::alphabet(enc);
        let mut texts: Vec<Vec<u32>> = vec![vec![]];
        for &a in &alpha {
            texts.push(vec![a]);
            for &b in &alpha {
                texts.push(vec![a, b]);
            }
        }
        for text in &texts {
            if fw::should_stop() {
                return;
            }
            for src in [Src::Utf8, Src::Utf16] {
                for repl in [false, true] {
                    let tiny: Vec<usize> = if repl { vec![0, 9, 10, 11, 12, 13] } else { vec![0, 1, 2, 3] };
                    for &t in &tiny {
                        for caps in [vec![t], vec![64, t], vec![t, 64]] {
                            for cuts in [vec![], vec![1], vec![text.len()]] {
                                for last_on_empty in [false, true] {
                                    let mut h = EncHistory::simple(enc, src, repl, text);
                                    h.caps = caps.clone();
                                    h.cuts = cuts.clone();
                                    h.last_on_empty = last_on_empty;
                                    h.undersized_ok = true;
                                    h.normalize();
                                    st.evals += 1;
                                    st.class("undersized-capacity-history");
                                    if let Some((msg, sig)) = ench::verdict_c12(&h, &mut sc, st, true) {
                                        st.violations.push(Violation { msg: format!("{}: {}", crate::drive_enc::describe(&h), msg), sig, case: h.to_json() });
                                        return;
                                    }
                                }
                            }
                        }
                    }
                }
            }
        }
    });
    st.exhaustive.push("undersized capacities: all texts of up to 2 alphabet characters x {0..3 bytes raw, 0/9..13 bytes with replacement} alone, for the first call only and for the later calls only x cuts x last on data/empty call".into());
    st
}

/// one complete text through the one-shot `Encoding::encode` (its own buffer sizing and regrowth):
/// the bytes must be valid, end in the ASCII state and decode to the text with NCRs and folds
fn one_shot_check(enc: &'static encoding_rs::Encoding, text: &str) -> Option<String> {
    use crate::model_enc;
    let algo = model_enc::enc_algo_for(enc);
    let oenc = enc.output_encoding();
    let r = fw::catch(|| {
        let (b, _, _) = enc.encode(text);
        b.into_owned()
    });
    let bytes = match r {
        Ok(b) => b,
        Err(p) => return Some(format!("Encoding::encode panicked: {}", p)),
    };
    if algo == model_enc::EncAlgo::Iso2022Jp && ench::iso2022jp_pending(&bytes) {
        return Some(format!("the ISO-2022-JP output of Encoding::encode has not returned to the ASCII state: ...{}", fw::hex(&bytes[bytes.len().saturating_sub(24)..])));
    }
    let mut expect = String::with_capacity(text.len() + 16);
    if oenc == encoding_rs::UTF_8 {
        expect.push_str(text);
    } else {
        // which characters are unmappable, and which scalar the encoder reports for them (U+FFFD for
        // ESC / SO / SI in ISO-2022-JP), is decided by the reference encoder
        let cps: Vec<u32> = text.chars().map(|c| c as u32).collect();
        let unm = model_enc::encode(algo, &cps, false).unmappables;
        let mut ui = 0;
        for (i, &c) in cps.iter().enumerate() {
            if ui < unm.len() && unm[ui].0 == i {
                expect.push_str(&format!("&#{};", unm[ui].1));
                ui += 1;
            } else {
                expect.push(char::from_u32(model_enc::fold(algo, c).unwrap_or(c)).unwrap());
            }
        }
    }
    let got = oenc.decode_without_bom_handling_and_without_replacement(&bytes);
    match got {
        None => Some(format!("the output of Encoding::encode is not accepted by the {} decoder: ...{}", oenc.name(), fw::hex(&bytes[bytes.len().saturating_sub(32)..]))),
        Some(g) if g != expect.as_str() => {
            let pos = g.bytes().zip(expect.bytes()).position(|(a, b)| a != b).unwrap_or(g.len().min(expect.len()));
            Some(format!("decoding the output of Encoding::encode does not give the text with NCRs and folds: first difference at byte {} of the decoded text (got ...{:?}, expected ...{:?})", pos, g.get(pos.saturating_sub(6)..(pos + 12).min(g.len())).unwrap_or(""), expect.get(pos.saturating_sub(6)..(pos + 12).min(expect.len())).unwrap_or("")))
        }
        _ => None,
    }
}

/// k copies of a character whose reference is long, then a mapped non-ASCII character, then ASCII -
/// for EVERY k, because Encoding::encode grows its buffer in steps and what matters is the state
/// the encoder is in when a step happens
fn one_shot_family(ctx: &Ctx) -> Stats {
    let encs_ = ench::encoder_encodings();
    let kmax = if ctx.tier == fw::Tier::Thorough { 1300 } else { 320 };
    let mut st = par_run(ctx, encs_.len() * 4, |part, st| {
        let enc = encs_[part / 4];
        let x = [0x5D0u32, 0x80, 0x1F600, 0x1B][part % 4];
        let xc = char::from_u32(x).unwrap();
        let alpha = crate::hist_enc::alphabet(enc);
        let algo = crate::model_enc::enc_algo_for(enc);
        let mut ms: Vec<u32> = alpha.iter().cloned().filter(|c| *c >= 0x80 && !crate::drive_enc::is_sur(*c) && crate::model_enc::mappable(algo, *c)).take(3).collect();
        ms.extend_from_slice(&[0x3042, 0xFF71, 0xA5]);
        ms.dedup();
        let mut prefix = String::new();
        for k in 0..=kmax {
            if fw::should_stop() {
                return;
            }
            if k > 0 {
                prefix.push(xc);
            }
            for &m in &ms {
                for tail in ["ab", "a", "", "\u{3044}c"] {
                    let mut t = prefix.clone();
                    t.push(char::from_u32(m).unwrap());
                    t.push_str(tail);
                    st.evals += 1;
                    st.nontrivial_distinct();
                    st.class("one-shot-encode-k-long-references-then-mapped-then-ascii");
                    if let Some(msg) = one_shot_check(enc, &t) {
                        st.violations.push(Violation { msg: format!("{} text {} x U+{:04X} + U+{:04X} + {:?}: {}", enc.name(), k, x, m, tail, msg), sig: "C12:one-shot".into(), case: json!({"kind": "c12_one_shot", "encoding": encs::const_name(enc), "text_utf8_hex": fw::hex(t.as_bytes())}) });
                        return;
                    }
                }
            }
        }
    });
    st.exhaustive.push(format!("Encoding::encode: per encoder, k = 0..={} copies of U+05D0 / U+0080 / U+1F600 / ESC, then each of up to 6 mapped non-ASCII characters, then one of 4 tails", kmax));
    st
}

pub fn run(ctx: &Ctx) -> i32 {
    let t0 = Instant::now();
    let mut st = scalar_sweep(ctx);
    if !fw::should_stop() {
        st.merge(undersized_family(ctx));
    }
    if !fw::should_stop() {
        st.merge(one_shot_family(ctx));
    }
    if !fw::should_stop() {
        let c = check(ctx);
        st.merge(ench::run_enc_check(ctx, &c));
    }
    fw::finish(ctx, st, RULE, &["the folding set (U+00A5, U+203E, U+2212, half-width katakana, the 18 GB18030-2022 private-use code points) is typed in from the Standard", "the decoder used for the round trip is the crate's own (tied to the Standard by C01)"], t0.elapsed().as_secs_f64()).exit
}

pub fn replay(case: &serde_json::Value) -> Option<Vec<Violation>> {
    if case.get("kind").and_then(|k| k.as_str()) == Some("c12_one_shot") {
        let enc = encs::by_const(case.get("encoding")?.as_str()?)?;
        let t = String::from_utf8(fw::unhex(case.get("text_utf8_hex")?.as_str()?)).ok()?;
        return Some(one_shot_check(enc, &t).map(|m| vec![Violation { msg: format!("{}: {}", enc.name(), m), sig: "C12:one-shot".into(), case: case.clone() }]).unwrap_or_default());
    }
    ench::replay_with(case, &ench::verdict_c12)
}
