//! C12 - encoder output is always valid target-encoding text that decodes to the input.
use super::ench::{self, EScratch, EncCheck};
use crate::drive_enc::{ESink, EncHistory, Src};
use crate::fw::{self, par_run, Ctx, Stats, Violation};
use crate::hist_enc::{self, EProfile};
use encoding_rs::*;
use std::time::Instant;

pub const RULE: &str = "case = encoder history as in C04, plus every scalar value alone and embedded as 'a X b' / 'U+3042 X U+3042' for the multi-byte and stateful encoders; oracle = round trip with per-prefix invariants: after every call the accumulated bytes are accepted without error by a fresh no-BOM decoder of the output encoding, has_pending_state() equals 'the last escape in the accumulated ISO-2022-JP bytes is not ESC ( B' (false for other encodings), after the final InputEmpty the ISO-2022-JP stream is in ASCII, and decoding the complete output equals the input with each unmappable replaced by its NCR text and with the Standard's fixed folding set applied (typed in from the Standard). A further family uses capacities BELOW the size that guarantees progress (the per-call invariants are unconditional; a history that stops making progress simply ends). Non-trivial = non-ASCII text with at least two calls; distinct = distinct history.";

fn check<'a>(ctx: &Ctx) -> EncCheck<'a> {
    EncCheck {
        verdict: &ench::verdict_c12,
        encs: ench::encoder_encodings(),
        srcs: vec![Src::Utf8, Src::Utf16],
        sinks: vec![ESink::Slice],
        repls: vec![false, true],
        cap_patterns: &|r| {
            let m = if r { 14 } else { 4 };
            vec![vec![m], vec![m + 1], vec![m + 3], vec![m + 6], vec![]]
        },
        core_max_chars: 2,
        core_max_chars_2022: ctx.tier.pick(2, 3),
        random_per_enc: ctx.n(5_000, 150_000),
        profile: EProfile { max_chars: ctx.tier.pick(12, 64), small_caps_weight: 140, queries: false, exact_queries: false, mappable_only: false },
        mappable_only_when_repl: false,
    }
}

/// every scalar alone and embedded, through the multi-byte / stateful encoders
fn scalar_sweep(ctx: &Ctx) -> Stats {
    let encs: Vec<&'static Encoding> = vec![BIG5, EUC_JP, EUC_KR, GBK, GB18030, ISO_2022_JP, SHIFT_JIS, UTF_8, X_USER_DEFINED, WINDOWS_1252, WINDOWS_874, KOI8_U];
    let thorough = ctx.tier == fw::Tier::Thorough;
    let mut st = par_run(ctx, encs.len() * 17, |part, st| {
        let enc = encs[part / 17];
        let plane = (part % 17) as u32;
        let mut sc = EScratch::new();
        // quick: BMP + plane 1, 2 completely, other planes sampled; thorough: everything
        let step = if thorough || plane <= 2 { 1 } else { 61 };
        let mut cp = plane * 0x10000;
        while cp < (plane + 1) * 0x10000 {
            if fw::should_stop() {
                return;
            }
            if !crate::drive_enc::is_sur(cp) {
                for (ti, text) in [vec![cp], vec![0x61, cp, 0x62], vec![0x3042, cp, 0x3042]].iter().enumerate() {
                    if ti > 0 && cp < 0x80 && !matches!(cp, 0x0E | 0x0F | 0x1B | 0x5C | 0x7E) {
                        continue;
                    }
                    let mut h = EncHistory::simple(enc, if cp & 1 == 0 { Src::Utf8 } else { Src::Utf16 }, ti == 1, text);
                    h.caps = if ti == 2 { vec![h.min_cap()] } else { vec![] };
                    st.evals += 1;
                    if let Some((msg, sig)) = ench::verdict_c12(&h, &mut sc, st, true) {
                        st.violations.push(Violation { msg: format!("{}: {}", crate::drive_enc::describe(&h), msg), sig, case: h.to_json() });
                        return;
                    }
                }
            }
            cp += step;
        }
    });
    st.exhaustive.push(format!("every scalar value of planes 0-2{} alone and embedded as 'a X b' / 'U+3042 X U+3042' through 12 encoders", if thorough { " and 3-16" } else { " (planes 3-16 sampled every 61st)" }));
    st
}

/// Capacities below the size that guarantees progress (0..3 bytes raw, 0..13 with replacement),
/// alone and for the closing call only: the per-call invariants of the property are not
/// conditional on the buffer size.  A history that stops making progress simply ends (that is the
/// documented consequence of an undersized buffer, not a violation).
fn undersized_family(ctx: &Ctx) -> Stats {
    let encs = ench::encoder_encodings();
    let mut st = par_run(ctx, encs.len(), |part, st| {
        let enc = encs[part];
        let mut sc = EScratch::new();
        let alpha = hist_enc::alphabet(enc);
        let mut texts: Vec<Vec<u32>> = vec![vec![]];
        for &a in &alpha {
            texts.push(vec![a]);
            for &b in &alpha {
                texts.push(vec![a, b]);
            }
        }
        for text in &texts {
            if fw::should_stop() {
                return;
            }
            for src in [Src::Utf8, Src::Utf16] {
                for repl in [false, true] {
                    let tiny: Vec<usize> = if repl { vec![0, 9, 10, 11, 12, 13] } else { vec![0, 1, 2, 3] };
                    for &t in &tiny {
                        for caps in [vec![t], vec![64, t], vec![t, 64]] {
                            for cuts in [vec![], vec![1], vec![text.len()]] {
                                for last_on_empty in [false, true] {
                                    let mut h = EncHistory::simple(enc, src, repl, text);
                                    h.caps = caps.clone();
                                    h.cuts = cuts.clone();
                                    h.last_on_empty = last_on_empty;
                                    h.undersized_ok = true;
                                    h.normalize();
                                    st.evals += 1;
                                    st.class("undersized-capacity-history");
                                    if let Some((msg, sig)) = ench::verdict_c12(&h, &mut sc, st, true) {
                                        st.violations.push(Violation { msg: format!("{}: {}", crate::drive_enc::describe(&h), msg), sig, case: h.to_json() });
                                        return;
                                    }
                                }
                            }
                        }
                    }
                }
            }
        }
    });
    st.exhaustive.push("undersized capacities: all texts of up to 2 alphabet characters x {0..3 bytes raw, 0/9..13 bytes with replacement} alone, for the first call only and for the later calls only x cuts x last on data/empty call".into());
    st
}

pub fn run(ctx: &Ctx) -> i32 {
    let t0 = Instant::now();
    let mut st = scalar_sweep(ctx);
    if !fw::should_stop() {
        st.merge(undersized_family(ctx));
    }
    if !fw::should_stop() {
        let c = check(ctx);
        st.merge(ench::run_enc_check(ctx, &c));
    }
    fw::finish(ctx, st, RULE, &["the folding set (U+00A5, U+203E, U+2212, half-width katakana, the 18 GB18030-2022 private-use code points) is typed in from the Standard", "the decoder used for the round trip is the crate's own (tied to the Standard by C01)"], t0.elapsed().as_secs_f64()).exit
}

pub fn replay(case: &serde_json::Value) -> Option<Vec<Violation>> {
    ench::replay_with(case, &ench::verdict_c12)
}
