//! One module per property.
use crate::fw::{Ctx, Violation};
use serde_json::Value;

pub mod c01;
pub mod c02;
pub mod c03;
pub mod c04;
pub mod c05;
pub mod c06;
pub mod c07;
pub mod c08;
pub mod c09;
pub mod c11;
pub mod c12;
pub mod c13;
pub mod c14;
pub mod c15;
pub mod c16;
pub mod c17;
pub mod c18;
pub mod c19;
pub mod c20;
pub mod valfam;
pub mod memfam;
pub mod ench;
pub mod c10;
pub mod dech;

pub fn run(ctx: &Ctx) -> i32 {
    match ctx.prop.as_str() {
        "C01" => c01::run(ctx),
        "C02" => c02::run(ctx),
        "C03" => c03::run(ctx),
        "C04" => c04::run(ctx),
        "C11" => c11::run(ctx),
        "C12" => c12::run(ctx),
        "C13" => c13::run(ctx),
        "C14" => c14::run(ctx),
        "C15" => c15::run(ctx),
        "C16" => c16::run(ctx),
        "C18" => c18::run(ctx),
        "C19" => c19::run(ctx),
        "C20" => c20::run(ctx),
        "C05" => c05::run(ctx),
        "C06" => c06::run(ctx),
        "C07" => c07::run(ctx),
        "C08" => c08::run(ctx),
        "C09" => c09::run(ctx),
        "C10" => c10::run(ctx),
        _ => {
            eprintln!("unknown property {}", ctx.prop);
            2
        }
    }
}

/// Re-run one saved case through the oracle of its property, without any generator.
pub fn replay(path: &str) -> i32 {
    let text = match std::fs::read_to_string(path) {
        Ok(t) => t,
        Err(e) => {
            eprintln!("cannot read {}: {}", path, e);
            return 2;
        }
    };
    let v: Value = match serde_json::from_str(&text) {
        Ok(v) => v,
        Err(e) => {
            eprintln!("cannot parse {}: {}", path, e);
            return 2;
        }
    };
    let prop = v.get("property").and_then(|x| x.as_str()).unwrap_or("");
    let case = v.get("case").cloned().unwrap_or(Value::Null);
    let viols: Option<Vec<Violation>> = match prop {
        "C01" => c01::replay(&case),
        "C02" => c02::replay(&case),
        "C03" => c03::replay(&case),
        "C04" => c04::replay(&case),
        "C11" => c11::replay(&case),
        "C12" => c12::replay(&case),
        "C13" => c13::replay(&case),
        "C14" => c14::replay(&case),
        "C15" => c15::replay(&case),
        "C16" => c16::replay(&case),
        "C18" => c18::replay(&case),
        "C19" => c19::replay(&case),
        "C20" => c20::replay(&case),
        "C05" => c05::replay(&case),
        "C06" => c06::replay(&case),
        "C07" => c07::replay(&case),
        "C08" => c08::replay(&case),
        "C09" => c09::replay(&case),
        "C10" => c10::replay(&case),
        _ => None,
    };
    match viols {
        None => {
            eprintln!("cannot replay {} (unknown property or malformed case)", path);
            2
        }
        Some(v) if v.is_empty() => {
            println!("replay: property={} case passes", prop);
            0
        }
        Some(v) => {
            println!("VIOLATION property={} replay={}", prop, path);
            println!("  what: {}", v[0].msg);
            1
        }
    }
}
