//! Validators (C14) and classification / bidi checks (C16): case runner and references written
//! from the documentation of each function.

use crate::fw::{catch, hex, hex16};
use encoding_rs::mem::{self, Latin1Bidi};
use encoding_rs::Encoding;
use serde_json::{json, Value};

#[derive(Clone, Copy, PartialEq, Eq, Debug, Hash)]
pub enum VFn {
    // C14
    Utf8ValidUpTo,
    AsciiValidUpTo,
    Iso2022JpAsciiValidUpTo,
    Utf16ValidUpTo,
    Utf8Latin1UpTo,
    StrLatin1UpTo,
    // C16
    IsAscii,
    IsBasicLatin,
    IsUtf8Latin1,
    IsStrLatin1,
    IsUtf16Latin1,
    IsUtf8Bidi,
    IsStrBidi,
    IsUtf16Bidi,
    CheckUtf8,
    CheckStr,
    CheckUtf16,
}

pub const C14_FNS: [VFn; 6] = [VFn::Utf8ValidUpTo, VFn::AsciiValidUpTo, VFn::Iso2022JpAsciiValidUpTo, VFn::Utf16ValidUpTo, VFn::Utf8Latin1UpTo, VFn::StrLatin1UpTo];
pub const C16_FNS: [VFn; 11] = [VFn::IsAscii, VFn::IsBasicLatin, VFn::IsUtf8Latin1, VFn::IsStrLatin1, VFn::IsUtf16Latin1, VFn::IsUtf8Bidi, VFn::IsStrBidi, VFn::IsUtf16Bidi, VFn::CheckUtf8, VFn::CheckStr, VFn::CheckUtf16];

impl VFn {
    pub fn name(self) -> &'static str {
        match self {
            VFn::Utf8ValidUpTo => "Encoding::utf8_valid_up_to",
            VFn::AsciiValidUpTo => "Encoding::ascii_valid_up_to",
            VFn::Iso2022JpAsciiValidUpTo => "Encoding::iso_2022_jp_ascii_valid_up_to",
            VFn::Utf16ValidUpTo => "mem::utf16_valid_up_to",
            VFn::Utf8Latin1UpTo => "mem::utf8_latin1_up_to",
            VFn::StrLatin1UpTo => "mem::str_latin1_up_to",
            VFn::IsAscii => "mem::is_ascii",
            VFn::IsBasicLatin => "mem::is_basic_latin",
            VFn::IsUtf8Latin1 => "mem::is_utf8_latin1",
            VFn::IsStrLatin1 => "mem::is_str_latin1",
            VFn::IsUtf16Latin1 => "mem::is_utf16_latin1",
            VFn::IsUtf8Bidi => "mem::is_utf8_bidi",
            VFn::IsStrBidi => "mem::is_str_bidi",
            VFn::IsUtf16Bidi => "mem::is_utf16_bidi",
            VFn::CheckUtf8 => "mem::check_utf8_for_latin1_and_bidi",
            VFn::CheckStr => "mem::check_str_for_latin1_and_bidi",
            VFn::CheckUtf16 => "mem::check_utf16_for_latin1_and_bidi",
        }
    }
    pub fn from_name(n: &str) -> Option<VFn> {
        C14_FNS.iter().chain(C16_FNS.iter()).cloned().find(|f| f.name() == n)
    }
    pub fn is_u16(self) -> bool {
        matches!(self, VFn::Utf16ValidUpTo | VFn::IsBasicLatin | VFn::IsUtf16Latin1 | VFn::IsUtf16Bidi | VFn::CheckUtf16)
    }
    pub fn needs_str(self) -> bool {
        matches!(self, VFn::StrLatin1UpTo | VFn::IsStrLatin1 | VFn::IsStrBidi | VFn::CheckStr)
    }
}

// ---- references -------------------------------------------------------------------------

/// the documented right-to-left set: U+0590..=U+08FF, U+FB1D..=U+FDFF (Hebrew presentation
/// forms and Arabic Presentation Forms-A), U+FE70..=U+FEFE (Arabic Presentation Forms-B without
/// U+FEFF), U+10800..=U+10FFF, U+1E800..=U+1EFFF, and the four RIGHT-TO-LEFT controls
pub fn ref_char_bidi(c: u32) -> bool {
    matches!(c, 0x0590..=0x08FF | 0xFB1D..=0xFDFF | 0xFE70..=0xFEFE | 0x10800..=0x10FFF | 0x1E800..=0x1EFFF | 0x200F | 0x202B | 0x202E | 0x2067)
}

/// code-unit version: the BMP part of the set plus the high surrogates of the two astral ranges
pub fn ref_unit_bidi(u: u16) -> bool {
    let c = u as u32;
    matches!(c, 0x0590..=0x08FF | 0xFB1D..=0xFDFF | 0xFE70..=0xFEFE | 0x200F | 0x202B | 0x202E | 0x2067 | 0xD802 | 0xD803 | 0xD83A | 0xD83B)
}

fn ref_utf8_latin1_up_to(b: &[u8]) -> usize {
    let valid = match std::str::from_utf8(b) {
        Ok(_) => b.len(),
        Err(e) => e.valid_up_to(),
    };
    let s = std::str::from_utf8(&b[..valid]).unwrap();
    for (i, ch) in s.char_indices() {
        if ch as u32 > 0xFF {
            return i;
        }
    }
    valid
}

fn ref_utf16_valid_up_to(b: &[u16]) -> usize {
    let mut i = 0;
    while i < b.len() {
        let u = b[i];
        if (0xD800..=0xDBFF).contains(&u) {
            if i + 1 < b.len() && (0xDC00..=0xDFFF).contains(&b[i + 1]) {
                i += 2;
                continue;
            }
            return i;
        }
        if (0xDC00..=0xDFFF).contains(&u) {
            return i;
        }
        i += 1;
    }
    b.len()
}

pub fn reference(f: VFn, s8: &[u8], s16: &[u16]) -> i64 {
    let valid = std::str::from_utf8(s8).is_ok();
    let b = |x: bool| x as i64;
    let l1b = |latin1: bool, bidi: bool| -> i64 {
        if latin1 {
            0
        } else if bidi {
            2
        } else {
            1
        }
    };
    match f {
        VFn::Utf8ValidUpTo => match std::str::from_utf8(s8) {
            Ok(_) => s8.len() as i64,
            Err(e) => e.valid_up_to() as i64,
        },
        VFn::AsciiValidUpTo => s8.iter().position(|x| *x >= 0x80).unwrap_or(s8.len()) as i64,
        VFn::Iso2022JpAsciiValidUpTo => s8.iter().position(|x| *x >= 0x80 || matches!(*x, 0x1B | 0x0E | 0x0F)).unwrap_or(s8.len()) as i64,
        VFn::Utf16ValidUpTo => ref_utf16_valid_up_to(s16) as i64,
        VFn::Utf8Latin1UpTo => ref_utf8_latin1_up_to(s8) as i64,
        VFn::StrLatin1UpTo => ref_utf8_latin1_up_to(s8) as i64,
        VFn::IsAscii => b(s8.iter().all(|x| *x < 0x80)),
        VFn::IsBasicLatin => b(s16.iter().all(|x| *x < 0x80)),
        VFn::IsUtf8Latin1 => b(valid && std::str::from_utf8(s8).unwrap().chars().all(|c| c as u32 <= 0xFF)),
        VFn::IsStrLatin1 => b(std::str::from_utf8(s8).unwrap().chars().all(|c| c as u32 <= 0xFF)),
        VFn::IsUtf16Latin1 => b(s16.iter().all(|x| *x <= 0xFF)),
        VFn::IsUtf8Bidi => b(!valid || std::str::from_utf8(s8).unwrap().chars().any(|c| ref_char_bidi(c as u32))),
        VFn::IsStrBidi => b(std::str::from_utf8(s8).unwrap().chars().any(|c| ref_char_bidi(c as u32))),
        VFn::IsUtf16Bidi => b(s16.iter().any(|u| ref_unit_bidi(*u))),
        VFn::CheckUtf8 => {
            let latin1 = valid && std::str::from_utf8(s8).unwrap().chars().all(|c| c as u32 <= 0xFF);
            let bidi = !valid || std::str::from_utf8(s8).unwrap().chars().any(|c| ref_char_bidi(c as u32));
            l1b(latin1, bidi)
        }
        VFn::CheckStr => {
            let s = std::str::from_utf8(s8).unwrap();
            l1b(s.chars().all(|c| c as u32 <= 0xFF), s.chars().any(|c| ref_char_bidi(c as u32)))
        }
        VFn::CheckUtf16 => l1b(s16.iter().all(|x| *x <= 0xFF), s16.iter().any(|u| ref_unit_bidi(*u))),
    }
}

fn l1b_to_i(x: Latin1Bidi) -> i64 {
    match x {
        Latin1Bidi::Latin1 => 0,
        Latin1Bidi::LeftToRight => 1,
        Latin1Bidi::Bidi => 2,
    }
}

pub fn call(f: VFn, s8: &[u8], s16: &[u16]) -> i64 {
    match f {
        VFn::Utf8ValidUpTo => Encoding::utf8_valid_up_to(s8) as i64,
        VFn::AsciiValidUpTo => Encoding::ascii_valid_up_to(s8) as i64,
        VFn::Iso2022JpAsciiValidUpTo => Encoding::iso_2022_jp_ascii_valid_up_to(s8) as i64,
        VFn::Utf16ValidUpTo => mem::utf16_valid_up_to(s16) as i64,
        VFn::Utf8Latin1UpTo => mem::utf8_latin1_up_to(s8) as i64,
        VFn::StrLatin1UpTo => mem::str_latin1_up_to(std::str::from_utf8(s8).unwrap()) as i64,
        VFn::IsAscii => mem::is_ascii(s8) as i64,
        VFn::IsBasicLatin => mem::is_basic_latin(s16) as i64,
        VFn::IsUtf8Latin1 => mem::is_utf8_latin1(s8) as i64,
        VFn::IsStrLatin1 => mem::is_str_latin1(std::str::from_utf8(s8).unwrap()) as i64,
        VFn::IsUtf16Latin1 => mem::is_utf16_latin1(s16) as i64,
        VFn::IsUtf8Bidi => mem::is_utf8_bidi(s8) as i64,
        VFn::IsStrBidi => mem::is_str_bidi(std::str::from_utf8(s8).unwrap()) as i64,
        VFn::IsUtf16Bidi => mem::is_utf16_bidi(s16) as i64,
        VFn::CheckUtf8 => l1b_to_i(mem::check_utf8_for_latin1_and_bidi(s8)),
        VFn::CheckStr => l1b_to_i(mem::check_str_for_latin1_and_bidi(std::str::from_utf8(s8).unwrap())),
        VFn::CheckUtf16 => l1b_to_i(mem::check_utf16_for_latin1_and_bidi(s16)),
    }
}

#[derive(Clone, Debug)]
pub struct VCase {
    pub f: VFn,
    pub src8: Vec<u8>,
    pub src16: Vec<u16>,
    pub align: usize,
    pub force_scalar: bool,
}

impl VCase {
    pub fn to_json(&self) -> Value {
        json!({"kind": "validator", "function": self.f.name(), "src8_hex": hex(&self.src8), "src16_hex": hex16(&self.src16), "align": self.align, "force_scalar_utf8": self.force_scalar})
    }
    pub fn from_json(v: &Value) -> Option<VCase> {
        Some(VCase {
            f: VFn::from_name(v.get("function")?.as_str()?)?,
            src8: crate::fw::unhex(v.get("src8_hex")?.as_str()?),
            src16: crate::fw::unhex16(v.get("src16_hex")?.as_str()?),
            align: v.get("align")?.as_u64()? as usize,
            force_scalar: v.get("force_scalar_utf8").and_then(|x| x.as_bool()).unwrap_or(false),
        })
    }
    pub fn sanitise(&mut self) {
        if self.f.needs_str() {
            self.src8 = String::from_utf8_lossy(&self.src8).into_owned().into_bytes();
        }
    }
}

pub struct VRunner {
    b8: Vec<u8>,
    b16: Vec<u16>,
}

impl VRunner {
    pub fn new() -> VRunner {
        VRunner { b8: vec![], b16: vec![] }
    }
    /// returns Some(message) on disagreement with the reference
    pub fn judge(&mut self, c: &VCase) -> Option<String> {
        let al = c.align & 15;
        self.b8.clear();
        self.b8.resize(al, 0xC9);
        self.b8.extend_from_slice(&c.src8);
        // sentinels after the slice are continuation bytes / a low surrogate: a read past the end
        // would then complete a truncated sequence and change the answer
        self.b8.extend_from_slice(&[0xBF; 8]);
        self.b16.clear();
        self.b16.resize(al, 0xD800);
        self.b16.extend_from_slice(&c.src16);
        self.b16.extend_from_slice(&[0xDC00; 4]);
        let s8 = &self.b8[al..al + c.src8.len()];
        let s16 = &self.b16[al..al + c.src16.len()];
        let want = reference(c.f, &c.src8, &c.src16);
        let got = match catch(|| call(c.f, s8, s16)) {
            Ok(g) => g,
            Err(p) => return Some(format!("{} panicked: {}", c.f.name(), p)),
        };
        if got != want {
            return Some(format!("{} returned {} but the definition gives {}", c.f.name(), got, want));
        }
        None
    }
}
