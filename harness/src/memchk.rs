//! encoding_rs::mem conversions: case runner with guard bands, std-based reference results and
//! the monitors of C05 (str validity), C06 (bounds / panics), C15 (exactness), C18 (fill
//! independence).

use crate::fw::{catch, hex, hex16};
use encoding_rs::mem;
use serde_json::{json, Value};
use std::borrow::Cow;

#[derive(Clone, Copy, PartialEq, Eq, Debug, Hash)]
pub enum MemFn {
    Utf8ToUtf16,
    StrToUtf16,
    Utf8ToUtf16WithoutReplacement,
    Utf16ToUtf8Partial,
    Utf16ToUtf8,
    Utf16ToStrPartial,
    Utf16ToStr,
    Latin1ToUtf16,
    Latin1ToUtf8Partial,
    Latin1ToUtf8,
    Latin1ToStrPartial,
    Latin1ToStr,
    Utf8ToLatin1Lossy,
    Utf16ToLatin1Lossy,
    DecodeLatin1,
    EncodeLatin1Lossy,
    EnsureUtf16Validity,
    CopyAsciiToAscii,
    CopyAsciiToBasicLatin,
    CopyBasicLatinToAscii,
}

pub const ALL_FNS: [MemFn; 20] = [
    MemFn::Utf8ToUtf16,
    MemFn::StrToUtf16,
    MemFn::Utf8ToUtf16WithoutReplacement,
    MemFn::Utf16ToUtf8Partial,
    MemFn::Utf16ToUtf8,
    MemFn::Utf16ToStrPartial,
    MemFn::Utf16ToStr,
    MemFn::Latin1ToUtf16,
    MemFn::Latin1ToUtf8Partial,
    MemFn::Latin1ToUtf8,
    MemFn::Latin1ToStrPartial,
    MemFn::Latin1ToStr,
    MemFn::Utf8ToLatin1Lossy,
    MemFn::Utf16ToLatin1Lossy,
    MemFn::DecodeLatin1,
    MemFn::EncodeLatin1Lossy,
    MemFn::EnsureUtf16Validity,
    MemFn::CopyAsciiToAscii,
    MemFn::CopyAsciiToBasicLatin,
    MemFn::CopyBasicLatinToAscii,
];

#[derive(Clone, Copy, PartialEq, Eq, Debug)]
pub enum SrcKind {
    Bytes,     // arbitrary bytes (potentially invalid UTF-8)
    Str,       // valid UTF-8
    Latin1Str, // valid UTF-8, only U+0000..=U+00FF
    Latin1,    // arbitrary bytes read as Latin1
    U16,       // arbitrary code units
    Latin1U16, // code units <= 0xFF
}

impl MemFn {
    pub fn name(self) -> &'static str {
        match self {
            MemFn::Utf8ToUtf16 => "convert_utf8_to_utf16",
            MemFn::StrToUtf16 => "convert_str_to_utf16",
            MemFn::Utf8ToUtf16WithoutReplacement => "convert_utf8_to_utf16_without_replacement",
            MemFn::Utf16ToUtf8Partial => "convert_utf16_to_utf8_partial",
            MemFn::Utf16ToUtf8 => "convert_utf16_to_utf8",
            MemFn::Utf16ToStrPartial => "convert_utf16_to_str_partial",
            MemFn::Utf16ToStr => "convert_utf16_to_str",
            MemFn::Latin1ToUtf16 => "convert_latin1_to_utf16",
            MemFn::Latin1ToUtf8Partial => "convert_latin1_to_utf8_partial",
            MemFn::Latin1ToUtf8 => "convert_latin1_to_utf8",
            MemFn::Latin1ToStrPartial => "convert_latin1_to_str_partial",
            MemFn::Latin1ToStr => "convert_latin1_to_str",
            MemFn::Utf8ToLatin1Lossy => "convert_utf8_to_latin1_lossy",
            MemFn::Utf16ToLatin1Lossy => "convert_utf16_to_latin1_lossy",
            MemFn::DecodeLatin1 => "decode_latin1",
            MemFn::EncodeLatin1Lossy => "encode_latin1_lossy",
            MemFn::EnsureUtf16Validity => "ensure_utf16_validity",
            MemFn::CopyAsciiToAscii => "copy_ascii_to_ascii",
            MemFn::CopyAsciiToBasicLatin => "copy_ascii_to_basic_latin",
            MemFn::CopyBasicLatinToAscii => "copy_basic_latin_to_ascii",
        }
    }
    pub fn from_name(n: &str) -> Option<MemFn> {
        ALL_FNS.iter().cloned().find(|f| f.name() == n)
    }
    pub fn src_kind(self) -> SrcKind {
        match self {
            MemFn::Utf8ToUtf16 | MemFn::Utf8ToUtf16WithoutReplacement | MemFn::CopyAsciiToAscii | MemFn::CopyAsciiToBasicLatin => SrcKind::Bytes,
            MemFn::StrToUtf16 => SrcKind::Str,
            MemFn::Utf16ToUtf8Partial | MemFn::Utf16ToUtf8 | MemFn::Utf16ToStrPartial | MemFn::Utf16ToStr | MemFn::EnsureUtf16Validity | MemFn::CopyBasicLatinToAscii => SrcKind::U16,
            MemFn::Latin1ToUtf16 | MemFn::Latin1ToUtf8Partial | MemFn::Latin1ToUtf8 | MemFn::Latin1ToStrPartial | MemFn::Latin1ToStr | MemFn::DecodeLatin1 => SrcKind::Latin1,
            MemFn::Utf8ToLatin1Lossy | MemFn::EncodeLatin1Lossy => SrcKind::Latin1Str,
            MemFn::Utf16ToLatin1Lossy => SrcKind::Latin1U16,
        }
    }
    pub fn is_partial(self) -> bool {
        matches!(self, MemFn::Utf16ToUtf8Partial | MemFn::Utf16ToStrPartial | MemFn::Latin1ToUtf8Partial | MemFn::Latin1ToStrPartial)
    }
    pub fn dst_is_u16(self) -> bool {
        matches!(self, MemFn::Utf8ToUtf16 | MemFn::StrToUtf16 | MemFn::Utf8ToUtf16WithoutReplacement | MemFn::Latin1ToUtf16 | MemFn::CopyAsciiToBasicLatin | MemFn::EnsureUtf16Validity)
    }
    pub fn dst_is_str(self) -> bool {
        matches!(self, MemFn::Utf16ToStrPartial | MemFn::Utf16ToStr | MemFn::Latin1ToStrPartial | MemFn::Latin1ToStr)
    }
    pub fn no_dst(self) -> bool {
        matches!(self, MemFn::DecodeLatin1 | MemFn::EncodeLatin1Lossy | MemFn::EnsureUtf16Validity)
    }
    /// documented minimum destination length for a source of `n` units (None = any length allowed)
    pub fn min_dst(self, n: usize) -> Option<usize> {
        match self {
            MemFn::Utf8ToUtf16 => Some(n + 1),
            MemFn::StrToUtf16 | MemFn::Utf8ToUtf16WithoutReplacement | MemFn::Latin1ToUtf16 | MemFn::Utf8ToLatin1Lossy | MemFn::Utf16ToLatin1Lossy | MemFn::CopyAsciiToAscii | MemFn::CopyAsciiToBasicLatin | MemFn::CopyBasicLatinToAscii => Some(n),
            MemFn::Utf16ToUtf8 | MemFn::Utf16ToStr => Some(3 * n),
            MemFn::Latin1ToUtf8 | MemFn::Latin1ToStr => Some(2 * n),
            _ => None,
        }
    }
    /// size that is always sufficient for the partial forms
    pub fn sufficient(self, n: usize) -> usize {
        match self {
            MemFn::Utf16ToUtf8Partial | MemFn::Utf16ToStrPartial => 3 * n,
            MemFn::Latin1ToUtf8Partial | MemFn::Latin1ToStrPartial => 2 * n,
            _ => self.min_dst(n).unwrap_or(0),
        }
    }
}

#[derive(Clone, Debug)]
pub struct MemCase {
    pub f: MemFn,
    pub src8: Vec<u8>,
    pub src16: Vec<u16>,
    pub dst_len: usize,
    pub src_align: usize,
    pub dst_align: usize,
    pub fill: u8,
}

impl MemCase {
    pub fn to_json(&self) -> Value {
        json!({"kind": "mem", "function": self.f.name(), "src8_hex": hex(&self.src8), "src16_hex": hex16(&self.src16), "dst_len": self.dst_len, "src_align": self.src_align, "dst_align": self.dst_align, "fill": self.fill})
    }
    pub fn from_json(v: &Value) -> Option<MemCase> {
        Some(MemCase {
            f: MemFn::from_name(v.get("function")?.as_str()?)?,
            src8: crate::fw::unhex(v.get("src8_hex")?.as_str()?),
            src16: crate::fw::unhex16(v.get("src16_hex")?.as_str()?),
            dst_len: v.get("dst_len")?.as_u64()? as usize,
            src_align: v.get("src_align")?.as_u64()? as usize,
            dst_align: v.get("dst_align")?.as_u64()? as usize,
            fill: v.get("fill")?.as_u64()? as u8,
        })
    }
    pub fn src_len(&self) -> usize {
        if matches!(self.f.src_kind(), SrcKind::U16 | SrcKind::Latin1U16) {
            self.src16.len()
        } else {
            self.src8.len()
        }
    }
    pub fn hash(&self) -> u64 {
        let mut h = crate::fw::fnv(&self.src8);
        for u in &self.src16 {
            h = crate::fw::mix(h, *u as u64);
        }
        crate::fw::mix(h, (self.f as u64) << 40 | (self.dst_len as u64) << 16 | (self.src_align as u64) << 8 | self.dst_align as u64)
    }
    /// make the source satisfy the function's documented precondition
    pub fn sanitise(&mut self) {
        match self.f.src_kind() {
            SrcKind::Str => {
                self.src8 = String::from_utf8_lossy(&self.src8).into_owned().into_bytes();
            }
            SrcKind::Latin1Str => {
                let s = String::from_utf8_lossy(&self.src8).into_owned();
                self.src8 = s.chars().map(|c| if (c as u32) <= 0xFF { c } else { char::from_u32(0xA0 + (c as u32 & 0x5F)).unwrap() }).collect::<String>().into_bytes();
            }
            SrcKind::Latin1U16 => {
                for u in self.src16.iter_mut() {
                    *u &= 0xFF;
                }
            }
            _ => {}
        }
        let n = self.src_len();
        if let Some(m) = self.f.min_dst(n) {
            if self.dst_len < m {
                self.dst_len = m;
            }
        }
        if self.f.dst_is_str() {
            // a str destination is built from filler text; nothing to fix
        }
    }
}

#[derive(Clone, Debug, PartialEq, Eq)]
pub struct MemOut {
    /// return values, flattened: Option<usize> None = -1
    pub ret: Vec<i64>,
    pub written: usize,
    pub dst8: Vec<u8>,
    pub dst16: Vec<u16>,
    pub borrowed: Option<bool>,
}

#[derive(Clone, Debug)]
pub struct MemFault {
    pub prop: &'static str,
    pub sig: String,
    pub msg: String,
}

const BAND: usize = 32;
const CANARY8: u8 = 0xC9;
const CANARY16: u16 = 0xC9C9;
const SRC_BEFORE8: u8 = 0xE4;
const SRC_AFTER8: u8 = 0xBF;
const SRC_BEFORE16: u16 = 0xD800;
const SRC_AFTER16: u16 = 0xDC00;

/// reference result: (return values, expected written prefix as bytes or units)
pub struct MemRef {
    pub ret: Vec<i64>,
    pub out8: Vec<u8>,
    pub out16: Vec<u16>,
    /// None: no promise about Cow variant; Some(b): must be borrowed == b
    pub borrowed: Option<bool>,
    /// the function promises nothing about the output for this input (memory safety only)
    pub unspecified: bool,
}

fn lossy16(src: &[u16]) -> Vec<char> {
    char::decode_utf16(src.iter().cloned()).map(|r| r.unwrap_or('\u{FFFD}')).collect()
}

pub fn reference(c: &MemCase) -> MemRef {
    let mut r = MemRef { ret: vec![], out8: vec![], out16: vec![], borrowed: None, unspecified: false };
    match c.f {
        MemFn::Utf8ToUtf16 => {
            r.out16 = String::from_utf8_lossy(&c.src8).encode_utf16().collect();
            r.ret = vec![r.out16.len() as i64];
        }
        MemFn::StrToUtf16 => {
            r.out16 = std::str::from_utf8(&c.src8).unwrap().encode_utf16().collect();
            r.ret = vec![r.out16.len() as i64];
        }
        MemFn::Utf8ToUtf16WithoutReplacement => match std::str::from_utf8(&c.src8) {
            Ok(s) => {
                r.out16 = s.encode_utf16().collect();
                r.ret = vec![r.out16.len() as i64];
            }
            Err(_) => r.ret = vec![-1],
        },
        MemFn::Utf16ToUtf8Partial | MemFn::Utf16ToStrPartial => {
            // TextEncoder.encodeInto(): as many whole scalar values as fit
            let mut read = 0usize;
            for item in char::decode_utf16(c.src16.iter().cloned()) {
                let (ch, units) = match item {
                    Ok(ch) => (ch, ch.len_utf16()),
                    Err(_) => ('\u{FFFD}', 1),
                };
                if r.out8.len() + ch.len_utf8() > c.dst_len {
                    break;
                }
                let mut b = [0u8; 4];
                r.out8.extend_from_slice(ch.encode_utf8(&mut b).as_bytes());
                read += units;
            }
            r.ret = vec![read as i64, r.out8.len() as i64];
        }
        MemFn::Utf16ToUtf8 | MemFn::Utf16ToStr => {
            r.out8 = lossy16(&c.src16).into_iter().collect::<String>().into_bytes();
            r.ret = vec![r.out8.len() as i64];
        }
        MemFn::Latin1ToUtf16 => {
            r.out16 = c.src8.iter().map(|b| *b as u16).collect();
        }
        MemFn::Latin1ToUtf8Partial | MemFn::Latin1ToStrPartial => {
            let mut read = 0usize;
            for &b in &c.src8 {
                let n = if b < 0x80 { 1 } else { 2 };
                if r.out8.len() + n > c.dst_len {
                    break;
                }
                let mut buf = [0u8; 4];
                r.out8.extend_from_slice((b as char).encode_utf8(&mut buf).as_bytes());
                read += 1;
            }
            r.ret = vec![read as i64, r.out8.len() as i64];
        }
        MemFn::Latin1ToUtf8 | MemFn::Latin1ToStr => {
            r.out8 = c.src8.iter().map(|b| *b as char).collect::<String>().into_bytes();
            r.ret = vec![r.out8.len() as i64];
        }
        MemFn::Utf8ToLatin1Lossy => match std::str::from_utf8(&c.src8) {
            Ok(s) if s.chars().all(|ch| (ch as u32) <= 0xFF) => {
                r.out8 = s.chars().map(|ch| ch as u32 as u8).collect();
                r.ret = vec![r.out8.len() as i64];
            }
            _ => r.unspecified = true,
        },
        MemFn::Utf16ToLatin1Lossy => {
            if c.src16.iter().all(|u| *u <= 0xFF) {
                r.out8 = c.src16.iter().map(|u| *u as u8).collect();
            } else {
                r.unspecified = true;
            }
        }
        MemFn::DecodeLatin1 => {
            r.out8 = c.src8.iter().map(|b| *b as char).collect::<String>().into_bytes();
            r.borrowed = Some(c.src8.iter().all(|b| *b < 0x80));
        }
        MemFn::EncodeLatin1Lossy => match std::str::from_utf8(&c.src8) {
            Ok(s) if s.chars().all(|ch| (ch as u32) <= 0xFF) => {
                r.out8 = s.chars().map(|ch| ch as u32 as u8).collect();
                r.borrowed = Some(s.is_ascii());
            }
            _ => r.unspecified = true,
        },
        MemFn::EnsureUtf16Validity => {
            let n = c.src16.len();
            let mut i = 0;
            while i < n {
                let u = c.src16[i];
                if (0xD800..=0xDBFF).contains(&u) && i + 1 < n && (0xDC00..=0xDFFF).contains(&c.src16[i + 1]) {
                    r.out16.push(u);
                    r.out16.push(c.src16[i + 1]);
                    i += 2;
                } else if (0xD800..=0xDFFF).contains(&u) {
                    r.out16.push(0xFFFD);
                    i += 1;
                } else {
                    r.out16.push(u);
                    i += 1;
                }
            }
        }
        MemFn::CopyAsciiToAscii => {
            let n = c.src8.iter().position(|b| *b >= 0x80).unwrap_or(c.src8.len());
            r.out8 = c.src8[..n].to_vec();
            r.ret = vec![n as i64];
        }
        MemFn::CopyAsciiToBasicLatin => {
            let n = c.src8.iter().position(|b| *b >= 0x80).unwrap_or(c.src8.len());
            r.out16 = c.src8[..n].iter().map(|b| *b as u16).collect();
            r.ret = vec![n as i64];
        }
        MemFn::CopyBasicLatinToAscii => {
            let n = c.src16.iter().position(|u| *u >= 0x80).unwrap_or(c.src16.len());
            r.out8 = c.src16[..n].iter().map(|u| *u as u8).collect();
            r.ret = vec![n as i64];
        }
    }
    r
}

pub struct MemRunner {
    s8: Vec<u8>,
    s16: Vec<u16>,
    d8: Vec<u8>,
    d16: Vec<u16>,
    pub exact_alloc: bool,
    /// guard-page mode for cases with an odd `src_align` (see guard.rs; used by C06)
    pub guard: bool,
    g_s8: Option<crate::guard::GuardRegion>,
    g_s16: Option<crate::guard::GuardRegion>,
    g_d: Option<crate::guard::GuardRegion>,
}

pub struct RunResult {
    pub out: Option<MemOut>,
    pub panic: Option<String>,
    pub faults: Vec<MemFault>,
    /// full destination after the call (incl. beyond written), for the "unmodified beyond written" check
    pub full8: Vec<u8>,
}

impl MemRunner {
    pub fn new() -> MemRunner {
        MemRunner { s8: vec![], s16: vec![], d8: vec![], d16: vec![], exact_alloc: false, guard: crate::guard::enabled(), g_s8: None, g_s16: None, g_d: None }
    }

    /// Run one case (preconditions must already hold - see `sanitise`) with guard bands.
    pub fn run(&mut self, c: &MemCase) -> RunResult {
        let band = if self.exact_alloc { 0 } else { BAND };
        let f = c.f;
        let so = band + (c.src_align & 15);
        let dof = band + (c.dst_align & 15);
        let mut faults: Vec<MemFault> = Vec::new();
        // sources
        if self.exact_alloc {
            self.s8 = Vec::with_capacity(so + c.src8.len());
            self.s16 = Vec::with_capacity(so + c.src16.len());
        }
        // source sentinels: a high surrogate / lead byte before, low surrogates / continuation bytes
        // after, so that a read outside the source would change the result
        self.s8.clear();
        self.s8.resize(so, SRC_BEFORE8);
        self.s8.extend_from_slice(&c.src8);
        self.s8.resize(so + c.src8.len() + band, SRC_AFTER8);
        self.s16.clear();
        self.s16.resize(so, SRC_BEFORE16);
        self.s16.extend_from_slice(&c.src16);
        self.s16.resize(so + c.src16.len() + band, SRC_AFTER16);
        // destinations
        let dl = c.dst_len;
        let f16 = (c.fill as u16) << 8 | c.fill as u16;
        let mut str_dst: Option<String> = None;
        if f.dst_is_str() {
            let mut s = String::with_capacity(2 * BAND + dl);
            for _ in 0..BAND {
                s.push('c');
            }
            s.push_str(&crate::drive_dec::filler_text(c.fill, c.dst_align, dl));
            for _ in 0..BAND {
                s.push('c');
            }
            str_dst = Some(s);
        } else if f.dst_is_u16() && f != MemFn::EnsureUtf16Validity {
            if self.exact_alloc {
                self.d16 = Vec::with_capacity(dof + dl);
            }
            self.d16.clear();
            self.d16.resize(dof + dl + band, CANARY16);
            for x in &mut self.d16[dof..dof + dl] {
                *x = f16;
            }
        } else if !f.no_dst() {
            if self.exact_alloc {
                self.d8 = Vec::with_capacity(dof + dl);
            }
            self.d8.clear();
            self.d8.resize(dof + dl + band, CANARY8);
            for x in &mut self.d8[dof..dof + dl] {
                *x = c.fill;
            }
        }
        let before8: Vec<u8> = if !f.dst_is_u16() && !f.no_dst() && !f.dst_is_str() { self.d8[dof..dof + dl].to_vec() } else { vec![] };
        crate::guard::set_current(c as *const MemCase as *const (), render_mem_case);
        let use_guard = self.guard && (c.src_align & 1 == 1) && c.src8.len() <= 16384 && c.src16.len() <= 8192 && dl <= 8192;
        let uses_d16 = f.dst_is_u16() && f != MemFn::EnsureUtf16Validity;
        let uses_d8 = !f.no_dst() && !f.dst_is_u16() && !f.dst_is_str();
        let s8: &[u8] = if use_guard {
            let g = self.g_s8.get_or_insert_with(|| crate::guard::GuardRegion::new(16));
            let sl = if c.src_align & 2 == 0 { g.end_u8(c.src8.len()) } else { g.start_u8(c.src8.len()) };
            sl.copy_from_slice(&c.src8);
            sl
        } else {
            &self.s8[so..so + c.src8.len()]
        };
        let s16m: &mut [u16] = if use_guard {
            let g = self.g_s16.get_or_insert_with(|| crate::guard::GuardRegion::new(16));
            let sl = if c.src_align & 2 == 0 { g.end_u16(c.src16.len()) } else { g.start_u16(c.src16.len()) };
            sl.copy_from_slice(&c.src16);
            sl
        } else {
            &mut self.s16[so..so + c.src16.len()]
        };
        let (d8s, d16s): (&mut [u8], &mut [u16]) = if use_guard && (uses_d8 || uses_d16) {
            let g = self.g_d.get_or_insert_with(|| crate::guard::GuardRegion::new(16));
            if uses_d8 {
                let sl = g.end_u8(dl);
                for x in sl.iter_mut() {
                    *x = c.fill;
                }
                (sl, &mut [])
            } else {
                let sl = g.end_u16(dl);
                for x in sl.iter_mut() {
                    *x = f16;
                }
                (&mut [], sl)
            }
        } else {
            (if uses_d8 { &mut self.d8[dof..dof + dl] } else { &mut [] }, if uses_d16 { &mut self.d16[dof..dof + dl] } else { &mut [] })
        };
        let mut borrowed: Option<bool> = None;
        let mut cow_out: Option<Vec<u8>> = None;
        let r: Result<(Vec<i64>, usize), String> = catch(|| match f {
            MemFn::Utf8ToUtf16 => {
                let w = mem::convert_utf8_to_utf16(s8, &mut *d16s);
                (vec![w as i64], w)
            }
            MemFn::StrToUtf16 => {
                let w = mem::convert_str_to_utf16(std::str::from_utf8(s8).unwrap(), &mut *d16s);
                (vec![w as i64], w)
            }
            MemFn::Utf8ToUtf16WithoutReplacement => match mem::convert_utf8_to_utf16_without_replacement(s8, &mut *d16s) {
                Some(w) => (vec![w as i64], w),
                None => (vec![-1], 0),
            },
            MemFn::Utf16ToUtf8Partial => {
                let (rd, w) = mem::convert_utf16_to_utf8_partial(s16m, &mut *d8s);
                (vec![rd as i64, w as i64], w)
            }
            MemFn::Utf16ToUtf8 => {
                let w = mem::convert_utf16_to_utf8(s16m, &mut *d8s);
                (vec![w as i64], w)
            }
            MemFn::Utf16ToStrPartial => {
                let s = str_dst.as_mut().unwrap();
                let (rd, w) = mem::convert_utf16_to_str_partial(s16m, &mut s[BAND..BAND + dl]);
                (vec![rd as i64, w as i64], w)
            }
            MemFn::Utf16ToStr => {
                let s = str_dst.as_mut().unwrap();
                let w = mem::convert_utf16_to_str(s16m, &mut s[BAND..BAND + dl]);
                (vec![w as i64], w)
            }
            MemFn::Latin1ToUtf16 => {
                mem::convert_latin1_to_utf16(s8, &mut *d16s);
                (vec![], s8.len())
            }
            MemFn::Latin1ToUtf8Partial => {
                let (rd, w) = mem::convert_latin1_to_utf8_partial(s8, &mut *d8s);
                (vec![rd as i64, w as i64], w)
            }
            MemFn::Latin1ToUtf8 => {
                let w = mem::convert_latin1_to_utf8(s8, &mut *d8s);
                (vec![w as i64], w)
            }
            MemFn::Latin1ToStrPartial => {
                let s = str_dst.as_mut().unwrap();
                let (rd, w) = mem::convert_latin1_to_str_partial(s8, &mut s[BAND..BAND + dl]);
                (vec![rd as i64, w as i64], w)
            }
            MemFn::Latin1ToStr => {
                let s = str_dst.as_mut().unwrap();
                let w = mem::convert_latin1_to_str(s8, &mut s[BAND..BAND + dl]);
                (vec![w as i64], w)
            }
            MemFn::Utf8ToLatin1Lossy => {
                let w = mem::convert_utf8_to_latin1_lossy(s8, &mut *d8s);
                (vec![w as i64], w)
            }
            MemFn::Utf16ToLatin1Lossy => {
                mem::convert_utf16_to_latin1_lossy(s16m, &mut *d8s);
                (vec![], s16m.len())
            }
            MemFn::DecodeLatin1 => {
                let cow = mem::decode_latin1(s8);
                borrowed = Some(matches!(cow, Cow::Borrowed(_)));
                if let Cow::Borrowed(b) = &cow {
                    if b.as_ptr() != s8.as_ptr() || b.len() != s8.len() {
                        borrowed = None; // flagged below
                    }
                }
                let v = cow.as_bytes().to_vec();
                let n = v.len();
                cow_out = Some(v);
                (vec![], n)
            }
            MemFn::EncodeLatin1Lossy => {
                let cow = mem::encode_latin1_lossy(std::str::from_utf8(s8).unwrap());
                borrowed = Some(matches!(cow, Cow::Borrowed(_)));
                if let Cow::Borrowed(b) = &cow {
                    if b.as_ptr() != s8.as_ptr() || b.len() != s8.len() {
                        borrowed = None;
                    }
                }
                let v = cow.to_vec();
                let n = v.len();
                cow_out = Some(v);
                (vec![], n)
            }
            MemFn::EnsureUtf16Validity => {
                mem::ensure_utf16_validity(s16m);
                (vec![], s16m.len())
            }
            MemFn::CopyAsciiToAscii => {
                let w = mem::copy_ascii_to_ascii(s8, &mut *d8s);
                (vec![w as i64], w)
            }
            MemFn::CopyAsciiToBasicLatin => {
                let w = mem::copy_ascii_to_basic_latin(s8, &mut *d16s);
                (vec![w as i64], w)
            }
            MemFn::CopyBasicLatinToAscii => {
                let w = mem::copy_basic_latin_to_ascii(s16m, &mut *d8s);
                (vec![w as i64], w)
            }
        });
        crate::guard::clear_current();
        if use_guard {
            // copy back so that the common post-processing below applies unchanged
            if uses_d8 {
                let v = d8s.to_vec();
                self.d8[dof..dof + dl].copy_from_slice(&v);
            }
            if uses_d16 {
                let v = d16s.to_vec();
                self.d16[dof..dof + dl].copy_from_slice(&v);
            }
            let v8 = s8.to_vec();
            let v16 = s16m.to_vec();
            self.s8[so..so + c.src8.len()].copy_from_slice(&v8);
            self.s16[so..so + c.src16.len()].copy_from_slice(&v16);
        }
        // whole-str validity and canaries, also after a panic
        let mut full8: Vec<u8> = Vec::new();
        if let Some(s) = &str_dst {
            let b = s.as_bytes();
            if std::str::from_utf8(b).is_err() {
                faults.push(MemFault { prop: "C05", sig: format!("C05:mem:{}:invalid-str", f.name()), msg: format!("&mut str destination is not valid UTF-8 after the call: {}", hex(&b[BAND..BAND + dl])) });
            }
            if b[..BAND].iter().any(|x| *x != b'c') || b[BAND + dl..].iter().any(|x| *x != b'c') {
                faults.push(MemFault { prop: "C06", sig: format!("C06:mem:{}:oob-write", f.name()), msg: "bytes outside the &mut str destination were modified".into() });
            }
            full8 = b[BAND..BAND + dl].to_vec();
        } else if f.dst_is_u16() && f != MemFn::EnsureUtf16Validity {
            if self.d16[..dof].iter().any(|x| *x != CANARY16) || self.d16[dof + dl..].iter().any(|x| *x != CANARY16) {
                faults.push(MemFault { prop: "C06", sig: format!("C06:mem:{}:oob-write", f.name()), msg: "units outside the destination slice were modified".into() });
            }
        } else if !f.no_dst() {
            if self.d8[..dof].iter().any(|x| *x != CANARY8) || self.d8[dof + dl..].iter().any(|x| *x != CANARY8) {
                faults.push(MemFault { prop: "C06", sig: format!("C06:mem:{}:oob-write", f.name()), msg: "bytes outside the destination slice were modified".into() });
            }
            full8 = self.d8[dof..dof + dl].to_vec();
        }
        // sources unchanged (ensure_utf16_validity mutates in place by design)
        if &self.s8[so..so + c.src8.len()] != &c.src8[..] || self.s8[..so].iter().any(|x| *x != SRC_BEFORE8) || self.s8[so + c.src8.len()..].iter().any(|x| *x != SRC_AFTER8) {
            faults.push(MemFault { prop: "C06", sig: format!("C06:mem:{}:src-modified", f.name()), msg: "source bytes (or their surroundings) were modified".into() });
        }
        if self.s16[..so].iter().any(|x| *x != SRC_BEFORE16) || self.s16[so + c.src16.len()..].iter().any(|x| *x != SRC_AFTER16) || (f != MemFn::EnsureUtf16Validity && &self.s16[so..so + c.src16.len()] != &c.src16[..]) {
            faults.push(MemFault { prop: "C06", sig: format!("C06:mem:{}:src-modified", f.name()), msg: "source code units (or their surroundings) were modified".into() });
        }
        let (ret, written) = match r {
            Err(p) => {
                faults.push(MemFault { prop: "C06", sig: format!("C06:mem:{}:panic", f.name()), msg: format!("panic although the documented preconditions hold: {}", p) });
                return RunResult { out: None, panic: Some(p), faults, full8 };
            }
            Ok(x) => x,
        };
        let cap = if f.no_dst() { usize::MAX } else { dl };
        if written > cap {
            faults.push(MemFault { prop: "C06", sig: format!("C06:mem:{}:written", f.name()), msg: format!("written {} > dst.len() {}", written, dl) });
        }
        let w = written.min(cap);
        let mut out = MemOut { ret, written: w, dst8: vec![], dst16: vec![], borrowed };
        if let Some(v) = cow_out {
            out.dst8 = v;
            if borrowed.is_none() {
                faults.push(MemFault { prop: "C15", sig: format!("C15:mem:{}:alias", f.name()), msg: "borrowed result does not alias the argument".into() });
            }
        } else if f == MemFn::EnsureUtf16Validity {
            out.dst16 = self.s16[so..so + c.src16.len()].to_vec();
        } else if let Some(s) = &str_dst {
            out.dst8 = s.as_bytes()[BAND..BAND + w].to_vec();
        } else if f.dst_is_u16() {
            out.dst16 = self.d16[dof..dof + w].to_vec();
        } else {
            out.dst8 = self.d8[dof..dof + w].to_vec();
        }
        // documented: bytes beyond written unmodified (convert_utf16_to_utf8_partial only)
        if f == MemFn::Utf16ToUtf8Partial && full8[w..] != before8[w..] {
            let first = (w..dl).find(|i| full8[*i] != before8[*i]).unwrap();
            let lastd = (w..dl).rev().find(|i| full8[*i] != before8[*i]).unwrap();
            let within = lastd < w + 16;
            faults.push(MemFault {
                prop: "C15",
                sig: if within && crate::fw::is_simd() { "C15:mem:convert_utf16_to_utf8_partial:beyond-written-modified-within-16:simd".into() } else { "C15:mem:convert_utf16_to_utf8_partial:beyond-written-modified".into() },
                msg: format!("bytes beyond `written` ({}) were modified although the documentation guarantees they are left unmodified: first at offset {}, last at offset {}", w, first, lastd),
            });
        }
        RunResult { out: Some(out), panic: None, faults, full8 }
    }
}

fn render_mem_case(p: *const ()) -> String {
    let c = unsafe { &*(p as *const MemCase) };
    c.to_json().to_string()
}

/// Run a case and evaluate all monitors; returns faults tagged with the property they belong to.
pub fn judge(rn: &mut MemRunner, c: &MemCase) -> Vec<MemFault> {
    let rr = rn.run(c);
    let mut faults = rr.faults;
    let out = match rr.out {
        None => return faults,
        Some(o) => o,
    };
    let rf = reference(c);
    let f = c.f;
    if !rf.unspecified {
        if out.ret != rf.ret {
            faults.push(MemFault { prop: "C15", sig: format!("C15:mem:{}:ret", f.name()), msg: format!("returned {:?}, expected {:?}", out.ret, rf.ret) });
        } else if f.dst_is_u16() {
            if out.dst16 != rf.out16 {
                faults.push(MemFault { prop: "C15", sig: format!("C15:mem:{}:content", f.name()), msg: format!("wrote [{}], expected [{}]", hex16(&out.dst16), hex16(&rf.out16)) });
            }
        } else if out.dst8 != rf.out8 {
            faults.push(MemFault { prop: "C15", sig: format!("C15:mem:{}:content", f.name()), msg: format!("wrote {}, expected {}", hex(&out.dst8), hex(&rf.out8)) });
        }
        if let (Some(want), Some(got)) = (rf.borrowed, out.borrowed) {
            if want != got {
                faults.push(MemFault { prop: "C15", sig: format!("C15:mem:{}:borrow", f.name()), msg: format!("result is {} but the documentation promises {}", if got { "borrowed" } else { "owned" }, if want { "a borrow (ASCII-only input)" } else { "a single allocation (non-ASCII input)" }) });
            }
        }
    }
    // valid UTF-8 of returned strings / written prefixes (C05)
    if matches!(f, MemFn::DecodeLatin1 | MemFn::Utf16ToUtf8 | MemFn::Utf16ToUtf8Partial | MemFn::Latin1ToUtf8 | MemFn::Latin1ToUtf8Partial | MemFn::Utf16ToStr | MemFn::Utf16ToStrPartial | MemFn::Latin1ToStr | MemFn::Latin1ToStrPartial) && std::str::from_utf8(&out.dst8).is_err() {
        faults.push(MemFault { prop: "C05", sig: format!("C05:mem:{}:invalid-output", f.name()), msg: format!("output {} is not valid UTF-8", hex(&out.dst8)) });
    }
    if matches!(f, MemFn::Utf8ToUtf16 | MemFn::StrToUtf16 | MemFn::EnsureUtf16Validity) && char::decode_utf16(out.dst16.iter().cloned()).any(|r| r.is_err()) {
        faults.push(MemFault { prop: "C05", sig: format!("C05:mem:{}:invalid-output", f.name()), msg: format!("output [{}] is not valid UTF-16", hex16(&out.dst16)) });
    }
    faults
}

/// C18: run under three fills; return values and the written prefix must be identical.
pub fn judge_fills(rn: &mut MemRunner, c: &MemCase) -> Option<MemFault> {
    if c.f.no_dst() {
        return None;
    }
    let fills: [u8; 3] = if c.f.dst_is_str() { [0, 2, 3] } else { [0x00, 0xFF, 0xA5] };
    let mut first: Option<MemOut> = None;
    for fl in fills {
        let mut cc = c.clone();
        cc.fill = fl;
        let rr = rn.run(&cc);
        let out = match rr.out {
            Some(o) => o,
            None => return None, // panic: C06's business
        };
        match &first {
            None => first = Some(out),
            Some(a) => {
                if *a != out {
                    return Some(MemFault { prop: "C18", sig: format!("C18:mem:{}", c.f.name()), msg: format!("{}: result depends on the destination's previous contents (fill {:#04x} vs {:#04x}): {:?} / {} / [{}] vs {:?} / {} / [{}]", c.f.name(), fills[0], fl, a.ret, hex(&a.dst8), hex16(&a.dst16), out.ret, hex(&out.dst8), hex16(&out.dst16)) });
                }
            }
        }
    }
    None
}
