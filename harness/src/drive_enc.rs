//! Encoder history driver: the documented caller loop over text cut at character boundaries,
//! with a sequence of output capacities, a transcript and per-call monitors.

use crate::encs;
use crate::fw::{catch, hex, hex32};
use encoding_rs::{CoderResult, Encoder, EncoderResult, Encoding};
use serde_json::{json, Value};

#[derive(Clone, Copy, PartialEq, Eq, Debug, Hash)]
pub enum Src {
    Utf8,
    Utf16,
}

#[derive(Clone, Copy, PartialEq, Eq, Debug, Hash)]
pub enum ESink {
    Slice,
    Vec,
}

pub const CAP_QUERY: usize = usize::MAX;
pub const CAP_AMPLE: usize = usize::MAX - 1;
/// like CAP_QUERY but exactly the answer, even below the general minimum (see drive_dec.rs)
pub const CAP_QUERY_EXACT: usize = usize::MAX - 2;

#[derive(Clone, Debug)]
pub struct EncHistory {
    pub enc: &'static Encoding,
    pub src: Src,
    pub sink: ESink,
    pub repl: bool,
    /// Text as code points.  Values in D800..=DFFF stand for lone surrogate code units and are
    /// only meaningful for a UTF-16 source (for a UTF-8 source they are replaced by U+FFFD when
    /// the text is materialised).  A high surrogate is never directly followed by a low one
    /// (`normalize` merges such a pair into the astral scalar).
    pub text: Vec<u32>,
    /// cut positions in characters, sorted, 0..=len
    pub cuts: Vec<usize>,
    pub last_on_empty: bool,
    pub caps: Vec<usize>,
    pub fill: u8,
    pub align: usize,
    /// capacities are used as given, also below the size that guarantees progress (C12: the
    /// per-call invariants hold for ANY call; a history that stops making progress simply ends)
    pub undersized_ok: bool,
}

pub fn is_sur(c: u32) -> bool {
    (0xD800..=0xDFFF).contains(&c)
}

impl EncHistory {
    pub fn simple(enc: &'static Encoding, src: Src, repl: bool, text: &[u32]) -> EncHistory {
        let mut h = EncHistory { enc, src, sink: ESink::Slice, repl, text: text.to_vec(), cuts: vec![], last_on_empty: false, caps: vec![], fill: 0xA5, align: 0, undersized_ok: false };
        h.normalize();
        h
    }
    pub fn normalize(&mut self) {
        let mut out: Vec<u32> = Vec::with_capacity(self.text.len());
        for &c in &self.text {
            let c = if c > 0x10FFFF { 0xFFFD } else { c };
            if let Some(&p) = out.last() {
                if (0xD800..=0xDBFF).contains(&p) && (0xDC00..=0xDFFF).contains(&c) {
                    let a = 0x10000 + ((p - 0xD800) << 10) + (c - 0xDC00);
                    *out.last_mut().unwrap() = a;
                    continue;
                }
            }
            out.push(c);
        }
        if self.src == Src::Utf8 {
            for c in out.iter_mut() {
                if is_sur(*c) {
                    *c = 0xFFFD;
                }
            }
        }
        self.text = out;
        let n = self.text.len();
        for c in self.cuts.iter_mut() {
            if *c > n {
                *c = n;
            }
        }
        self.cuts.sort();
    }
    /// the scalar values the encoder is specified to see (unpaired surrogates read as U+FFFD)
    pub fn logical(&self) -> Vec<u32> {
        self.text.iter().map(|c| if is_sur(*c) { 0xFFFD } else { *c }).collect()
    }
    pub fn has_lone_surrogate(&self) -> bool {
        self.text.iter().any(|c| is_sur(*c))
    }
    pub fn to_json(&self) -> Value {
        json!({
            "kind": "enc_history",
            "encoding": encs::const_name(self.enc),
            "source": if self.src == Src::Utf8 { "utf8" } else { "utf16" },
            "sink": if self.sink == ESink::Slice { "slice" } else { "vec" },
            "replacement": self.repl,
            "text_code_points_hex": hex32(&self.text),
            "cuts_in_chars": self.cuts,
            "last_on_empty_call": self.last_on_empty,
            "caps": self.caps.iter().map(|c| match *c { CAP_QUERY => json!("query"), CAP_QUERY_EXACT => json!("query-exact"), CAP_AMPLE => json!("ample"), n => json!(n) }).collect::<Vec<_>>(),
            "fill": self.fill,
            "align": self.align,
            "undersized_capacities_allowed": self.undersized_ok,
        })
    }
    pub fn from_json(v: &Value) -> Option<EncHistory> {
        let mut h = EncHistory {
            enc: encs::by_const(v.get("encoding")?.as_str()?)?,
            src: if v.get("source")?.as_str()? == "utf8" { Src::Utf8 } else { Src::Utf16 },
            sink: if v.get("sink")?.as_str()? == "vec" { ESink::Vec } else { ESink::Slice },
            repl: v.get("replacement")?.as_bool()?,
            text: crate::fw::unhex32(v.get("text_code_points_hex")?.as_str()?),
            cuts: v.get("cuts_in_chars")?.as_array()?.iter().map(|x| x.as_u64().unwrap() as usize).collect(),
            last_on_empty: v.get("last_on_empty_call")?.as_bool()?,
            caps: v
                .get("caps")?
                .as_array()?
                .iter()
                .map(|x| match x.as_str() {
                    Some("query") => CAP_QUERY,
                    Some("query-exact") => CAP_QUERY_EXACT,
                    Some(_) => CAP_AMPLE,
                    None => x.as_u64().unwrap() as usize,
                })
                .collect(),
            fill: v.get("fill")?.as_u64()? as u8,
            align: v.get("align")?.as_u64()? as usize,
            undersized_ok: v.get("undersized_capacities_allowed").and_then(|x| x.as_bool()).unwrap_or(false),
        };
        h.normalize();
        Some(h)
    }
    pub fn hash(&self) -> u64 {
        let mut h = 0x1234u64;
        for c in &self.text {
            h = crate::fw::mix(h, *c as u64);
        }
        h = crate::fw::mix(h, encs::index_of(self.enc) as u64 * 16 + self.src as u64 * 8 + self.sink as u64 * 2 + self.repl as u64);
        for c in &self.cuts {
            h = crate::fw::mix(h, (*c as u64).wrapping_add(1));
        }
        h = crate::fw::mix(h, 0xFFFF + self.last_on_empty as u64);
        for c in &self.caps {
            h = crate::fw::mix(h, (*c as u64).wrapping_add(7));
        }
        h
    }
    pub fn min_cap(&self) -> usize {
        if self.repl {
            14
        } else {
            4
        }
    }
    pub fn shrink_candidates(&self) -> Vec<EncHistory> {
        let mut out = Vec::new();
        let n = self.text.len();
        let mut spans: Vec<(usize, usize)> = Vec::new();
        if n > 4 {
            spans.push((0, n / 2));
            spans.push((n / 2, n));
        }
        for i in 0..n {
            spans.push((i, i + 1));
        }
        for (a, b) in spans {
            let mut h = self.clone();
            h.text.drain(a..b);
            let removed = b - a;
            h.cuts = h.cuts.iter().map(|c| if *c >= b { c - removed } else if *c > a { a } else { *c }).collect();
            h.normalize();
            out.push(h);
        }
        for i in 0..self.cuts.len() {
            let mut h = self.clone();
            h.cuts.remove(i);
            out.push(h);
        }
        if self.last_on_empty {
            let mut h = self.clone();
            h.last_on_empty = false;
            out.push(h);
        }
        if !self.caps.is_empty() {
            let mut h = self.clone();
            h.caps.clear();
            out.push(h);
            if self.caps.len() > 1 {
                for i in 0..self.caps.len() {
                    let mut h = self.clone();
                    h.caps.remove(i);
                    out.push(h);
                }
            }
        }
        if self.align != 0 {
            let mut h = self.clone();
            h.align = 0;
            out.push(h);
        }
        if self.sink == ESink::Vec {
            let mut h = self.clone();
            h.sink = ESink::Slice;
            out.push(h);
        }
        for i in 0..n {
            if self.text[i] != 'a' as u32 && self.text[i] < 0x80 {
                let mut h = self.clone();
                h.text[i] = 'a' as u32;
                out.push(h);
            }
        }
        out
    }
}

#[derive(Clone, Copy, PartialEq, Eq, Debug, Hash)]
pub enum ERes {
    InputEmpty,
    OutputFull,
    Unmappable(u32),
}

#[derive(Clone, Debug, PartialEq, Eq)]
pub struct ECall {
    /// offset of src[0] in source units, and in characters
    pub src_off_units: usize,
    pub src_off_chars: usize,
    pub src_len: usize,
    pub dst_len: usize,
    pub last: bool,
    pub res: ERes,
    pub read: usize,
    pub written: usize,
    pub flag: bool,
    pub cap_from_query: bool,
    pub pending_after: bool,
    /// bytes emitted so far (after this call)
    pub out_len_after: usize,
}

#[derive(Clone, Copy, PartialEq, Eq, Debug, Hash)]
pub enum EFaultKind {
    Panic,
    Bounds,
    Progress,
    MaxQuery,
}

#[derive(Clone, Debug)]
pub struct EFault {
    pub kind: EFaultKind,
    pub msg: String,
    pub call_index: usize,
}

#[derive(Clone, Debug, Default)]
pub struct EncOutcome {
    pub calls: Vec<ECall>,
    pub out: Vec<u8>,
    /// raw mode: (char index, reported char)
    pub unmappables: Vec<(usize, u32)>,
    pub had_unmappables: bool,
    pub faults: Vec<EFault>,
    pub completed: bool,
    pub encoder_encoding: Option<&'static Encoding>,
}

impl EncOutcome {
    pub fn first_fault(&self, kinds: &[EFaultKind]) -> Option<&EFault> {
        self.faults.iter().find(|f| kinds.contains(&f.kind))
    }
    pub fn output_full_count(&self) -> usize {
        self.calls.iter().filter(|c| c.res == ERes::OutputFull).count()
    }
    pub fn transcript_json(&self) -> Value {
        Value::Array(
            self.calls
                .iter()
                .map(|c| json!(format!("src@char{}+{}units dst{}{} last={} -> {:?} read={} written={} flag={} pending_after={}", c.src_off_chars, c.src_len, c.dst_len, if c.cap_from_query { "(query)" } else { "" }, c.last, c.res, c.read, c.written, c.flag, c.pending_after)))
                .collect(),
        )
    }
}

const BAND: usize = 32;
const CANARY8: u8 = 0xC9;

pub struct EncDriver {
    buf: Vec<u8>,
    pub exact_alloc: bool,
    /// guard-page mode for histories with an odd `align` (see drive_dec.rs)
    pub guard: bool,
    g_src: Option<crate::guard::GuardRegion>,
    g_dst: Option<crate::guard::GuardRegion>,
}

/// materialised source text with prefix tables
pub struct Materialised {
    pub utf8: String,
    pub utf16: Vec<u16>,
    /// unit offset of each character start (len+1 entries) in the chosen source form
    pub starts: Vec<usize>,
}

pub fn materialise(h: &EncHistory) -> Materialised {
    let mut utf8 = String::new();
    let mut utf16: Vec<u16> = Vec::new();
    let mut starts = Vec::with_capacity(h.text.len() + 1);
    for &c in &h.text {
        match h.src {
            Src::Utf8 => {
                starts.push(utf8.len());
                utf8.push(char::from_u32(c).unwrap_or('\u{FFFD}'));
            }
            Src::Utf16 => {
                starts.push(utf16.len());
                if is_sur(c) {
                    utf16.push(c as u16);
                } else {
                    let mut b = [0u16; 2];
                    utf16.extend_from_slice(char::from_u32(c).unwrap_or('\u{FFFD}').encode_utf16(&mut b));
                }
            }
        }
    }
    starts.push(match h.src {
        Src::Utf8 => utf8.len(),
        Src::Utf16 => utf16.len(),
    });
    Materialised { utf8, utf16, starts }
}

impl EncDriver {
    pub fn new() -> EncDriver {
        EncDriver { buf: Vec::new(), exact_alloc: false, guard: crate::guard::enabled(), g_src: None, g_dst: None }
    }

    pub fn run(&mut self, h: &EncHistory) -> EncOutcome {
        let mut enc = h.enc.new_encoder();
        self.run_with(h, &mut enc)
    }

    pub fn run_with(&mut self, h: &EncHistory, enc: &mut Encoder) -> EncOutcome {
        crate::guard::set_current(h as *const EncHistory as *const (), render_enc_history);
        let out = self.run_with_inner(h, enc);
        crate::guard::clear_current();
        out
    }

    fn run_with_inner(&mut self, h: &EncHistory, enc: &mut Encoder) -> EncOutcome {
        let mut out = EncOutcome::default();
        out.encoder_encoding = Some(enc.encoding());
        let m = materialise(h);
        let nchars = h.text.len();
        let total_units = *m.starts.last().unwrap();
        let mut bounds: Vec<usize> = vec![0];
        for c in &h.cuts {
            let c = (*c).min(nchars);
            let prev = *bounds.last().unwrap();
            bounds.push(c.max(prev));
        }
        bounds.push(nchars);
        let nchunks = bounds.len() - 1;
        let total_chunks = nchunks + if h.last_on_empty { 1 } else { 0 };
        let ample = 16 * nchars + 32;
        let call_limit = 10 * (4 * total_units + 16) + 4 * total_chunks;
        let linear_bound = 4 * total_units + 16 + 2 * total_chunks;
        let prefix: &[u8] = b"pre\xE9";
        let mut cap_i = 0usize;
        let mut call_index = 0usize;
        let min_cap = h.min_cap();
        'chunks: for k in 0..total_chunks {
            let (ca, cb) = if k < nchunks { (bounds[k], bounds[k + 1]) } else { (nchars, nchars) };
            let last = k + 1 == total_chunks;
            let chunk_end = m.starts[cb];
            let mut off = m.starts[ca];
            loop {
                let src_len = chunk_end - off;
                let mut from_query = false;
                let cap = if h.caps.is_empty() {
                    ample
                } else {
                    let c = h.caps[cap_i % h.caps.len()];
                    cap_i += 1;
                    if c == CAP_QUERY || c == CAP_QUERY_EXACT {
                        from_query = true;
                        let q = match (h.src, h.repl) {
                            (Src::Utf8, true) => enc.max_buffer_length_from_utf8_if_no_unmappables(src_len),
                            (Src::Utf8, false) => enc.max_buffer_length_from_utf8_without_replacement(src_len),
                            (Src::Utf16, true) => enc.max_buffer_length_from_utf16_if_no_unmappables(src_len),
                            (Src::Utf16, false) => enc.max_buffer_length_from_utf16_without_replacement(src_len),
                        };
                        if c == CAP_QUERY_EXACT {
                            q.unwrap_or(ample)
                        } else {
                            q.unwrap_or(ample).max(min_cap)
                        }
                    } else if c == CAP_AMPLE {
                        ample
                    } else {
                        if h.undersized_ok {
                            c
                        } else {
                            c.max(min_cap)
                        }
                    }
                };
                // destination
                let band = if self.exact_alloc { 0 } else { BAND };
                let al = h.align & 15;
                let mut vec_dst: Option<Vec<u8>> = None;
                let result: Result<(ERes, usize, usize, bool), String>;
                let mut real_cap = cap;
                let use_guard = self.guard && (h.align & 1 == 1) && src_len <= 8192 && cap <= 16384;
                // in guard mode the source chunk is copied against a guard page
                let mut gs8: &str = "";
                let mut gs16: &[u16] = &[];
                if use_guard {
                    let g = self.g_src.get_or_insert_with(|| crate::guard::GuardRegion::new(16));
                    match h.src {
                        Src::Utf8 => {
                            let b = m.utf8[off..chunk_end].as_bytes();
                            let s = if h.align & 2 == 0 { g.end_u8(b.len()) } else { g.start_u8(b.len()) };
                            s.copy_from_slice(b);
                            gs8 = unsafe { std::str::from_utf8_unchecked(std::slice::from_raw_parts(s.as_ptr(), s.len())) };
                        }
                        Src::Utf16 => {
                            let b = &m.utf16[off..chunk_end];
                            let s = if h.align & 2 == 0 { g.end_u16(b.len()) } else { g.start_u16(b.len()) };
                            s.copy_from_slice(b);
                            gs16 = unsafe { std::slice::from_raw_parts(s.as_ptr(), s.len()) };
                        }
                    }
                }
                match h.sink {
                    ESink::Slice if use_guard => {
                        let g = self.g_dst.get_or_insert_with(|| crate::guard::GuardRegion::new(16));
                        let dst = g.end_u8(cap);
                        for b in dst.iter_mut() {
                            *b = h.fill;
                        }
                        result = catch(|| match h.src {
                            Src::Utf8 => {
                                if h.repl {
                                    let (r, rd, wr, f) = enc.encode_from_utf8(gs8, dst, last);
                                    (coder(r), rd, wr, f)
                                } else {
                                    let (r, rd, wr) = enc.encode_from_utf8_without_replacement(gs8, dst, last);
                                    (encr(r), rd, wr, false)
                                }
                            }
                            Src::Utf16 => {
                                if h.repl {
                                    let (r, rd, wr, f) = enc.encode_from_utf16(gs16, dst, last);
                                    (coder(r), rd, wr, f)
                                } else {
                                    let (r, rd, wr) = enc.encode_from_utf16_without_replacement(gs16, dst, last);
                                    (encr(r), rd, wr, false)
                                }
                            }
                        });
                        // copy out so that the common post-processing below applies
                        let o = band + al;
                        self.buf.clear();
                        self.buf.resize(o, CANARY8);
                        self.buf.extend_from_slice(dst);
                        self.buf.resize(o + cap + band, CANARY8);
                        // the guarded source must be unchanged
                        let same = match h.src {
                            Src::Utf8 => gs8.as_bytes() == m.utf8[off..chunk_end].as_bytes(),
                            Src::Utf16 => gs16 == &m.utf16[off..chunk_end],
                        };
                        if !same {
                            out.faults.push(EFault { kind: EFaultKind::Bounds, msg: "source buffer was modified".into(), call_index });
                        }
                    }
                    ESink::Slice => {
                        let o = band + al;
                        if self.exact_alloc {
                            self.buf = Vec::with_capacity(o + cap);
                        }
                        self.buf.clear();
                        self.buf.resize(o + cap + band, CANARY8);
                        for b in &mut self.buf[o..o + cap] {
                            *b = h.fill;
                        }
                        let dst = &mut self.buf[o..o + cap];
                        result = catch(|| match h.src {
                            Src::Utf8 => {
                                let s = &m.utf8[off..chunk_end];
                                if h.repl {
                                    let (r, rd, wr, f) = enc.encode_from_utf8(s, dst, last);
                                    (coder(r), rd, wr, f)
                                } else {
                                    let (r, rd, wr) = enc.encode_from_utf8_without_replacement(s, dst, last);
                                    (encr(r), rd, wr, false)
                                }
                            }
                            Src::Utf16 => {
                                let s = &m.utf16[off..chunk_end];
                                if h.repl {
                                    let (r, rd, wr, f) = enc.encode_from_utf16(s, dst, last);
                                    (coder(r), rd, wr, f)
                                } else {
                                    let (r, rd, wr) = enc.encode_from_utf16_without_replacement(s, dst, last);
                                    (encr(r), rd, wr, false)
                                }
                            }
                        });
                    }
                    ESink::Vec => {
                        // only the UTF-8 source has Vec-receiving variants; a UTF-16 source falls back to a slice
                        let mut v: Vec<u8> = Vec::with_capacity(prefix.len() + cap);
                        v.extend_from_slice(prefix);
                        real_cap = v.capacity() - v.len();
                        unsafe {
                            let p = v.as_mut_ptr().add(v.len());
                            for i in 0..real_cap {
                                p.add(i).write(h.fill);
                            }
                        }
                        let ptr_before = v.as_ptr();
                        let cap_before = v.capacity();
                        let r = catch(|| match h.src {
                            Src::Utf8 => {
                                let s = &m.utf8[off..chunk_end];
                                if h.repl {
                                    let (r, rd, f) = enc.encode_from_utf8_to_vec(s, &mut v, last);
                                    (coder(r), rd, 0usize, f)
                                } else {
                                    let (r, rd) = enc.encode_from_utf8_to_vec_without_replacement(s, &mut v, last);
                                    (encr(r), rd, 0usize, false)
                                }
                            }
                            Src::Utf16 => {
                                // emulate through the spare capacity as a slice
                                let s = &m.utf16[off..chunk_end];
                                let old = v.len();
                                let spare = unsafe { std::slice::from_raw_parts_mut(v.as_mut_ptr().add(old), real_cap) };
                                let (res, rd, wr, f) = if h.repl {
                                    let (r, rd, wr, f) = enc.encode_from_utf16(s, spare, last);
                                    (coder(r), rd, wr, f)
                                } else {
                                    let (r, rd, wr) = enc.encode_from_utf16_without_replacement(s, spare, last);
                                    (encr(r), rd, wr, false)
                                };
                                unsafe { v.set_len(old + wr.min(real_cap)) };
                                (res, rd, 0usize, f)
                            }
                        });
                        if v.as_ptr() != ptr_before || v.capacity() != cap_before {
                            out.faults.push(EFault { kind: EFaultKind::Bounds, msg: "Vec destination was reallocated".into(), call_index });
                        }
                        if !v.starts_with(prefix) {
                            out.faults.push(EFault { kind: EFaultKind::Bounds, msg: "existing Vec contents were altered".into(), call_index });
                        }
                        result = r.map(|(res, rd, _, f)| (res, rd, v.len().saturating_sub(prefix.len()), f));
                        vec_dst = Some(v);
                    }
                }
                let (res, read, written, flag) = match result {
                    Err(msg) => {
                        out.faults.push(EFault { kind: EFaultKind::Panic, msg: format!("panic: {}", msg), call_index });
                        break 'chunks;
                    }
                    Ok(t) => t,
                };
                if read > src_len {
                    out.faults.push(EFault { kind: EFaultKind::Bounds, msg: format!("read {} > src.len() {}", read, src_len), call_index });
                }
                if written > real_cap {
                    out.faults.push(EFault { kind: EFaultKind::Bounds, msg: format!("written {} > dst.len() {}", written, real_cap), call_index });
                }
                if res == ERes::InputEmpty && read != src_len {
                    out.faults.push(EFault { kind: EFaultKind::Bounds, msg: format!("InputEmpty with read {} != src.len() {}", read, src_len), call_index });
                }
                let read = read.min(src_len);
                let written = written.min(real_cap);
                // read must land on a character boundary of the source
                let new_off = off + read;
                let char_idx = match m.starts.binary_search(&new_off) {
                    Ok(i) => i,
                    Err(i) => {
                        out.faults.push(EFault { kind: EFaultKind::Bounds, msg: format!("read {} ends inside a character (unit offset {})", read, new_off), call_index });
                        i
                    }
                };
                match (&vec_dst, h.sink) {
                    // (a Vec shorter than its old contents was reported as a fault above)
                    (Some(v), _) => out.out.extend_from_slice(v.get(prefix.len()..).unwrap_or(&[])),
                    (None, _) => {
                        let o = band + al;
                        if self.buf[..o].iter().any(|b| *b != CANARY8) || self.buf[o + cap..].iter().any(|b| *b != CANARY8) {
                            out.faults.push(EFault { kind: EFaultKind::Bounds, msg: "bytes outside the destination slice were modified".into(), call_index });
                        }
                        out.out.extend_from_slice(&self.buf[o..o + written]);
                    }
                }
                let src_off_chars = m.starts.binary_search(&off).unwrap_or_else(|i| i);
                if let ERes::Unmappable(c) = res {
                    out.had_unmappables = true;
                    out.unmappables.push((char_idx.saturating_sub(1), c));
                    // the documented manual recovery: append the NCR ourselves
                    crate::model_enc::write_ncr(c, &mut out.out);
                }
                out.had_unmappables |= flag;
                let pending_after = enc.has_pending_state();
                out.calls.push(ECall { src_off_units: off, src_off_chars, src_len, dst_len: real_cap, last, res, read, written, flag, cap_from_query: from_query, pending_after, out_len_after: out.out.len() });
                off = new_off;
                if from_query && res == ERes::OutputFull {
                    out.faults.push(EFault { kind: EFaultKind::MaxQuery, msg: format!("OutputFull although dst.len() {} was the max_* answer for {} input units", real_cap, src_len), call_index });
                }
                let stream_ends = last && res == ERes::InputEmpty;
                if !stream_ends && read == 0 && written == 0 && !matches!(res, ERes::Unmappable(_)) && !(res == ERes::InputEmpty && src_len == 0) {
                    out.faults.push(EFault { kind: EFaultKind::Progress, msg: format!("call made no progress: {:?} read 0 written 0 with src.len() {} dst.len() {}", res, src_len, real_cap), call_index });
                    break 'chunks;
                }
                call_index += 1;
                if call_index > call_limit {
                    out.faults.push(EFault { kind: EFaultKind::Progress, msg: format!("caller loop did not terminate within {} calls for {} units", call_limit, total_units), call_index });
                    break 'chunks;
                }
                match res {
                    ERes::InputEmpty => break,
                    _ => continue,
                }
            }
            if k + 1 == total_chunks {
                out.completed = true;
            }
        }
        if out.completed && call_index > linear_bound {
            out.faults.push(EFault { kind: EFaultKind::Progress, msg: format!("{} calls for {} units exceeds the linear bound {}", call_index, total_units, linear_bound), call_index });
        }
        out
    }
}

fn render_enc_history(p: *const ()) -> String {
    let h = unsafe { &*(p as *const EncHistory) };
    h.to_json().to_string()
}

fn coder(r: CoderResult) -> ERes {
    match r {
        CoderResult::InputEmpty => ERes::InputEmpty,
        CoderResult::OutputFull => ERes::OutputFull,
    }
}

fn encr(r: EncoderResult) -> ERes {
    match r {
        EncoderResult::InputEmpty => ERes::InputEmpty,
        EncoderResult::OutputFull => ERes::OutputFull,
        EncoderResult::Unmappable(c) => ERes::Unmappable(c as u32),
    }
}

pub fn describe(h: &EncHistory) -> String {
    format!(
        "{} [from {} to {} {}] text [{}] cuts {:?} caps {:?}",
        h.enc.name(),
        if h.src == Src::Utf8 { "UTF-8" } else { "UTF-16" },
        if h.sink == ESink::Slice { "slice" } else { "Vec" },
        if h.repl { "with replacement" } else { "without replacement" },
        hex32(&h.text),
        h.cuts,
        h.caps.iter().map(|c| match *c { CAP_QUERY => "query".to_string(), CAP_QUERY_EXACT => "query-exact".to_string(), CAP_AMPLE => "ample".to_string(), n => n.to_string() }).collect::<Vec<_>>()
    )
}

pub fn _hex(b: &[u8]) -> String {
    hex(b)
}
