//! Encoder history generation: class alphabets per encoder, bounded-exhaustive core and the
//! random history strategy.

use crate::drive_enc::{ESink, EncHistory, Src, CAP_AMPLE, CAP_QUERY, CAP_QUERY_EXACT};
use crate::gen::pick;
use crate::golden::{golden, Cell};
use crate::model_enc::{enc_algo_for, EncAlgo};
use encoding_rs::Encoding;
use proptest::prelude::*;

/// class representatives common to all encoders
pub const COMMON: [u32; 48] = [
    0x61, 0x00, 0x0E, 0x0F, 0x1B, 0x5C, 0x7E, 0x7F, 0x80, 0xA5, 0x203E, 0x2212, 0xFF0D, 0xE9, 0x20AC, 0x3042, 0x30A2, 0xFF71, 0xFF61, 0xFF9F, 0x4E00, 0xAC00, 0x2550, 0x5341, 0xE5E5, 0xE7C7, 0xE78D, 0xE81E, 0xFE10, 0x1E3F, 0xF780, 0xF7FF, 0xFFFD,
    0xFFFF, 0x10000, 0x1F600, 0x2000B, 0x10FFFF, 0x3E8, 0x2710, 0x186A0, 0xF4240, 0x9FA6, 0xA0, 0x3E7, 0x270F, 0x1869F, 0xF423F,
];

pub const LONE_SURROGATES: [u32; 4] = [0xD800, 0xDBFF, 0xDC00, 0xDFFF];

fn index_for(algo: EncAlgo) -> Option<&'static Vec<Cell>> {
    let g = golden();
    match algo {
        EncAlgo::Big5 => Some(&g.big5),
        EncAlgo::EucKr => Some(&g.euc_kr),
        EncAlgo::ShiftJis | EncAlgo::EucJp | EncAlgo::Iso2022Jp => Some(&g.jis0208),
        EncAlgo::Gbk | EncAlgo::Gb18030 => Some(&g.gb18030),
        _ => None,
    }
}

/// a character drawn from the encoder's index (mapped, possibly a duplicate subject to the
/// pointer rules)
pub fn index_char(algo: EncAlgo, x: u32) -> u32 {
    let g = golden();
    match algo {
        EncAlgo::SingleByte(ix) => g.single_byte[ix].1[pick(x, 128)].map(|c| c as u32).unwrap_or(0xE9),
        EncAlgo::XUserDefined => 0xF780 + (x % 128),
        EncAlgo::Utf8 => {
            let c = x % 0x110000;
            if (0xD800..=0xDFFF).contains(&c) {
                0xFFFD
            } else {
                c
            }
        }
        _ => {
            let idx = index_for(algo).unwrap();
            let mut p = pick(x, idx.len());
            for _ in 0..64 {
                if let Cell::One(c) = idx[p] {
                    return c;
                }
                p = (p + 1) % idx.len();
            }
            0x4E00
        }
    }
}

/// the per-encoder class alphabet used by the bounded-exhaustive core
pub fn alphabet(enc: &'static Encoding) -> Vec<u32> {
    let algo = enc_algo_for(enc);
    let g = golden();
    let mut a: Vec<u32> = vec![0x61, 0x5C, 0x7E, 0x80, 0xE9, 0x20AC, 0x4E00, 0x3042, 0x1F600, 0xFFFD];
    match algo {
        EncAlgo::Iso2022Jp => a.extend_from_slice(&[0x0E, 0x1B, 0xA5, 0x203E, 0x2212, 0xFF71, 0xFF9F, 0x30A2, 0x2160, 0x9FA0, 0xFF0D]),
        EncAlgo::EucJp | EncAlgo::ShiftJis => a.extend_from_slice(&[0xA5, 0x203E, 0x2212, 0xFF71, 0x2160, 0x2252, 0xFFE2, 0x7E8A, 0xE000]),
        EncAlgo::Gbk | EncAlgo::Gb18030 => a.extend_from_slice(&[0xE5E5, 0xE7C7, 0xE78D, 0xE81E, 0xFE10, 0x1E3F, 0xA0, 0x10000, 0x10FFFF, 0xFFFF, 0x9FB4]),
        EncAlgo::Big5 => {
            let astral = g.big5.iter().find_map(|c| match c {
                Cell::One(x) if *x >= 0x10000 => Some(*x),
                _ => None,
            });
            a.extend_from_slice(&[0x2550, 0x255E, 0x5341, 0x5345, 0xCA, 0x304, 0x2000B]);
            if let Some(x) = astral {
                a.push(x);
            }
            // a character that only occurs below the Big5 encoder's lower pointer bound
            let lo = (0xA1 - 0x81) * 157;
            if let Some(c) = g.big5[..lo].iter().find_map(|c| match c {
                Cell::One(x) if !g.big5[lo..].contains(&Cell::One(*x)) => Some(*x),
                _ => None,
            }) {
                a.push(c);
            }
        }
        EncAlgo::EucKr => a.extend_from_slice(&[0xAC00, 0xAC02, 0xD7A3, 0x3000]),
        EncAlgo::XUserDefined => a.extend_from_slice(&[0xF780, 0xF7FF, 0xF77F, 0xF800]),
        EncAlgo::SingleByte(ix) => {
            for c in g.single_byte[ix].1.iter().flatten().take(3) {
                a.push(*c as u32);
            }
            a.extend_from_slice(&[0xA0, 0xFF, 0x100, 0x2122]);
        }
        EncAlgo::Utf8 => a.extend_from_slice(&[0x7FF, 0x800, 0xFFFF, 0x10000, 0x10FFFF]),
    }
    a.extend(length_class_reps(enc));
    a.sort();
    a.dedup();
    a
}

/// First and last mappable character of every (UTF-8 length, encoded length) class of an encoder -
/// the classes its worst-case buffer-length formulas and space checks are written in terms of
/// (e.g. EUC-JP: a two-byte UTF-8 character that becomes two bytes, like U+00A7).  Cached.
pub fn length_class_reps(enc: &'static Encoding) -> Vec<u32> {
    use std::collections::{BTreeMap, HashMap};
    use std::sync::{Mutex, OnceLock};
    static CACHE: OnceLock<Mutex<HashMap<usize, Vec<u32>>>> = OnceLock::new();
    let key = enc as *const Encoding as usize;
    let cache = CACHE.get_or_init(|| Mutex::new(HashMap::new()));
    if let Some(v) = cache.lock().unwrap().get(&key) {
        return v.clone();
    }
    let algo = enc_algo_for(enc);
    let mut classes: BTreeMap<(usize, usize), (u32, u32)> = BTreeMap::new();
    for c in (0x80u32..0x30000).chain(0xE0000..0xE0100).chain(0x10FF00..0x110000) {
        if (0xD800..=0xDFFF).contains(&c) {
            continue;
        }
        let o = crate::model_enc::encode(algo, &[c], false);
        if !o.unmappables.is_empty() {
            continue;
        }
        let k = (char::from_u32(c).unwrap().len_utf8(), o.bytes.len());
        classes.entry(k).and_modify(|e| e.1 = c).or_insert((c, c));
    }
    let mut v: Vec<u32> = Vec::new();
    for (_, (a, b)) in classes {
        v.push(a);
        v.push(b);
    }
    v.sort();
    v.dedup();
    cache.lock().unwrap().insert(key, v.clone());
    v
}

pub const CAPS_RAW: [usize; 12] = [4, 5, 6, 7, 8, 9, 10, 15, 16, 17, 33, 64];
pub const CAPS_REPL: [usize; 14] = [14, 15, 16, 17, 18, 19, 20, 21, 22, 23, 24, 26, 33, 64];

pub fn cap_patterns(repl: bool, small_only: bool) -> Vec<Vec<usize>> {
    let m = if repl { 14 } else { 4 };
    let mut v = vec![vec![m], vec![m + 1], vec![m + 2], vec![m + 3]];
    if !small_only {
        v.push(vec![m + 4]);
        v.push(vec![m + 5]);
        v.push(vec![m + 6]);
        v.push(vec![m + 10]);
        v.push(vec![m, 64]);
        v.push(vec![64, m]);
        v.push(vec![]);
    }
    v
}

#[derive(Clone, Copy, Debug)]
pub struct EProfile {
    pub max_chars: usize,
    pub small_caps_weight: u8,
    pub queries: bool,
    /// query steps offer exactly the answer (C07)
    pub exact_queries: bool,
    /// only generate characters the encoder can map (for the if_no_unmappables queries)
    pub mappable_only: bool,
}

type Raw = (Vec<(u8, u32)>, Vec<u32>, Vec<u32>, (u8, u8, u8, u8), (bool, bool, bool));

pub fn text_char(algo: EncAlgo, utf16: bool, kind: u8, x: u32) -> u32 {
    match kind % 10 {
        0 => 0x61,
        1 | 2 | 3 => COMMON[pick(x, COMMON.len())],
        4 | 5 => index_char(algo, x),
        6 => {
            let c = x % 0x110000;
            if (0xD800..=0xDFFF).contains(&c) {
                0x4E00
            } else {
                c
            }
        }
        7 => {
            if utf16 {
                LONE_SURROGATES[pick(x, 4)]
            } else {
                0x1F600
            }
        }
        8 => 0x20 + x % 0x5F,
        _ => [0x0E, 0x0F, 0x1B, 0x5C, 0x7E, 0xA5, 0x203E, 0x2212, 0xFF71, 0xFF65][pick(x, 10)],
    }
}

/// one generated token: usually one character, sometimes an ASCII run whose length straddles the
/// 16-unit strides of the encoders' ASCII fast paths
pub fn text_token(algo: EncAlgo, utf16: bool, kind: u8, x: u32, out: &mut Vec<u32>) {
    if kind % 10 == 8 && (x >> 8) % 3 != 0 {
        let n = crate::gen::ASCII_RUN_LENS[pick(x, crate::gen::ASCII_RUN_LENS.len())];
        for i in 0..n {
            out.push(0x20 + ((x >> 16) + i as u32 * 7) % 0x5F);
        }
    } else {
        out.push(text_char(algo, utf16, kind, x));
    }
}

pub fn history(enc: &'static Encoding, prof: EProfile) -> impl Strategy<Value = EncHistory> {
    let algo = enc_algo_for(enc);
    let raw = (
        proptest::collection::vec((any::<u8>(), any::<u32>()), 0..=prof.max_chars),
        proptest::collection::vec(any::<u32>(), 0..=6),
        proptest::collection::vec(any::<u32>(), 0..=5),
        (any::<u8>(), any::<u8>(), any::<u8>(), any::<u8>()),
        (any::<bool>(), any::<bool>(), any::<bool>()),
    );
    raw.prop_map(move |r: Raw| {
        let (chars, cutf, capx, (s, k, fill, align), (repl, last_on_empty, utf16)) = r;
        let src = if utf16 { Src::Utf16 } else { Src::Utf8 };
        let mut text: Vec<u32> = Vec::new();
        // one history in 32 is long: the token list repeated 4..=35 times with varied parameters
        let reps = if fill % 32 == 5 { 4 + (align >> 3) as usize } else { 1 };
        for i in 0..reps {
            for (kind, x) in &chars {
                text_token(algo, utf16, *kind, x.wrapping_add((i as u32).wrapping_mul(0x9E37_79B9)), &mut text);
            }
        }
        if prof.mappable_only {
            for c in text.iter_mut() {
                if crate::drive_enc::is_sur(*c) || !crate::model_enc::mappable(algo, *c) {
                    *c = 0x61;
                }
            }
        }
        let sink = if s % 3 == 0 && !utf16 { ESink::Vec } else { ESink::Slice };
        let mut h = EncHistory { enc, src, sink, repl, text, cuts: vec![], last_on_empty, caps: vec![], fill, align: (align & 15) as usize, undersized_ok: false };
        h.normalize();
        let n = h.text.len();
        h.cuts = cutf.iter().map(|f| pick(*f, n + 1)).collect();
        h.cuts.sort();
        let list: &[usize] = if repl { &CAPS_REPL } else { &CAPS_RAW };
        let m = h.min_cap();
        let small = k < prof.small_caps_weight;
        h.caps = capx
            .iter()
            .map(|x| {
                if prof.queries && x % 5 == 0 {
                    if prof.exact_queries {
                        CAP_QUERY_EXACT
                    } else {
                        CAP_QUERY
                    }
                } else if small {
                    m + pick(*x, 4)
                } else if x % 11 == 0 {
                    CAP_AMPLE
                } else {
                    list[pick(*x, list.len())]
                }
            })
            .collect();
        h
    })
}

/// all cut sets (in characters) of a text of n characters, plus empty-chunk variants
pub fn cut_sets(n: usize) -> Vec<Vec<usize>> {
    crate::hist::cut_sets(n)
}
