//! Guard pages ("electric fence"): buffers placed so that they END exactly at a PROT_NONE page
//! (and can START right after one), which turns any read or write outside the buffer - also
//! through raw pointers and SIMD loads that no bounds or unsafe-precondition check sees - into
//! an immediate SIGSEGV in every build configuration, without a sanitizer.  A signal handler
//! turns the fault into a regular VIOLATION with the current case as the replay.

use std::cell::Cell;

const PAGE: usize = 4096;

pub struct GuardRegion {
    base: *mut u8,
    usable: usize,
}

unsafe impl Send for GuardRegion {}

impl GuardRegion {
    /// `[PROT_NONE page][usable_pages read/write][PROT_NONE page]`
    pub fn new(usable_pages: usize) -> GuardRegion {
        let total = (usable_pages + 2) * PAGE;
        unsafe {
            let p = libc::mmap(std::ptr::null_mut(), total, libc::PROT_READ | libc::PROT_WRITE, libc::MAP_PRIVATE | libc::MAP_ANONYMOUS, -1, 0);
            assert!(p != libc::MAP_FAILED, "mmap failed");
            let p = p as *mut u8;
            assert_eq!(libc::mprotect(p as *mut libc::c_void, PAGE, libc::PROT_NONE), 0);
            assert_eq!(libc::mprotect(p.add(total - PAGE) as *mut libc::c_void, PAGE, libc::PROT_NONE), 0);
            GuardRegion { base: p.add(PAGE), usable: usable_pages * PAGE }
        }
    }
    pub fn capacity(&self) -> usize {
        self.usable
    }
    /// a slice of `len` bytes whose end is the start of the rear guard page
    pub fn end_u8(&mut self, len: usize) -> &mut [u8] {
        assert!(len <= self.usable);
        unsafe { std::slice::from_raw_parts_mut(self.base.add(self.usable - len), len) }
    }
    pub fn end_u16(&mut self, len: usize) -> &mut [u16] {
        assert!(2 * len <= self.usable);
        unsafe { std::slice::from_raw_parts_mut(self.base.add(self.usable - 2 * len) as *mut u16, len) }
    }
    /// a slice of `len` bytes that starts right after the front guard page
    pub fn start_u8(&mut self, len: usize) -> &mut [u8] {
        assert!(len <= self.usable);
        unsafe { std::slice::from_raw_parts_mut(self.base, len) }
    }
    pub fn start_u16(&mut self, len: usize) -> &mut [u16] {
        assert!(2 * len <= self.usable);
        unsafe { std::slice::from_raw_parts_mut(self.base as *mut u16, len) }
    }
}

impl Drop for GuardRegion {
    fn drop(&mut self) {
        unsafe {
            libc::munmap(self.base.sub(PAGE) as *mut libc::c_void, self.usable + 2 * PAGE);
        }
    }
}

/// when set, newly created drivers / runners run in guard-page mode (C06 turns it on)
pub static ENABLED: std::sync::atomic::AtomicBool = std::sync::atomic::AtomicBool::new(false);

pub fn enabled() -> bool {
    ENABLED.load(std::sync::atomic::Ordering::Relaxed)
}

thread_local! {
    /// (pointer to the current case, function that renders it as JSON text)
    static CURRENT: Cell<(*const (), Option<fn(*const ()) -> String>)> = const { Cell::new((std::ptr::null(), None)) };
}

const SLOTS: usize = 256;
#[allow(clippy::declare_interior_mutable_const)]
const ZERO: AtomicUsize = AtomicUsize::new(0);
/// per worker thread: number of cases started, pointer and renderer of the case in progress
static BEAT: [AtomicUsize; SLOTS] = [ZERO; SLOTS];
static CASE_PTR: [AtomicUsize; SLOTS] = [ZERO; SLOTS];
static CASE_FN: [AtomicUsize; SLOTS] = [ZERO; SLOTS];
static NEXT_SLOT: AtomicUsize = AtomicUsize::new(0);

use std::sync::atomic::{AtomicUsize, Ordering};

thread_local! {
    static SLOT: usize = NEXT_SLOT.fetch_add(1, Ordering::Relaxed) % SLOTS;
}

/// Register the case being executed on this thread (cheap: a few relaxed stores).
#[inline]
pub fn set_current(ptr: *const (), render: fn(*const ()) -> String) {
    CURRENT.with(|c| c.set((ptr, Some(render))));
    SLOT.with(|s| {
        CASE_FN[*s].store(render as usize, Ordering::Relaxed);
        CASE_PTR[*s].store(ptr as usize, Ordering::Relaxed);
        BEAT[*s].fetch_add(1, Ordering::Relaxed);
    });
}

#[inline]
pub fn clear_current() {
    CURRENT.with(|c| c.set((std::ptr::null(), None)));
    SLOT.with(|s| {
        CASE_PTR[*s].store(0, Ordering::Relaxed);
        BEAT[*s].fetch_add(1, Ordering::Relaxed);
    });
}

/// description of a direct API call (not a driver history) for the watchdog / fault handler
pub struct Desc {
    pub what: &'static str,
    pub encoding: &'static str,
    pub data: *const u8,
    pub len: usize,
}

fn render_desc(p: *const ()) -> String {
    let d = unsafe { &*(p as *const Desc) };
    let bytes = unsafe { std::slice::from_raw_parts(d.data, d.len.min(4096)) };
    format!("{{\"kind\": \"direct-call\", \"what\": \"{}\", \"encoding\": \"{}\", \"input_hex\": \"{}\"}}", d.what, d.encoding, crate::fw::hex(bytes))
}

/// RAII registration of a direct call
pub struct DescGuard;

impl Drop for DescGuard {
    fn drop(&mut self) {
        clear_current();
    }
}

pub fn enter(d: &Desc) -> DescGuard {
    set_current(d as *const Desc as *const (), render_desc);
    DescGuard
}

fn rss_bytes() -> usize {
    std::fs::read_to_string("/proc/self/statm").ok().and_then(|t| t.split_whitespace().nth(1).and_then(|x| x.parse::<usize>().ok())).map(|pages| pages * 4096).unwrap_or(0)
}

/// Watchdog: a single case (one history / one call of the crate) that runs for more than
/// `stuck_secs`, or a process that grows beyond `max_rss`, ends the check as INCONCLUSIVE
/// (exit 2, never a verdict) with the case printed, instead of hanging until the wrapper's
/// time-out or exhausting the machine's memory.
pub fn start_watchdog(stuck_secs: u64, max_rss: usize) {
    std::thread::spawn(move || {
        let mut last = vec![(0usize, 0u64); SLOTS];
        let mut tick = 0u64;
        loop {
            std::thread::sleep(std::time::Duration::from_millis(500));
            tick += 1;
            let rss = rss_bytes();
            let mut stuck: Option<usize> = None;
            for i in 0..SLOTS {
                let b = BEAT[i].load(Ordering::Relaxed);
                if b != last[i].0 {
                    last[i] = (b, tick);
                } else if CASE_PTR[i].load(Ordering::Relaxed) != 0 && (tick - last[i].1) / 2 >= stuck_secs {
                    stuck = Some(i);
                }
            }
            let over = max_rss != 0 && rss > max_rss;
            if stuck.is_some() || over {
                let mut case = String::from("(unknown)");
                let i = stuck.or_else(|| (0..SLOTS).find(|i| CASE_PTR[*i].load(Ordering::Relaxed) != 0));
                if let Some(i) = i {
                    let p = CASE_PTR[i].load(Ordering::Relaxed);
                    let f = CASE_FN[i].load(Ordering::Relaxed);
                    if p != 0 && f != 0 {
                        let f: fn(*const ()) -> String = unsafe { std::mem::transmute(f) };
                        case = f(p as *const ());
                    }
                }
                if over {
                    println!("check: watchdog: the check process grew to {} MiB (inconclusive, not a verdict); a case in progress: {}", rss >> 20, case.chars().take(1500).collect::<String>());
                } else {
                    println!("check: watchdog: a single case has been running for more than {} s - a call into the crate does not return (inconclusive, not a verdict); case: {}", stuck_secs, case.chars().take(1500).collect::<String>());
                }
                unsafe { libc::_exit(2) };
            }
        }
    });
}

static mut PROP: [u8; 8] = [0; 8];

extern "C" fn on_fault(sig: libc::c_int, info: *mut libc::siginfo_t, _ctx: *mut libc::c_void) {
    // not async-signal-safe, but the process is about to end anyway
    let addr = unsafe { (*info).si_addr() } as usize;
    let (ptr, render) = CURRENT.with(|c| c.get());
    let prop = unsafe { String::from_utf8_lossy(&PROP[..]).trim_end_matches('\0').to_string() };
    let case = match render {
        Some(f) if !ptr.is_null() => f(ptr),
        _ => String::from("null"),
    };
    let what = if sig == libc::SIGABRT {
        "the crate aborted the process (a failed unsafe-precondition check such as an out-of-range get_unchecked, or a panic that cannot unwind) although all documented preconditions were respected".to_string()
    } else {
        format!("memory fault (signal {}) at address {:#x} while the crate was working on guard-page-fenced buffers: an access outside a caller buffer", sig, addr)
    };
    if prop == "C06" && case != "null" {
        let root = crate::fw::verif_root();
        let dir = format!("{}/replays/tmp", root);
        let _ = std::fs::create_dir_all(&dir);
        let body = format!("{{\n \"property\": \"C06\",\n \"cfg\": \"{}\",\n \"msg\": \"{}\",\n \"sig\": \"C06:memory-fault\",\n \"case\": {}\n}}\n", crate::fw::cfg_name(), what, case);
        let path = format!("{}/C06-{}-fault-{:016x}.json", dir, crate::fw::cfg_name(), crate::fw::fnv(body.as_bytes()));
        let _ = std::fs::write(&path, body);
        println!("VIOLATION property=C06 replay={}", path);
        println!("  what: {} :: {}", what, case.chars().take(800).collect::<String>());
        unsafe { libc::_exit(1) };
    }
    eprintln!("check process: {} (property {} - reported as inconclusive here; C06 is the property that judges memory faults) case: {}", what, prop, case.chars().take(600).collect::<String>());
    unsafe {
        // restore the default action and re-raise so that the wrapper sees the signal
        libc::signal(sig, libc::SIG_DFL);
        libc::raise(sig);
        libc::_exit(2)
    }
}

/// Install the fault handler (SIGSEGV, SIGBUS) for the check of property `prop`.
pub fn install_fault_handler(prop: &str) {
    unsafe {
        let b = prop.as_bytes();
        for (i, x) in b.iter().take(7).enumerate() {
            PROP[i] = *x;
        }
        let mut sa: libc::sigaction = std::mem::zeroed();
        sa.sa_sigaction = on_fault as usize;
        sa.sa_flags = libc::SA_SIGINFO | libc::SA_NODEFER;
        libc::sigemptyset(&mut sa.sa_mask);
        libc::sigaction(libc::SIGSEGV, &sa, std::ptr::null_mut());
        libc::sigaction(libc::SIGBUS, &sa, std::ptr::null_mut());
        // rustc's unsafe-precondition checks (debug-assertion builds) end in abort()
        libc::sigaction(libc::SIGABRT, &sa, std::ptr::null_mut());
    }
}
