//! Decoder history driver: performs the documented caller loop over a chunked stream with a
//! sequence of output capacities, records a transcript, and evaluates per-call monitors.

use crate::encs;
use crate::fw::{catch, hex};
use encoding_rs::{CoderResult, Decoder, DecoderResult, Encoding};
use serde_json::{json, Value};

#[derive(Clone, Copy, PartialEq, Eq, Debug, Hash)]
pub enum BomMode {
    Sniff,
    Remove,
    None,
}

impl BomMode {
    pub const ALL: [BomMode; 3] = [BomMode::Sniff, BomMode::Remove, BomMode::None];
    pub fn name(self) -> &'static str {
        match self {
            BomMode::Sniff => "sniff",
            BomMode::Remove => "remove",
            BomMode::None => "none",
        }
    }
    pub fn from_name(s: &str) -> BomMode {
        match s {
            "sniff" => BomMode::Sniff,
            "remove" => BomMode::Remove,
            _ => BomMode::None,
        }
    }
    pub fn new_decoder(self, enc: &'static Encoding) -> Decoder {
        match self {
            BomMode::Sniff => enc.new_decoder(),
            BomMode::Remove => enc.new_decoder_with_bom_removal(),
            BomMode::None => enc.new_decoder_without_bom_handling(),
        }
    }
}

#[derive(Clone, Copy, PartialEq, Eq, Debug, Hash)]
pub enum Sink {
    Utf8,
    Utf16,
    Str,
    String,
}

impl Sink {
    pub const ALL: [Sink; 4] = [Sink::Utf8, Sink::Utf16, Sink::Str, Sink::String];
    pub fn name(self) -> &'static str {
        match self {
            Sink::Utf8 => "utf8",
            Sink::Utf16 => "utf16",
            Sink::Str => "str",
            Sink::String => "string",
        }
    }
    pub fn from_name(s: &str) -> Sink {
        match s {
            "utf8" => Sink::Utf8,
            "utf16" => Sink::Utf16,
            "str" => Sink::Str,
            _ => Sink::String,
        }
    }
    pub fn min_cap(self) -> usize {
        match self {
            Sink::Utf16 => 2,
            _ => 4,
        }
    }
    pub fn is_utf16(self) -> bool {
        self == Sink::Utf16
    }
}

/// capacity sentinel: "ask the matching max_* query for the remaining chunk and use exactly that"
pub const CAP_QUERY: usize = usize::MAX;
/// capacity sentinel: like CAP_QUERY but the destination is exactly the answer, even when that
/// is below the documented general minimum (what C07 states: "at least as large as the value
/// returned"); callers such as an end-of-stream flush sized by max_*(0) do exactly this
pub const CAP_QUERY_EXACT: usize = usize::MAX - 2;
/// capacity sentinel: ample (worst case for the whole stream)
pub const CAP_AMPLE: usize = usize::MAX - 1;
/// capacity sentinels CAP_UNDER_BASE + k (k = 0..=7): a destination of exactly k units, BELOW the
/// documented minimum - what a caller gets who hands over a String without spare capacity and
/// grows it after OutputFull.  Such a call may panic (the history then ends without a verdict:
/// `aborted_undersized`) or make no progress; if it returns, everything it reports must still
/// be true, and the rest of the history must come out as if the call had not been made.
pub const CAP_UNDER_BASE: usize = usize::MAX - 64;
pub fn cap_under(k: usize) -> usize {
    CAP_UNDER_BASE + k.min(7)
}

#[derive(Clone, Debug)]
pub struct DecHistory {
    pub enc: &'static Encoding,
    pub mode: BomMode,
    pub sink: Sink,
    pub repl: bool,
    pub stream: Vec<u8>,
    /// sorted cut positions in 0..=len (duplicates give empty chunks)
    pub cuts: Vec<usize>,
    /// raise `last` on an extra empty call instead of on the final data chunk
    pub last_on_empty: bool,
    /// capacity per call (cycled); empty = ample
    pub caps: Vec<usize>,
    /// destination pre-fill selector (byte pattern, or filler text kind for str/String sinks)
    pub fill: u8,
    /// start offset of source and destination inside their backing buffers
    pub align: usize,
    /// when non-empty, call k uses sink `sinks_per_call[k % len]` instead of `sink`: one stream
    /// decoded through a mixture of the UTF-8, UTF-16, &mut str and String methods
    pub sinks_per_call: Vec<Sink>,
    /// when non-empty, call k is made with replacement iff `repls_per_call[k % len]`: one stream
    /// decoded through a mixture of the with- and without-replacement methods
    pub repls_per_call: Vec<bool>,
}

impl DecHistory {
    pub fn simple(enc: &'static Encoding, mode: BomMode, sink: Sink, repl: bool, stream: &[u8]) -> DecHistory {
        DecHistory {
            enc,
            mode,
            sink,
            repl,
            stream: stream.to_vec(),
            cuts: Vec::new(),
            last_on_empty: false,
            caps: Vec::new(),
            fill: 0xA5,
            align: 0,
            sinks_per_call: Vec::new(),
            repls_per_call: Vec::new(),
        }
    }
    pub fn to_json(&self) -> Value {
        json!({
            "kind": "dec_history",
            "encoding": encs::const_name(self.enc),
            "mode": self.mode.name(),
            "sink": self.sink.name(),
            "replacement": self.repl,
            "stream_hex": hex(&self.stream),
            "cuts": self.cuts,
            "last_on_empty_call": self.last_on_empty,
            "caps": self.caps.iter().map(|c| match *c { CAP_QUERY => json!("query"), CAP_QUERY_EXACT => json!("query-exact"), CAP_AMPLE => json!("ample"), n if (CAP_UNDER_BASE..CAP_UNDER_BASE + 8).contains(&n) => json!(format!("below-minimum-{}", n - CAP_UNDER_BASE)), n => json!(n) }).collect::<Vec<_>>(),
            "fill": self.fill,
            "align": self.align,
            "sinks_per_call": self.sinks_per_call.iter().map(|s| s.name()).collect::<Vec<_>>(),
            "replacement_per_call": self.repls_per_call,
        })
    }
    pub fn from_json(v: &Value) -> Option<DecHistory> {
        let enc = encs::by_const(v.get("encoding")?.as_str()?)?;
        Some(DecHistory {
            enc,
            mode: BomMode::from_name(v.get("mode")?.as_str()?),
            sink: Sink::from_name(v.get("sink")?.as_str()?),
            repl: v.get("replacement")?.as_bool()?,
            stream: crate::fw::unhex(v.get("stream_hex")?.as_str()?),
            cuts: v.get("cuts")?.as_array()?.iter().map(|x| x.as_u64().unwrap() as usize).collect(),
            last_on_empty: v.get("last_on_empty_call")?.as_bool()?,
            caps: v
                .get("caps")?
                .as_array()?
                .iter()
                .map(|x| match x.as_str() {
                    Some("query") => CAP_QUERY,
                    Some("query-exact") => CAP_QUERY_EXACT,
                    Some(t) if t.starts_with("below-minimum-") => CAP_UNDER_BASE + t["below-minimum-".len()..].parse::<usize>().unwrap_or(0).min(7),
                    Some(_) => CAP_AMPLE,
                    None => x.as_u64().unwrap() as usize,
                })
                .collect(),
            fill: v.get("fill")?.as_u64()? as u8,
            align: v.get("align")?.as_u64()? as usize,
            sinks_per_call: v.get("sinks_per_call").and_then(|a| a.as_array()).map(|a| a.iter().filter_map(|x| x.as_str()).map(Sink::from_name).collect()).unwrap_or_default(),
            repls_per_call: v.get("replacement_per_call").and_then(|a| a.as_array()).map(|a| a.iter().filter_map(|x| x.as_bool()).collect()).unwrap_or_default(),
        })
    }
    pub fn repl_for_call(&self, k: usize) -> bool {
        if self.repls_per_call.is_empty() {
            self.repl
        } else {
            self.repls_per_call[k % self.repls_per_call.len()]
        }
    }
    pub fn is_mixed(&self) -> bool {
        !self.sinks_per_call.is_empty() || !self.repls_per_call.is_empty()
    }
    pub fn sink_for_call(&self, k: usize) -> Sink {
        if self.sinks_per_call.is_empty() {
            self.sink
        } else {
            self.sinks_per_call[k % self.sinks_per_call.len()]
        }
    }
    pub fn hash(&self) -> u64 {
        let mut h = crate::fw::fnv(&self.stream);
        h = crate::fw::mix(h, encs::index_of(self.enc) as u64 * 64 + self.mode as u64 * 16 + self.sink as u64 * 2 + self.repl as u64);
        for c in &self.cuts {
            h = crate::fw::mix(h, (*c as u64).wrapping_add(1));
        }
        h = crate::fw::mix(h, 0xFFFF + self.last_on_empty as u64);
        for c in &self.caps {
            h = crate::fw::mix(h, (*c as u64).wrapping_add(7));
        }
        for s in &self.sinks_per_call {
            h = crate::fw::mix(h, 0x5150 + *s as u64);
        }
        for r in &self.repls_per_call {
            h = crate::fw::mix(h, 0x7170 + *r as u64);
        }
        h
    }
    /// shrink candidates, simplest first
    pub fn shrink_candidates(&self) -> Vec<DecHistory> {
        let mut out = Vec::new();
        let n = self.stream.len();
        // drop a range of bytes (halves, then single bytes)
        let mut spans: Vec<(usize, usize)> = Vec::new();
        if n > 4 {
            spans.push((0, n / 2));
            spans.push((n / 2, n));
        }
        for i in 0..n {
            spans.push((i, i + 1));
        }
        for (a, b) in spans {
            let mut h = self.clone();
            h.stream.drain(a..b);
            let removed = b - a;
            h.cuts = h.cuts.iter().map(|c| if *c >= b { c - removed } else if *c > a { a } else { *c }).collect();
            out.push(h);
        }
        for i in 0..self.cuts.len() {
            let mut h = self.clone();
            h.cuts.remove(i);
            out.push(h);
        }
        if self.last_on_empty {
            let mut h = self.clone();
            h.last_on_empty = false;
            out.push(h);
        }
        if !self.caps.is_empty() {
            let mut h = self.clone();
            h.caps.clear();
            out.push(h);
            if self.caps.len() > 1 {
                for i in 0..self.caps.len() {
                    let mut h = self.clone();
                    h.caps.remove(i);
                    out.push(h);
                }
            }
        }
        if self.align != 0 {
            let mut h = self.clone();
            h.align = 0;
            out.push(h);
        }
        if !self.repls_per_call.is_empty() {
            let mut h = self.clone();
            h.repls_per_call.clear();
            out.push(h);
        }
        if !self.sinks_per_call.is_empty() {
            let mut h = self.clone();
            h.sinks_per_call.clear();
            out.push(h);
            for i in 0..self.sinks_per_call.len() {
                let mut h = self.clone();
                h.sinks_per_call.remove(i);
                if !h.sinks_per_call.is_empty() {
                    out.push(h);
                }
            }
        }
        for i in 0..n {
            if self.stream[i] != b'a' && self.stream[i] < 0x80 {
                let mut h = self.clone();
                h.stream[i] = b'a';
                out.push(h);
            }
        }
        out
    }
}

#[derive(Clone, Copy, PartialEq, Eq, Debug, Hash)]
pub enum Res {
    InputEmpty,
    OutputFull,
    Malformed(u8, u8),
}

#[derive(Clone, Debug, PartialEq, Eq)]
pub struct Call {
    /// absolute stream offset of src[0]
    pub src_off: usize,
    pub src_len: usize,
    pub dst_len: usize,
    pub last: bool,
    pub res: Res,
    pub read: usize,
    pub written: usize,
    pub flag: bool,
    pub cap_from_query: bool,
}

#[derive(Clone, Copy, PartialEq, Eq, Debug, Hash)]
pub enum FaultKind {
    /// the call panicked
    Panic,
    /// read/written/InputEmpty contract, canaries, source modified, String pointer/capacity/contents
    Bounds,
    /// output not well-formed / not whole characters / str or String invalid
    Valid,
    /// a call made no progress, or the loop exceeded its linear bound
    Progress,
    /// OutputFull although the capacity was the max_* answer
    MaxQuery,
    /// Malformed(len, after) outside the documented ranges or pointing outside the stream
    Range,
}

#[derive(Clone, Debug)]
pub struct Fault {
    pub kind: FaultKind,
    pub msg: String,
    pub call_index: usize,
}

#[derive(Clone, Debug, Default)]
pub struct DecOutcome {
    pub calls: Vec<Call>,
    pub out8: Vec<u8>,
    pub out16: Vec<u16>,
    /// scalar values in call order (what a mixed-sink history denotes); None once a call wrote
    /// something that is not whole-character text
    pub mixed: Option<Vec<u32>>,
    /// absolute (start, len) of each Malformed (raw mode)
    pub errors: Vec<(usize, usize)>,
    /// raw (len, after) pairs as reported (raw mode)
    pub raw_malformed: Vec<(u8, u8)>,
    pub had_errors: bool,
    pub final_enc: Option<&'static Encoding>,
    pub faults: Vec<Fault>,
    pub completed: bool,
    /// a call with a destination below the documented minimum panicked: the history ended there
    /// and carries no verdict
    pub aborted_undersized: bool,
}

impl DecOutcome {
    /// scalar values of the concatenated output, None if it is not well-formed
    /// scalars of the whole output: in call order for mixed-sink histories
    pub fn scalars_of(&self, h: &DecHistory) -> Option<Vec<u32>> {
        if !h.is_mixed() {
            self.scalars(h.sink)
        } else {
            self.mixed.clone()
        }
    }
    pub fn scalars(&self, sink: Sink) -> Option<Vec<u32>> {
        if sink.is_utf16() {
            let mut v = Vec::with_capacity(self.out16.len());
            for r in char::decode_utf16(self.out16.iter().cloned()) {
                match r {
                    Ok(c) => v.push(c as u32),
                    Err(_) => return None,
                }
            }
            Some(v)
        } else {
            std::str::from_utf8(&self.out8).ok().map(|s| s.chars().map(|c| c as u32).collect())
        }
    }
    pub fn first_fault(&self, kinds: &[FaultKind]) -> Option<&Fault> {
        self.faults.iter().find(|f| kinds.contains(&f.kind))
    }
    pub fn transcript_json(&self) -> Value {
        Value::Array(
            self.calls
                .iter()
                .map(|c| json!(format!("src@{}+{} dst{}{} last={} -> {:?} read={} written={} flag={}", c.src_off, c.src_len, c.dst_len, if c.cap_from_query { "(query)" } else { "" }, c.last, c.res, c.read, c.written, c.flag)))
                .collect(),
        )
    }
    pub fn output_full_count(&self) -> usize {
        self.calls.iter().filter(|c| c.res == Res::OutputFull).count()
    }
}

const BAND: usize = 32;
const CANARY8: u8 = 0xC9;
const CANARY16: u16 = 0xC9C9;

/// filler text for str/String destinations: kind 0 = NULs, 1 = 2-byte, 2 = 3-byte, 3 = 4-byte characters
fn filler_char(fill: u8) -> char {
    match fill & 3 {
        0 => '\u{0}',
        1 => '\u{E9}',
        2 => '\u{4E2D}',
        _ => '\u{1F600}',
    }
}

/// Build valid filler text of exactly `len` bytes: `phase` ASCII bytes, then repeated filler
/// characters, padded with ASCII.
pub fn filler_text(fill: u8, phase: usize, len: usize) -> String {
    let mut s = String::with_capacity(len);
    let c = filler_char(fill);
    let cl = c.len_utf8();
    let mut p = phase % cl.max(1);
    while p > 0 && s.len() < len {
        s.push('x');
        p -= 1;
    }
    while s.len() + cl <= len {
        s.push(c);
    }
    while s.len() < len {
        s.push('x');
    }
    s
}

pub struct DecDriver {
    buf8: Vec<u8>,
    buf16: Vec<u16>,
    srcbuf: Vec<u8>,
    /// when true every destination is an exact-size heap allocation (for ASan runs)
    pub exact_alloc: bool,
    /// stop (without finishing the stream) after this many calls; used to rebuild a decoder
    /// in the state it has at a given call boundary of a history
    pub stop_after_calls: Option<usize>,
    /// place sources (and slice destinations) of histories with an odd `align` against
    /// PROT_NONE guard pages, so that any access outside them faults (used by C06)
    pub guard: bool,
    g_src: Option<crate::guard::GuardRegion>,
    g_dst: Option<crate::guard::GuardRegion>,
    /// set by the history interpreter around a call whose destination is below the documented minimum
    tolerate_panic: bool,
}

pub struct StepOut {
    pub res: Res,
    pub read: usize,
    pub written: usize,
    pub flag: bool,
}

impl DecDriver {
    pub fn new() -> DecDriver {
        DecDriver { buf8: Vec::new(), buf16: Vec::new(), srcbuf: Vec::new(), exact_alloc: false, stop_after_calls: None, guard: crate::guard::enabled(), g_src: None, g_dst: None, tolerate_panic: false }
    }

    /// One decode call with all per-call monitors.  Output units are appended to `out`.
    #[allow(clippy::too_many_arguments)]
    pub fn step(
        &mut self,
        dec: &mut Decoder,
        sink: Sink,
        repl: bool,
        src: &[u8],
        cap: usize,
        last: bool,
        fill: u8,
        align: usize,
        out: &mut DecOutcome,
        call_index: usize,
    ) -> Option<StepOut> {
        // source carved out of a larger buffer at the requested alignment
        let band = if self.exact_alloc { 0 } else { BAND };
        let so = band + (align & 15);
        if self.exact_alloc {
            self.srcbuf = Vec::with_capacity(so + src.len());
        }
        self.srcbuf.clear();
        self.srcbuf.resize(so + src.len() + band, CANARY8);
        self.srcbuf[so..so + src.len()].copy_from_slice(src);
        let use_guard = self.guard && (align & 1 == 1) && src.len() <= 16384 && cap <= 8192;
        // (pointer, length) of the source the call will see
        let (sp, sl): (*const u8, usize) = if use_guard {
            let g = self.g_src.get_or_insert_with(|| crate::guard::GuardRegion::new(16));
            // ends at the rear guard page, or starts right after the front one
            let s = if align & 2 == 0 { g.end_u8(src.len()) } else { g.start_u8(src.len()) };
            s.copy_from_slice(src);
            (s.as_ptr(), s.len())
        } else {
            (self.srcbuf[so..so + src.len()].as_ptr(), src.len())
        };
        let mut faults: Vec<(FaultKind, String)> = Vec::new();
        let result: Result<(Res, usize, usize, bool), String>;
        let mut written_units8: Option<(usize, usize)> = None; // (offset, cap) in buf8
        let mut written_units16: Option<(usize, usize)> = None;
        let mut string_out: Option<String> = None;
        let prefix = "pre\u{E9}";
        match sink {
            Sink::Utf8 if use_guard => {
                let sb = unsafe { std::slice::from_raw_parts(sp, sl) };
                let g = self.g_dst.get_or_insert_with(|| crate::guard::GuardRegion::new(16));
                let db = g.end_u8(cap);
                for b in db.iter_mut() {
                    *b = fill;
                }
                result = catch(|| {
                    if repl {
                        let (r, rd, wr, f) = dec.decode_to_utf8(sb, db, last);
                        (coder(r), rd, wr, f)
                    } else {
                        let (r, rd, wr) = dec.decode_to_utf8_without_replacement(sb, db, last);
                        (decr(r), rd, wr, false)
                    }
                });
                self.buf8.clear();
                self.buf8.resize(BAND, CANARY8);
                self.buf8.extend_from_slice(db);
                self.buf8.resize(BAND + cap + BAND, CANARY8);
                written_units8 = Some((BAND, cap));
            }
            Sink::Utf16 if use_guard => {
                let sb = unsafe { std::slice::from_raw_parts(sp, sl) };
                let g = self.g_dst.get_or_insert_with(|| crate::guard::GuardRegion::new(16));
                let db = g.end_u16(cap);
                let f16 = (fill as u16) << 8 | fill as u16;
                for b in db.iter_mut() {
                    *b = f16;
                }
                result = catch(|| {
                    if repl {
                        let (r, rd, wr, f) = dec.decode_to_utf16(sb, db, last);
                        (coder(r), rd, wr, f)
                    } else {
                        let (r, rd, wr) = dec.decode_to_utf16_without_replacement(sb, db, last);
                        (decr(r), rd, wr, false)
                    }
                });
                self.buf16.clear();
                self.buf16.resize(BAND, CANARY16);
                self.buf16.extend_from_slice(db);
                self.buf16.resize(BAND + cap + BAND, CANARY16);
                written_units16 = Some((BAND, cap));
            }
            Sink::Utf8 => {
                let off = band + (align & 15);
                if self.exact_alloc {
                    self.buf8 = Vec::with_capacity(off + cap);
                }
                self.buf8.clear();
                self.buf8.resize(off + cap + band, CANARY8);
                for b in &mut self.buf8[off..off + cap] {
                    *b = fill;
                }
                let (sb, db) = (unsafe { std::slice::from_raw_parts(sp, sl) }, &mut self.buf8[off..off + cap]);
                result = catch(|| {
                    if repl {
                        let (r, rd, wr, f) = dec.decode_to_utf8(sb, db, last);
                        (coder(r), rd, wr, f)
                    } else {
                        let (r, rd, wr) = dec.decode_to_utf8_without_replacement(sb, db, last);
                        (decr(r), rd, wr, false)
                    }
                });
                written_units8 = Some((off, cap));
            }
            Sink::Utf16 => {
                let off = band + (align & 15);
                if self.exact_alloc {
                    self.buf16 = Vec::with_capacity(off + cap);
                }
                self.buf16.clear();
                self.buf16.resize(off + cap + band, CANARY16);
                let f16 = (fill as u16) << 8 | fill as u16;
                for b in &mut self.buf16[off..off + cap] {
                    *b = f16;
                }
                let (sb, db) = (unsafe { std::slice::from_raw_parts(sp, sl) }, &mut self.buf16[off..off + cap]);
                result = catch(|| {
                    if repl {
                        let (r, rd, wr, f) = dec.decode_to_utf16(sb, db, last);
                        (coder(r), rd, wr, f)
                    } else {
                        let (r, rd, wr) = dec.decode_to_utf16_without_replacement(sb, db, last);
                        (decr(r), rd, wr, false)
                    }
                });
                written_units16 = Some((off, cap));
            }
            Sink::Str => {
                // a String of canary + filler text + canary; the destination is the middle part
                let mut s = String::with_capacity(2 * BAND + cap);
                for _ in 0..BAND {
                    s.push('c');
                }
                s.push_str(&filler_text(fill, align, cap));
                for _ in 0..BAND {
                    s.push('c');
                }
                let sb = unsafe { std::slice::from_raw_parts(sp, sl) };
                let r = {
                    let dst: &mut str = &mut s[BAND..BAND + cap];
                    catch(|| {
                        if repl {
                            let (r, rd, wr, f) = dec.decode_to_str(sb, dst, last);
                            (coder(r), rd, wr, f)
                        } else {
                            let (r, rd, wr) = dec.decode_to_str_without_replacement(sb, dst, last);
                            (decr(r), rd, wr, false)
                        }
                    })
                };
                result = r;
                // whole-destination validity, also after a panic
                let bytes = s.as_bytes();
                if std::str::from_utf8(bytes).is_err() {
                    faults.push((FaultKind::Valid, format!("&mut str destination is not valid UTF-8 after the call: {}", hex(&bytes[BAND..BAND + cap]))));
                }
                if bytes[..BAND].iter().any(|b| *b != b'c') || bytes[BAND + cap..].iter().any(|b| *b != b'c') {
                    faults.push((FaultKind::Bounds, "bytes outside the &mut str destination were modified".into()));
                }
                self.buf8.clear();
                self.buf8.extend_from_slice(bytes);
                written_units8 = Some((BAND, cap));
            }
            Sink::String => {
                let mut s = String::with_capacity(prefix.len() + cap);
                s.push_str(prefix);
                let real_cap = s.capacity() - s.len();
                // pre-fill the spare capacity
                unsafe {
                    let p = s.as_mut_ptr().add(s.len());
                    for i in 0..real_cap {
                        p.add(i).write(fill);
                    }
                }
                let ptr_before = s.as_ptr();
                let cap_before = s.capacity();
                let sb = unsafe { std::slice::from_raw_parts(sp, sl) };
                let r = catch(|| {
                    if repl {
                        let (r, rd, f) = dec.decode_to_string(sb, &mut s, last);
                        (coder(r), rd, 0usize, f)
                    } else {
                        let (r, rd) = dec.decode_to_string_without_replacement(sb, &mut s, last);
                        (decr(r), rd, 0usize, false)
                    }
                });
                if s.as_ptr() != ptr_before || s.capacity() != cap_before {
                    faults.push((FaultKind::Bounds, "String destination was reallocated".into()));
                }
                if std::str::from_utf8(s.as_bytes()).is_err() {
                    faults.push((FaultKind::Valid, format!("String is not valid UTF-8 after the call: {}", hex(s.as_bytes()))));
                } else if !s.as_bytes().starts_with(prefix.as_bytes()) {
                    faults.push((FaultKind::Bounds, "existing String contents were altered".into()));
                }
                result = r.map(|(res, rd, _, f)| {
                    let w = s.len().saturating_sub(prefix.len());
                    (res, rd, w, f)
                });
                string_out = Some(s);
            }
        }
        // source must be unchanged
        if unsafe { std::slice::from_raw_parts(sp, sl) } != src || self.srcbuf[..so].iter().any(|b| *b != CANARY8) || self.srcbuf[so + src.len()..].iter().any(|b| *b != CANARY8) {
            faults.push((FaultKind::Bounds, "source buffer (or its surroundings) was modified".into()));
        }
        let dst_len = match &string_out {
            Some(s) => s.capacity() - prefix.len(),
            None => cap,
        };
        let (res, read, written, flag) = match result {
            Err(msg) => {
                if self.tolerate_panic {
                    out.aborted_undersized = true;
                } else {
                    out.faults.push(Fault { kind: FaultKind::Panic, msg: format!("panic: {}", msg), call_index });
                }
                for (k, m) in faults {
                    out.faults.push(Fault { kind: k, msg: m, call_index });
                }
                return None;
            }
            Ok(t) => t,
        };
        if read > src.len() {
            faults.push((FaultKind::Bounds, format!("read {} > src.len() {}", read, src.len())));
        }
        if written > dst_len {
            faults.push((FaultKind::Bounds, format!("written {} > dst.len() {}", written, dst_len)));
        }
        if res == Res::InputEmpty && read != src.len() {
            faults.push((FaultKind::Bounds, format!("InputEmpty with read {} != src.len() {}", read, src.len())));
        }
        let read_c = read.min(src.len());
        let written_c = written.min(dst_len);
        if let Some((off, cap)) = written_units8 {
            if sink == Sink::Utf8 && (self.buf8[..off].iter().any(|b| *b != CANARY8) || self.buf8[off + cap..].iter().any(|b| *b != CANARY8)) {
                faults.push((FaultKind::Bounds, "bytes outside the destination slice were modified".into()));
            }
            let w = &self.buf8[off..off + written_c];
            if std::str::from_utf8(w).is_err() {
                faults.push((FaultKind::Valid, format!("dst[..written] is not valid whole-character UTF-8: {}", hex(w))));
            }
            out.out8.extend_from_slice(w);
        }
        if let Some((off, cap)) = written_units16 {
            if self.buf16[..off].iter().any(|b| *b != CANARY16) || self.buf16[off + cap..].iter().any(|b| *b != CANARY16) {
                faults.push((FaultKind::Bounds, "units outside the destination slice were modified".into()));
            }
            let w = &self.buf16[off..off + written_c];
            if char::decode_utf16(w.iter().cloned()).any(|r| r.is_err()) {
                faults.push((FaultKind::Valid, format!("dst[..written] is not valid whole-character UTF-16: {}", crate::fw::hex16(w))));
            }
            out.out16.extend_from_slice(w);
        }
        if let Some(s) = &string_out {
            let b = s.as_bytes();
            if b.len() >= prefix.len() {
                out.out8.extend_from_slice(&b[prefix.len()..]);
            }
        }
        if let Res::Malformed(l, a) = res {
            if !(1..=4).contains(&l) || a > 3 || (l as usize + a as usize) > 6 {
                faults.push((FaultKind::Range, format!("Malformed({}, {}) outside the documented ranges", l, a)));
            }
        }
        for (k, m) in faults {
            out.faults.push(Fault { kind: k, msg: m, call_index });
        }
        Some(StepOut { res, read: read_c, written: written_c, flag })
    }

    /// Run the whole history.
    pub fn run(&mut self, h: &DecHistory) -> DecOutcome {
        let mut dec = h.mode.new_decoder(h.enc);
        let out = self.run_with(h, &mut dec, &mut |_d: &mut Decoder, _consumed: usize| {});
        out
    }

    /// Run the history on `dec`; `before_call` is invoked before every call with the decoder and the
    /// number of stream bytes consumed so far (used by C19 to interleave queries).
    pub fn run_with(&mut self, h: &DecHistory, dec: &mut Decoder, before_call: &mut dyn FnMut(&mut Decoder, usize)) -> DecOutcome {
        crate::guard::set_current(h as *const DecHistory as *const (), render_dec_history);
        let out = self.run_with_inner(h, dec, before_call);
        crate::guard::clear_current();
        out
    }

    fn run_with_inner(&mut self, h: &DecHistory, dec: &mut Decoder, before_call: &mut dyn FnMut(&mut Decoder, usize)) -> DecOutcome {
        let mut out = DecOutcome::default();
        let n = h.stream.len();
        let mut bounds: Vec<usize> = Vec::with_capacity(h.cuts.len() + 2);
        bounds.push(0);
        for c in &h.cuts {
            let c = (*c).min(n);
            let prev = *bounds.last().unwrap();
            bounds.push(c.max(prev));
        }
        bounds.push(n);
        let nchunks = bounds.len() - 1;
        let total_chunks = nchunks + if h.last_on_empty { 1 } else { 0 };
        out.mixed = Some(Vec::new());
        let call_limit = 10 * (4 * n + 16) + 4 * total_chunks;
        let linear_bound = 4 * n + 16 + 2 * total_chunks;
        let mut cap_i = 0usize;
        let mut consumed = 0usize;
        let mut call_index = 0usize;
        'chunks: for k in 0..total_chunks {
            let (a, b) = if k < nchunks { (bounds[k], bounds[k + 1]) } else { (n, n) };
            let last = k + 1 == total_chunks;
            let mut off = a;
            loop {
                if self.stop_after_calls == Some(call_index) {
                    break 'chunks;
                }
                let src = &h.stream[off..b];
                let sink = h.sink_for_call(call_index);
                let repl = h.repl_for_call(call_index);
                let ample = if sink.is_utf16() { n + 16 } else { 3 * n + 32 };
                let mut from_query = false;
                let mut undersized = false;
                let cap = if h.caps.is_empty() {
                    ample
                } else {
                    let c = h.caps[cap_i % h.caps.len()];
                    cap_i += 1;
                    if c == CAP_QUERY || c == CAP_QUERY_EXACT {
                        from_query = true;
                        let q = match (sink.is_utf16(), repl) {
                            (true, _) => dec.max_utf16_buffer_length(src.len()),
                            (false, true) => dec.max_utf8_buffer_length(src.len()),
                            (false, false) => dec.max_utf8_buffer_length_without_replacement(src.len()),
                        };
                        if c == CAP_QUERY_EXACT {
                            q.unwrap_or(ample)
                        } else {
                            q.unwrap_or(ample).max(sink.min_cap())
                        }
                    } else if c == CAP_AMPLE {
                        ample
                    } else if (CAP_UNDER_BASE..CAP_UNDER_BASE + 8).contains(&c) {
                        undersized = true;
                        c - CAP_UNDER_BASE
                    } else {
                        c.max(sink.min_cap())
                    }
                };
                self.tolerate_panic = undersized;
                before_call(dec, consumed);
                let (l8, l16) = (out.out8.len(), out.out16.len());
                let so = match self.step(dec, sink, repl, src, cap, last, h.fill, h.align, &mut out, call_index) {
                    None => break 'chunks,
                    Some(s) => s,
                };
                // scalars of this call, in call order
                let mut bad = false;
                let mut add: Vec<u32> = Vec::new();
                match std::str::from_utf8(&out.out8[l8..]) {
                    Ok(t) => add.extend(t.chars().map(|c| c as u32)),
                    Err(_) => bad = true,
                }
                for r in char::decode_utf16(out.out16[l16..].iter().cloned()) {
                    match r {
                        Ok(c) => add.push(c as u32),
                        Err(_) => bad = true,
                    }
                }
                match (&mut out.mixed, bad) {
                    (Some(m), false) => m.extend(add),
                    _ => out.mixed = None,
                }
                out.calls.push(Call { src_off: off, src_len: src.len(), dst_len: cap, last, res: so.res, read: so.read, written: so.written, flag: so.flag, cap_from_query: from_query });
                off += so.read;
                consumed += so.read;
                out.had_errors |= so.flag;
                if from_query && so.res == Res::OutputFull {
                    out.faults.push(Fault { kind: FaultKind::MaxQuery, msg: format!("OutputFull although dst.len() {} was the max_* answer for {} input bytes", cap, src.len()), call_index });
                }
                let stream_ends = last && so.res == Res::InputEmpty;
                if undersized && so.read == 0 && so.written == 0 && so.res == Res::OutputFull {
                    // below the minimum no progress is owed; the next capacity of the pattern follows
                    call_index += 1;
                    if call_index > call_limit {
                        out.faults.push(Fault { kind: FaultKind::Progress, msg: format!("caller loop did not terminate within {} calls for {} bytes", call_limit, n), call_index });
                        break 'chunks;
                    }
                    continue;
                }
                if !stream_ends && so.read == 0 && so.written == 0 && !matches!(so.res, Res::Malformed(..)) && !(so.res == Res::InputEmpty && src.is_empty()) {
                    // no input consumed, no output produced, no error reported
                    out.faults.push(Fault { kind: FaultKind::Progress, msg: format!("call made no progress: {:?} read 0 written 0 with src.len() {} dst.len() {}", so.res, src.len(), cap), call_index });
                    break 'chunks;
                }
                call_index += 1;
                if call_index > call_limit {
                    out.faults.push(Fault { kind: FaultKind::Progress, msg: format!("caller loop did not terminate within {} calls for {} bytes", call_limit, n), call_index });
                    break 'chunks;
                }
                match so.res {
                    Res::InputEmpty => break,
                    Res::OutputFull => continue,
                    Res::Malformed(l, a) => {
                        out.had_errors = true;
                        out.raw_malformed.push((l, a));
                        let end = consumed; // bytes consumed so far in the stream
                        let la = l as usize + a as usize;
                        if la > end {
                            out.faults.push(Fault { kind: FaultKind::Range, msg: format!("Malformed({}, {}) points before the start of the stream (only {} bytes consumed)", l, a, end), call_index });
                            out.errors.push((0, l as usize));
                        } else {
                            out.errors.push((end - la, l as usize));
                        }
                        // the documented manual recovery: append U+FFFD ourselves
                        if let Some(m) = out.mixed.as_mut() {
                            m.push(0xFFFD);
                        }
                        if sink.is_utf16() {
                            out.out16.push(0xFFFD);
                        } else {
                            out.out8.extend_from_slice("\u{FFFD}".as_bytes());
                        }
                        continue;
                    }
                }
            }
            if k + 1 == total_chunks {
                out.completed = true;
            }
        }
        if out.completed && call_index > linear_bound {
            out.faults.push(Fault { kind: FaultKind::Progress, msg: format!("{} calls for a {}-byte stream exceeds the linear bound {}", call_index, n, linear_bound), call_index });
        }
        out.final_enc = Some(dec.encoding());
        out
    }
}

fn render_dec_history(p: *const ()) -> String {
    let h = unsafe { &*(p as *const DecHistory) };
    h.to_json().to_string()
}

fn coder(r: CoderResult) -> Res {
    match r {
        CoderResult::InputEmpty => Res::InputEmpty,
        CoderResult::OutputFull => Res::OutputFull,
    }
}

fn decr(r: DecoderResult) -> Res {
    match r {
        DecoderResult::InputEmpty => Res::InputEmpty,
        DecoderResult::OutputFull => Res::OutputFull,
        DecoderResult::Malformed(a, b) => Res::Malformed(a, b),
    }
}
