//! Reference decoders transcribed from the WHATWG Encoding Standard (byte-at-a-time handlers
//! with an explicit "restore"), sharing no code or tables with /repo/src.
//!
//! Output: an event list over absolute stream offsets.  An error's byte range is
//! "bytes consumed for the failed sequence that are not re-processed", which is the crate's
//! documented notion of a malformed sequence; the two ISO-2022-JP attributions the crate
//! defines for itself (ESC in trail state, escape directly after escape) are modelled as the
//! crate documents them in its source comments and tests.

use crate::golden::{golden, Cell};
use encoding_rs::Encoding;

#[derive(Clone, Copy, PartialEq, Eq, Debug, Hash)]
pub enum Ev {
    Ch(u32),
    /// (start, len) of the malformed sequence
    Err(usize, usize),
}

#[derive(Clone, Copy, PartialEq, Eq, Debug)]
pub enum Algo {
    SingleByte(usize), // index into golden().single_byte
    XUserDefined,
    Utf8,
    Utf16(bool), // big endian?
    Big5,
    EucKr,
    ShiftJis,
    EucJp,
    Gb18030, // also GBK's decoder
    Iso2022Jp,
    Replacement,
}

pub fn algo_for(enc: &'static Encoding) -> Algo {
    let n = enc.name();
    match n {
        "UTF-8" => Algo::Utf8,
        "UTF-16BE" => Algo::Utf16(true),
        "UTF-16LE" => Algo::Utf16(false),
        "Big5" => Algo::Big5,
        "EUC-KR" => Algo::EucKr,
        "Shift_JIS" => Algo::ShiftJis,
        "EUC-JP" => Algo::EucJp,
        "GBK" | "gb18030" => Algo::Gb18030,
        "ISO-2022-JP" => Algo::Iso2022Jp,
        "replacement" => Algo::Replacement,
        "x-user-defined" => Algo::XUserDefined,
        _ => {
            let g = golden();
            let i = g
                .single_byte
                .iter()
                .position(|(name, _)| name == n)
                .unwrap_or_else(|| panic!("no golden single-byte index for {}", n));
            Algo::SingleByte(i)
        }
    }
}

struct Io<'a> {
    bytes: &'a [u8],
    i: usize,
    start: Option<usize>,
    ev: Vec<Ev>,
}

impl<'a> Io<'a> {
    fn emit(&mut self, cp: u32) {
        self.ev.push(Ev::Ch(cp));
        self.start = None;
    }
    fn emit_cell(&mut self, c: Cell) {
        match c {
            Cell::One(a) => self.ev.push(Ev::Ch(a)),
            Cell::Two(a, b) => {
                self.ev.push(Ev::Ch(a));
                self.ev.push(Ev::Ch(b));
            }
            Cell::Null => unreachable!(),
        }
        self.start = None;
    }
    /// Report an error after giving `restore` trailing bytes back to the stream.
    fn error(&mut self, restore: usize) {
        self.i -= restore;
        let s = self.start.expect("error without a sequence start");
        self.ev.push(Ev::Err(s, self.i - s));
        self.start = None;
    }
}

fn cell(idx: &[Cell], p: Option<usize>) -> Cell {
    match p {
        Some(p) if p < idx.len() => idx[p],
        _ => Cell::Null,
    }
}

#[derive(Clone, Copy, PartialEq, Eq)]
enum JState {
    Ascii,
    Roman,
    Katakana,
    Lead,
    Trail,
    EscapeStart,
    Escape,
}

/// Decode a complete stream (no BOM handling) per the Standard.
pub fn decode(algo: Algo, bytes: &[u8]) -> Vec<Ev> {
    let g = golden();
    let mut io = Io { bytes, i: 0, start: None, ev: Vec::new() };
    // per-algorithm state
    let mut lead: u32 = 0; // generic lead / first
    let mut second: u32 = 0;
    let mut third: u32 = 0;
    let mut jis0212 = false;
    // utf-8
    let (mut cp, mut seen, mut needed, mut lower, mut upper) = (0u32, 0u32, 0u32, 0x80u8, 0xBFu8);
    // utf-16
    let mut lead_byte: Option<u8> = None;
    let mut lead_surrogate: Option<u16> = None;
    // iso-2022-jp
    let mut jstate = JState::Ascii;
    let mut jout = JState::Ascii;
    let mut jflag = false;
    let mut j_end_seen = false;
    let mut prev_escape_start: Option<usize> = None; // start offset of the escape that set jflag
    // replacement
    let mut replacement_done = false;

    loop {
        let b: Option<u8> = if io.i < io.bytes.len() {
            let b = io.bytes[io.i];
            if io.start.is_none() {
                io.start = Some(io.i);
            }
            io.i += 1;
            Some(b)
        } else {
            None
        };
        match algo {
            Algo::SingleByte(ix) => match b {
                None => break,
                Some(b) if b < 0x80 => io.emit(b as u32),
                Some(b) => match g.single_byte[ix].1[(b - 0x80) as usize] {
                    Some(c) => io.emit(c as u32),
                    None => io.error(0),
                },
            },
            Algo::XUserDefined => match b {
                None => break,
                Some(b) if b < 0x80 => io.emit(b as u32),
                Some(b) => io.emit(0xF780 + b as u32 - 0x80),
            },
            Algo::Replacement => match b {
                None => break,
                Some(_) => {
                    if !replacement_done {
                        replacement_done = true;
                        io.error(0);
                    } else {
                        // consumed silently
                        io.start = None;
                    }
                }
            },
            Algo::Utf8 => match b {
                None => {
                    if needed != 0 {
                        needed = 0;
                        io.error(0);
                        continue;
                    }
                    break;
                }
                Some(b) => {
                    if needed == 0 {
                        match b {
                            0x00..=0x7F => io.emit(b as u32),
                            0xC2..=0xDF => {
                                needed = 1;
                                cp = (b & 0x1F) as u32;
                            }
                            0xE0..=0xEF => {
                                if b == 0xE0 {
                                    lower = 0xA0;
                                }
                                if b == 0xED {
                                    upper = 0x9F;
                                }
                                needed = 2;
                                cp = (b & 0xF) as u32;
                            }
                            0xF0..=0xF4 => {
                                if b == 0xF0 {
                                    lower = 0x90;
                                }
                                if b == 0xF4 {
                                    upper = 0x8F;
                                }
                                needed = 3;
                                cp = (b & 0x7) as u32;
                            }
                            _ => io.error(0),
                        }
                        continue;
                    }
                    if b < lower || b > upper {
                        cp = 0;
                        needed = 0;
                        seen = 0;
                        lower = 0x80;
                        upper = 0xBF;
                        io.error(1);
                        continue;
                    }
                    lower = 0x80;
                    upper = 0xBF;
                    cp = (cp << 6) | (b & 0x3F) as u32;
                    seen += 1;
                    if seen != needed {
                        continue;
                    }
                    let c = cp;
                    cp = 0;
                    needed = 0;
                    seen = 0;
                    io.emit(c);
                }
            },
            Algo::Utf16(be) => match b {
                None => {
                    if lead_byte.is_some() || lead_surrogate.is_some() {
                        lead_byte = None;
                        lead_surrogate = None;
                        io.error(0);
                        continue;
                    }
                    break;
                }
                Some(b) => {
                    let lb = match lead_byte {
                        None => {
                            lead_byte = Some(b);
                            continue;
                        }
                        Some(lb) => lb,
                    };
                    lead_byte = None;
                    let cu: u16 = if be { ((lb as u16) << 8) | b as u16 } else { ((b as u16) << 8) | lb as u16 };
                    if let Some(ls) = lead_surrogate {
                        lead_surrogate = None;
                        if (0xDC00..=0xDFFF).contains(&cu) {
                            io.emit(0x10000 + (((ls as u32) - 0xD800) << 10) + (cu as u32 - 0xDC00));
                        } else {
                            io.error(2);
                        }
                        continue;
                    }
                    if (0xD800..=0xDBFF).contains(&cu) {
                        lead_surrogate = Some(cu);
                        continue;
                    }
                    if (0xDC00..=0xDFFF).contains(&cu) {
                        io.error(0);
                        continue;
                    }
                    io.emit(cu as u32);
                }
            },
            Algo::Big5 => match b {
                None => {
                    if lead != 0 {
                        lead = 0;
                        io.error(0);
                        continue;
                    }
                    break;
                }
                Some(b) => {
                    if lead != 0 {
                        let l = lead;
                        lead = 0;
                        let offset: u32 = if b < 0x7F { 0x40 } else { 0x62 };
                        let p = if (0x40..=0x7E).contains(&b) || (0xA1..=0xFE).contains(&b) {
                            Some(((l - 0x81) * 157 + (b as u32 - offset)) as usize)
                        } else {
                            None
                        };
                        match cell(&g.big5, p) {
                            Cell::Null => io.error(if b < 0x80 { 1 } else { 0 }),
                            c => io.emit_cell(c),
                        }
                        continue;
                    }
                    match b {
                        0x00..=0x7F => io.emit(b as u32),
                        0x81..=0xFE => lead = b as u32,
                        _ => io.error(0),
                    }
                }
            },
            Algo::EucKr => match b {
                None => {
                    if lead != 0 {
                        lead = 0;
                        io.error(0);
                        continue;
                    }
                    break;
                }
                Some(b) => {
                    if lead != 0 {
                        let l = lead;
                        lead = 0;
                        let p = if (0x41..=0xFE).contains(&b) {
                            Some(((l - 0x81) * 190 + (b as u32 - 0x41)) as usize)
                        } else {
                            None
                        };
                        match cell(&g.euc_kr, p) {
                            Cell::Null => io.error(if b < 0x80 { 1 } else { 0 }),
                            c => io.emit_cell(c),
                        }
                        continue;
                    }
                    match b {
                        0x00..=0x7F => io.emit(b as u32),
                        0x81..=0xFE => lead = b as u32,
                        _ => io.error(0),
                    }
                }
            },
            Algo::ShiftJis => match b {
                None => {
                    if lead != 0 {
                        lead = 0;
                        io.error(0);
                        continue;
                    }
                    break;
                }
                Some(b) => {
                    if lead != 0 {
                        let l = lead;
                        lead = 0;
                        let offset: u32 = if b < 0x7F { 0x40 } else { 0x41 };
                        let lead_offset: u32 = if l < 0xA0 { 0x81 } else { 0xC1 };
                        let p = if (0x40..=0x7E).contains(&b) || (0x80..=0xFC).contains(&b) {
                            Some(((l - lead_offset) * 188 + b as u32 - offset) as usize)
                        } else {
                            None
                        };
                        if let Some(pp) = p {
                            if (8836..=10715).contains(&pp) {
                                io.emit(0xE000 - 8836 + pp as u32);
                                continue;
                            }
                        }
                        match cell(&g.jis0208, p) {
                            Cell::Null => io.error(if b < 0x80 { 1 } else { 0 }),
                            c => io.emit_cell(c),
                        }
                        continue;
                    }
                    match b {
                        0x00..=0x80 => io.emit(b as u32),
                        0xA1..=0xDF => io.emit(0xFF61 - 0xA1 + b as u32),
                        0x81..=0x9F | 0xE0..=0xFC => lead = b as u32,
                        _ => io.error(0),
                    }
                }
            },
            Algo::EucJp => match b {
                None => {
                    if lead != 0 {
                        lead = 0;
                        // (the Standard does not reset the jis0212 flag here; the stream ends)
                        io.error(0);
                        continue;
                    }
                    break;
                }
                Some(b) => {
                    if lead == 0x8E && (0xA1..=0xDF).contains(&b) {
                        lead = 0;
                        io.emit(0xFF61 - 0xA1 + b as u32);
                        continue;
                    }
                    if lead == 0x8F && (0xA1..=0xFE).contains(&b) {
                        jis0212 = true;
                        lead = b as u32;
                        continue;
                    }
                    if lead != 0 {
                        let l = lead;
                        lead = 0;
                        let mut c = Cell::Null;
                        if (0xA1..=0xFE).contains(&l) && (0xA1..=0xFE).contains(&b) {
                            let p = ((l - 0xA1) * 94 + b as u32 - 0xA1) as usize;
                            c = cell(if jis0212 { &g.jis0212 } else { &g.jis0208 }, Some(p));
                        }
                        jis0212 = false;
                        match c {
                            Cell::Null => io.error(if b < 0x80 { 1 } else { 0 }),
                            c => io.emit_cell(c),
                        }
                        continue;
                    }
                    match b {
                        0x00..=0x7F => io.emit(b as u32),
                        0x8E | 0x8F | 0xA1..=0xFE => lead = b as u32,
                        _ => io.error(0),
                    }
                }
            },
            Algo::Gb18030 => match b {
                None => {
                    if lead != 0 || second != 0 || third != 0 {
                        lead = 0;
                        second = 0;
                        third = 0;
                        io.error(0);
                        continue;
                    }
                    break;
                }
                Some(b) => {
                    if third != 0 {
                        if !(0x30..=0x39).contains(&b) {
                            // restore « second, third, byte »
                            lead = 0;
                            second = 0;
                            third = 0;
                            io.error(3);
                            continue;
                        }
                        let p = (lead - 0x81) * 12600 + (second - 0x30) * 1260 + (third - 0x81) * 10 + b as u32 - 0x30;
                        lead = 0;
                        second = 0;
                        third = 0;
                        match g.gb18030_ranges_code_point(p) {
                            None => io.error(0),
                            Some(c) => io.emit(c),
                        }
                        continue;
                    }
                    if second != 0 {
                        if (0x81..=0xFE).contains(&b) {
                            third = b as u32;
                            continue;
                        }
                        // restore « second, byte »
                        lead = 0;
                        second = 0;
                        io.error(2);
                        continue;
                    }
                    if lead != 0 {
                        if (0x30..=0x39).contains(&b) {
                            second = b as u32;
                            continue;
                        }
                        let l = lead;
                        lead = 0;
                        let offset: u32 = if b < 0x7F { 0x40 } else { 0x41 };
                        let p = if (0x40..=0x7E).contains(&b) || (0x80..=0xFE).contains(&b) {
                            Some(((l - 0x81) * 190 + (b as u32 - offset)) as usize)
                        } else {
                            None
                        };
                        match cell(&g.gb18030, p) {
                            Cell::Null => io.error(if b < 0x80 { 1 } else { 0 }),
                            c => io.emit_cell(c),
                        }
                        continue;
                    }
                    match b {
                        0x00..=0x7F => io.emit(b as u32),
                        0x80 => io.emit(0x20AC),
                        0x81..=0xFE => lead = b as u32,
                        _ => io.error(0),
                    }
                }
            },
            Algo::Iso2022Jp => {
                if b.is_none() && !j_end_seen {
                    // the Standard's decoder state when the input runs out (before end-of-stream
                    // handling): initial = ASCII decoder state, ASCII output state, flag unset
                    j_end_seen = true;
                    ISO2022JP_INITIAL_AT_END.with(|c| c.set(jstate == JState::Ascii && jout == JState::Ascii && !jflag));
                }
                match jstate {
                    JState::Ascii | JState::Roman | JState::Katakana | JState::Lead => {
                        let b = match b {
                            None => break,
                            Some(b) => b,
                        };
                        if b == 0x1B {
                            jstate = JState::EscapeStart;
                            continue;
                        }
                        jflag = false;
                        match jstate {
                            JState::Ascii => {
                                if b <= 0x7F && b != 0x0E && b != 0x0F {
                                    io.emit(b as u32)
                                } else {
                                    io.error(0)
                                }
                            }
                            JState::Roman => {
                                if b == 0x5C {
                                    io.emit(0xA5)
                                } else if b == 0x7E {
                                    io.emit(0x203E)
                                } else if b <= 0x7F && b != 0x0E && b != 0x0F {
                                    io.emit(b as u32)
                                } else {
                                    io.error(0)
                                }
                            }
                            JState::Katakana => {
                                if (0x21..=0x5F).contains(&b) {
                                    io.emit(0xFF61 - 0x21 + b as u32)
                                } else {
                                    io.error(0)
                                }
                            }
                            JState::Lead => {
                                if (0x21..=0x7E).contains(&b) {
                                    lead = b as u32;
                                    jstate = JState::Trail;
                                } else {
                                    io.error(0)
                                }
                            }
                            _ => unreachable!(),
                        }
                    }
                    JState::Trail => match b {
                        None => {
                            jstate = JState::Lead;
                            io.error(0);
                        }
                        Some(0x1B) => {
                            // Standard: state = escape start, return error.  The crate attributes
                            // the error to the lead byte alone (Malformed(1, 1)): the ESC starts
                            // the next sequence.
                            jstate = JState::EscapeStart;
                            io.error(1);
                            // re-consume the ESC as the start of the escape sequence
                            io.start = Some(io.i);
                            io.i += 1;
                        }
                        Some(b) if (0x21..=0x7E).contains(&b) => {
                            jstate = JState::Lead;
                            let p = ((lead - 0x21) * 94 + b as u32 - 0x21) as usize;
                            match cell(&g.jis0208, Some(p)) {
                                Cell::Null => io.error(0),
                                c => io.emit_cell(c),
                            }
                        }
                        Some(_) => {
                            jstate = JState::Lead;
                            io.error(0);
                        }
                    },
                    JState::EscapeStart => match b {
                        Some(b) if b == 0x24 || b == 0x28 => {
                            lead = b as u32;
                            jstate = JState::Escape;
                        }
                        other => {
                            jflag = false;
                            jstate = jout;
                            io.error(if other.is_some() { 1 } else { 0 });
                        }
                    },
                    JState::Escape => {
                        let l = lead;
                        lead = 0;
                        let st = match (l, b) {
                            (0x28, Some(0x42)) => Some(JState::Ascii),
                            (0x28, Some(0x4A)) => Some(JState::Roman),
                            (0x28, Some(0x49)) => Some(JState::Katakana),
                            (0x24, Some(0x40)) | (0x24, Some(0x42)) => Some(JState::Lead),
                            _ => None,
                        };
                        match st {
                            Some(s) => {
                                jstate = s;
                                jout = s;
                                let out = jflag;
                                jflag = true;
                                let this_start = io.start.unwrap();
                                if out {
                                    // Escape directly after an escape: the crate reports the
                                    // *first* escape sequence as the malformed one
                                    // (Malformed(3, 3)).
                                    let ps = prev_escape_start.unwrap();
                                    io.ev.push(Ev::Err(ps, 3));
                                }
                                io.start = None;
                                prev_escape_start = Some(this_start);
                            }
                            None => {
                                jflag = false;
                                jstate = jout;
                                // restore lead and (if not EOF) byte
                                io.error(if b.is_some() { 2 } else { 1 });
                            }
                        }
                    }
                }
            }
        }
    }
    io.ev
}

thread_local! {
    static ISO2022JP_INITIAL_AT_END: std::cell::Cell<bool> = const { std::cell::Cell::new(true) };
}

/// Is the Standard's ISO-2022-JP decoder back in its initial state (ASCII decoder state, ASCII
/// output state, output flag unset, nothing pending) after consuming `prefix`?
pub fn iso2022jp_initial_state_after(prefix: &[u8]) -> bool {
    ISO2022JP_INITIAL_AT_END.with(|c| c.set(true));
    let _ = decode(Algo::Iso2022Jp, prefix);
    ISO2022JP_INITIAL_AT_END.with(|c| c.get())
}

/// Scalars with one U+FFFD per error (the "replacement" error mode).
pub fn with_replacement(ev: &[Ev]) -> Vec<u32> {
    ev.iter().map(|e| match e { Ev::Ch(c) => *c, Ev::Err(..) => 0xFFFD }).collect()
}

pub fn errors(ev: &[Ev]) -> Vec<(usize, usize)> {
    ev.iter().filter_map(|e| match e { Ev::Err(s, l) => Some((*s, *l)), _ => None }).collect()
}
